//! C09: bounded look-ahead, prompt stop after the consumer drops the iterator, no wedge on panic.
//! input = (mode xs W choices dropk cap); see coq/theories/C09_Model.v for the modes.
use std::sync::atomic::{AtomicUsize, Ordering};
use std::sync::Arc;
use std::time::{Duration, Instant};
use text_utils::data::loading::{BufferedIterator, PipelineIterator};
use vh::sched::*;
use vh::*;

struct C09;

struct Upstream {
    n: usize,
    pos: usize,
    pulled: Arc<AtomicUsize>,
}
impl Iterator for Upstream {
    type Item = usize;
    fn next(&mut self) -> Option<usize> {
        if self.pos < self.n {
            self.pos += 1;
            self.pulled.fetch_add(1, Ordering::SeqCst);
            Some(self.pos - 1)
        } else {
            None
        }
    }
}

const BIG: usize = 200_000;

/// free-running Pipe: (ahead before drop, pulled after drop, all workers exited)
fn pipe_free(w: usize, k: usize) -> (i64, i64, bool) {
    let ctl = Ctl::new(false);
    ctl.set_free();
    ctl.install();
    let pulled = Arc::new(AtomicUsize::new(0));
    let up = Upstream { n: BIG, pos: 0, pulled: pulled.clone() };
    let pipeline: text_utils::data::Pipeline<usize, usize> = Arc::new(|x| x + 1);
    let mut pipe = up.pipe(pipeline, w as u8);
    let _ = std::panic::take_hook();
    std::panic::set_hook(Box::new(|_| {}));
    for _ in 0..k {
        let _ = pipe.next();
    }
    // idle consumer: the workers run ahead as far as they can
    let mut ahead = 0usize;
    let t0 = Instant::now();
    while t0.elapsed() < Duration::from_millis(15) {
        ahead = ahead.max(pulled.load(Ordering::SeqCst) - k);
        std::thread::sleep(Duration::from_millis(1));
    }
    ahead = ahead.max(pulled.load(Ordering::SeqCst) - k);
    let at_drop = pulled.load(Ordering::SeqCst);
    drop(pipe);
    let threads: Vec<usize> = (0..w).collect();
    // generous on purpose: a loaded machine must not turn a slow exit into an alarm
    let exited = ctl.wait_exited(&threads, 15_000);
    // a worker that never stops would keep pulling: give it a moment to show
    std::thread::sleep(Duration::from_millis(3));
    let after = pulled.load(Ordering::SeqCst) - at_drop;
    text_utils::verif::install(None);
    (ahead as i64, after as i64, exited == w)
}

fn buffered_free(cap: usize, k: usize) -> (i64, i64, bool) {
    let ctl = Ctl::new(true);
    ctl.set_free();
    ctl.install();
    let pulled = Arc::new(AtomicUsize::new(0));
    let up = Upstream { n: BIG, pos: 0, pulled: pulled.clone() };
    let mut buf = up.buffered(cap);
    for _ in 0..k {
        let _ = buf.next();
    }
    let mut ahead = 0usize;
    let t0 = Instant::now();
    while t0.elapsed() < Duration::from_millis(15) {
        ahead = ahead.max(pulled.load(Ordering::SeqCst) - k);
        std::thread::sleep(Duration::from_millis(1));
    }
    let at_drop = pulled.load(Ordering::SeqCst);
    drop(buf);
    let exited = ctl.wait_exited(&[0], 15_000);
    std::thread::sleep(Duration::from_millis(3));
    let after = pulled.load(Ordering::SeqCst) - at_drop;
    text_utils::verif::install(None);
    (ahead as i64, after as i64, exited == 1)
}

/// child process body: a Pipe whose function panics at item `p`; the consumer drains it.
/// `scenario` 0: a single pipe. 1: "second epoch" — an older pipe is created first and dropped
/// (partly consumed) while the panicking one is alive, as `TrainLoader::init_iter` does when it
/// replaces its iterator. 2: "other loader" — an older pipe is drained to its end and dropped
/// before the younger one reaches the panicking item. 3: a younger pipe is created and dropped
/// before the older one panics. 4: a pipe is drained, then `train_bpe` runs (the other place of the crate
/// that installs a process-wide panic hook — a print-only one), then a new pipe panics. 5: `train_bpe`
/// runs first, then a pipe panics. 6: the consumer holds the stdout lock. 7: the panic starts on a rayon
/// helper thread inside the processing function.
fn run_train_bpe() {
    let dir = std::env::temp_dir().join(format!("verif-c09-bpe-{}", std::process::id()));
    let _ = std::fs::create_dir_all(&dir);
    let f = dir.join("corpus.txt");
    let _ = std::fs::write(&f, "ab ab abc\nab c\n");
    let out = dir.join("merges");
    let _ = text_utils::tokenization::train_bpe(&[f], 320, 0, &out, None, None, 2, false);
    let _ = std::fs::remove_dir_all(&dir);
}

fn child_panic(w: usize, n: usize, p: usize, scenario: usize) -> ! {
    let mk = |panic_at: Option<usize>| {
        let pipeline: text_utils::data::Pipeline<usize, usize> = Arc::new(move |x| {
            if Some(x) == panic_at {
                panic!("boom at {x}");
            }
            x
        });
        (0..n).pipe(pipeline, w as u8)
    };
    let mut c = 0usize;
    match scenario {
        1 => {
            let mut old = mk(None);
            let _ = old.next();
            let young = mk(Some(p));
            drop(old);
            for _ in young {
                c += 1;
            }
        }
        2 => {
            let old = mk(None);
            let mut young = mk(Some(p));
            for _ in old {}
            for _ in young.by_ref() {
                c += 1;
            }
        }
        3 => {
            let old = mk(Some(p));
            let young = mk(None);
            drop(young);
            for _ in old {
                c += 1;
            }
        }
        4 => {
            for _ in mk(None) {}
            run_train_bpe();
            for _ in mk(Some(p)) {
                c += 1;
            }
        }
        5 => {
            run_train_bpe();
            for _ in mk(Some(p)) {
                c += 1;
            }
        }
        6 => {
            // the consumer holds the process-wide stdout lock while it drains the pipe (the usual
            // `let mut out = stdout().lock(); for x in pipe { writeln!(out, ..) }` loop): a hook that prints
            // with `println!` before exiting would wait for that lock forever
            use std::io::Write;
            let mut out = std::io::stdout().lock();
            for x in mk(Some(p)) {
                let _ = writeln!(out, "{x}");
                c += 1;
            }
        }
        7 => {
            // the panic starts on a helper thread (rayon pool) and is re-raised in the worker by resume_unwind:
            // the hook runs on the helper thread, not on the pipe's worker
            let pipeline: text_utils::data::Pipeline<usize, usize> = Arc::new(move |x| {
                let (a, _) = rayon::join(
                    || {
                        if x == p {
                            panic!("boom at {x} on a helper thread");
                        }
                        x
                    },
                    || std::thread::sleep(Duration::from_millis(1)),
                );
                a
            });
            for _ in (0..n).pipe(pipeline, w as u8) {
                c += 1;
            }
        }
        _ => {
            for _ in mk(Some(p)) {
                c += 1;
            }
        }
    }
    // reached only if nothing panicked (p >= n) or the panic did not end the process:
    // a silently truncated stream is as bad as a blocked consumer
    std::process::exit(if c == n { 0 } else { 3 });
}

// ---------------------------------------------------------------------------------------------
// mode 5: the process-wide panic hook as a state machine (coq/theories/C09_Hook.v).
// An operation is one integer `kind * 8 + arg`:
//   0 NewPipe (arg mod 4 worker threads; 0 = unthreaded), 1 DropPipe arg, 2 TrainBpe, 3 PanicIn arg (pipe index in
//   creation order), 4 PanicElsewhere (a panic on a thread that belongs to no pipe), 5 ForeignHook (code outside the
//   crate installs a silent panic hook), 6 LockStdout / 7 UnlockStdout (the consumer thread takes / releases the
//   process-wide stdout lock, as a `let mut out = stdout().lock(); for x in pipe { writeln!(out, ..) }` loop does).
// The child prints `op K` before operation K; the crate's own print-only hook prints `thread panicked: ..` lines to
// the same stream. Exit status: 0 all operations done, 1 the exit hook ended the process, 42 the consumer (or the
// thread waiting for the panicking thread) was still blocked when the watchdog fired, 43 the stream of the panicking
// pipe just ended, 101 the consumer thread itself panicked (unthreaded pipe) and unwound, 44 harness anomaly.
const HOOK_MAX_PIPES: usize = 5;
const HOOK_WATCHDOG_MS: u64 = 10_000;

fn hook_child(codes: &[usize]) -> ! {
    use std::sync::atomic::AtomicBool;
    let mut pipes: Vec<(Option<text_utils::data::loading::Pipe<usize>>, Arc<AtomicBool>, usize)> = vec![];
    let mut lock: Option<std::io::StdoutLock<'static>> = None;
    let watchdog = || {
        std::thread::spawn(|| {
            std::thread::sleep(Duration::from_millis(HOOK_WATCHDOG_MS * vh::patience()));
            std::process::exit(42);
        });
    };
    for (k, code) in codes.iter().enumerate() {
        println!("op {k}");
        let arg = code % 8;
        match code / 8 {
            0 => {
                let w = arg % 4;
                let armed = Arc::new(AtomicBool::new(false));
                let a2 = armed.clone();
                // exactly one item panics once the pipe is armed
                let pipeline: text_utils::data::Pipeline<usize, usize> = Arc::new(move |x| {
                    if a2.swap(false, Ordering::SeqCst) {
                        panic!("boom at {x}");
                    }
                    x
                });
                pipes.push((Some((0usize..).pipe(pipeline, w as u8)), armed, w));
            }
            1 => {
                if let Some(p) = pipes.get_mut(arg) {
                    p.0 = None;
                }
            }
            2 => run_train_bpe(),
            3 => {
                if let Some((Some(pipe), armed, w)) = pipes.get_mut(arg).map(|p| (p.0.as_mut(), p.1.clone(), p.2)) {
                    armed.store(true, Ordering::SeqCst);
                    if w > 0 {
                        watchdog();
                    }
                    // a threaded pipe: never returns normally (exit hook, wedge or end of stream);
                    // an unthreaded one: the panic is raised right here, on the consumer thread
                    let mut c = 0usize;
                    loop {
                        match pipe.next() {
                            Some(_) => c += 1,
                            None => std::process::exit(43),
                        }
                        if c > 10_000_000 {
                            std::process::exit(44);
                        }
                    }
                }
            }
            4 => {
                let h = std::thread::spawn(|| panic!("boom elsewhere"));
                let t0 = Instant::now();
                while !h.is_finished() {
                    if t0.elapsed() > Duration::from_millis(HOOK_WATCHDOG_MS * vh::patience()) {
                        std::process::exit(42);
                    }
                    std::thread::sleep(Duration::from_micros(200));
                }
                let _ = h.join();
            }
            5 => std::panic::set_hook(Box::new(|_| {})),
            6 => {
                if lock.is_none() {
                    lock = Some(std::io::stdout().lock());
                }
            }
            7 => lock = None,
            _ => {}
        }
    }
    std::process::exit(0);
}

/// runs the child; result = (exit status or -1 for "had to be killed", number of `thread panicked` lines after each `op K`)
fn run_hook_child(codes: &[usize]) -> (i64, Vec<usize>) {
    static SEQ: AtomicUsize = AtomicUsize::new(0);
    let exe = std::env::current_exe().unwrap();
    let path = std::env::temp_dir().join(format!(
        "verif-c09-hook-{}-{}.out",
        std::process::id(),
        SEQ.fetch_add(1, Ordering::SeqCst)
    ));
    let Ok(file) = std::fs::File::create(&path) else { return (-2, vec![]) };
    let mut args = vec!["child-hook".to_string()];
    args.extend(codes.iter().map(|c| c.to_string()));
    let mut child = match std::process::Command::new(exe)
        .args(&args)
        .stdin(std::process::Stdio::null())
        .stdout(std::process::Stdio::from(file))
        .stderr(std::process::Stdio::null())
        .spawn()
    {
        Ok(c) => c,
        Err(_) => return (-2, vec![]),
    };
    let t0 = Instant::now();
    let status = loop {
        match child.try_wait() {
            Ok(Some(st)) => break st.code().map(|c| c as i64).unwrap_or(-3),
            Ok(None) => {
                if t0.elapsed() > Duration::from_secs(40 * vh::patience()) {
                    let _ = child.kill();
                    let _ = child.wait();
                    break -1;
                }
                std::thread::sleep(Duration::from_millis(2));
            }
            Err(_) => break -2,
        }
    };
    let text = std::fs::read_to_string(&path).unwrap_or_default();
    let _ = std::fs::remove_file(&path);
    let mut counts: Vec<usize> = vec![];
    for line in text.lines() {
        if line.starts_with("op ") {
            counts.push(0);
        } else if line.starts_with("thread panicked") {
            if let Some(c) = counts.last_mut() {
                *c += 1;
            }
        }
    }
    (status, counts)
}

/// ghost bookkeeping of the harness (tags only): does operation k panic in a live threaded pipe that was created
/// after the last foreign hook?
fn hook_tags(codes: &[usize]) -> Vec<String> {
    let mut pipes: Vec<(usize, bool, bool)> = vec![]; // threads, live, clobbered
    let mut tags = vec![];
    let mut trained_live = false;
    for code in codes {
        let arg = code % 8;
        match code / 8 {
            0 => pipes.push((arg % 4, true, false)),
            1 => {
                if let Some(p) = pipes.get_mut(arg) {
                    p.1 = false;
                }
            }
            2 => {
                if pipes.iter().any(|p| p.0 > 0 && p.1) {
                    trained_live = true;
                }
            }
            3 => {
                if let Some(p) = pipes.get(arg) {
                    if p.1 {
                        if p.0 > 0 && !p.2 {
                            tags.push("nt".to_string());
                            tags.push("protected-panic".to_string());
                            if trained_live {
                                tags.push("train-while-live".to_string());
                            }
                        } else if p.0 > 0 {
                            tags.push("clobbered-panic".to_string());
                        } else {
                            tags.push("consumer-panic".to_string());
                        }
                        break;
                    }
                }
            }
            5 => pipes.iter_mut().for_each(|p| p.2 = true),
            _ => {}
        }
    }
    tags
}

/// true iff the child terminated, and not with the "stream silently truncated" status
fn run_child(w: usize, n: usize, p: usize, scenario: usize) -> bool {
    let exe = std::env::current_exe().unwrap();
    let mut child = match std::process::Command::new(exe)
        .args(["child-panic", &w.to_string(), &n.to_string(), &p.to_string(), &scenario.to_string()])
        .stdout(std::process::Stdio::null())
        .stderr(std::process::Stdio::null())
        .spawn()
    {
        Ok(c) => c,
        Err(_) => return false,
    };
    let t0 = Instant::now();
    loop {
        match child.try_wait() {
            Ok(Some(st)) => return st.code() != Some(3),
            Ok(None) => {
                if t0.elapsed() > Duration::from_secs(20 * vh::patience()) {
                    let _ = child.kill();
                    let _ = child.wait();
                    return false;
                }
                std::thread::sleep(Duration::from_millis(2));
            }
            Err(_) => return false,
        }
    }
}

/// a history of API calls ending (usually) in a panic in a live pipe.
/// 85% structured: pipes are created / dropped / trained over while alive, the panic hits a live pipe; foreign hooks,
/// panics elsewhere and the stdout lock are rare because under the unchanged code they are the only sources of a
/// blocked child (10 s each). 15% arbitrary codes.
fn gen_hook_ops(rng: &mut Rng) -> Vec<usize> {
    if rng.chance(15, 100) {
        loop {
            let len = rng.range(0, 10);
            let v: Vec<usize> = (0..len).map(|_| rng.below(64)).collect();
            if v.iter().filter(|c| **c / 8 == 0).count() <= HOOK_MAX_PIPES {
                return v;
            }
        }
    }
    if rng.chance(1, 10) {
        // code outside the crate installs its own hook between two pipes: the younger pipe must be protected again
        let mut ops = vec![rng.range(0, 3)];
        if rng.chance(1, 2) {
            ops.push(8);
        }
        if rng.chance(1, 3) {
            ops.push(16);
        }
        ops.push(40);
        if rng.chance(1, 3) {
            ops.push(16);
        }
        ops.push(rng.range(1, 3));
        ops.push(25);
        return ops;
    }
    let mut ops = vec![];
    let mut pipes: Vec<(usize, bool)> = vec![]; // threads, live
    let len = rng.range(1, 9);
    let with_foreign = rng.chance(1, 10);
    let with_lock = rng.chance(1, 6);
    let with_elsewhere = rng.chance(1, 3);
    if rng.chance(1, 4) {
        // before any threaded pipe exists panics are not fatal: the number of lines they print tells which
        // hook is installed (one line per train_bpe since the repair)
        for _ in 0..rng.range(1, 4) {
            let r = rng.below(100);
            if r < 50 {
                ops.push(16);
            } else if r < 85 {
                ops.push(32);
            } else {
                pipes.push((0, true));
                ops.push(0);
            }
        }
    }
    for _ in 0..len {
        let live: Vec<usize> = (0..pipes.len()).filter(|i| pipes[*i].1).collect();
        let r = rng.below(100);
        if r < 35 && pipes.len() < HOOK_MAX_PIPES && live.len() < 3 {
            let w = *rng.pick(&[0usize, 1, 1, 2, 2, 2, 2, 3, 3, 3]);
            pipes.push((w, true));
            ops.push(w);
        } else if r < 55 && !live.is_empty() {
            let i = *rng.pick(&live);
            pipes[i].1 = false;
            ops.push(8 + i);
        } else if r < 80 {
            ops.push(16);
        } else if r < 86 && with_elsewhere {
            ops.push(32);
        } else if r < 92 && with_foreign {
            ops.push(40);
        } else if r < 97 && with_lock {
            ops.push(if rng.chance(3, 4) { 48 } else { 56 });
        } else if rng.chance(1, 3) {
            // a drop of something that is not alive / does not exist
            ops.push(8 + rng.below(6));
        } else {
            ops.push(16);
        }
    }
    let live: Vec<usize> = (0..pipes.len()).filter(|i| pipes[*i].1).collect();
    if live.is_empty() || rng.chance(1, 12) {
        if pipes.len() < HOOK_MAX_PIPES {
            let w = rng.range(1, 3);
            ops.push(w);
            ops.push(24 + pipes.len());
        }
    } else {
        ops.push(24 + *rng.pick(&live));
    }
    ops
}

/// every history of length <= 4 over {NewPipe 0/1/2, DropPipe 0/1, TrainBpe, PanicIn 0/1, LockStdout} in which
/// nothing follows a panic in a live pipe
fn hook_exhaustive() -> Vec<Vec<usize>> {
    const ALPHA: [usize; 9] = [0, 1, 2, 8, 9, 16, 24, 25, 48];
    let mut res = vec![];
    for len in 1..=4usize {
        for code in 0..ALPHA.len().pow(len as u32) {
            let mut c = code;
            let v: Vec<usize> = (0..len)
                .map(|_| {
                    let x = ALPHA[c % ALPHA.len()];
                    c /= ALPHA.len();
                    x
                })
                .collect();
            let mut pipes: Vec<bool> = vec![];
            let mut dead_tail = false;
            for (k, op) in v.iter().enumerate() {
                match op / 8 {
                    0 => pipes.push(true),
                    1 => {
                        if let Some(p) = pipes.get_mut(op % 8) {
                            *p = false;
                        }
                    }
                    3 => {
                        if pipes.get(op % 8) == Some(&true) && k + 1 < len {
                            dead_tail = true;
                        }
                    }
                    _ => {}
                }
            }
            if !dead_tail {
                res.push(v);
            }
        }
    }
    res
}

fn choices(rng: &mut Rng, n: usize, w: usize) -> Vec<Val> {
    let len = rng.range(0, 12 * n + 8);
    let style = rng.below(4);
    let mut fav = rng.below(w + 2);
    (0..len)
        .map(|_| {
            if style == 0 || rng.chance(1, 4) {
                fav = rng.below(64);
            }
            Val::u(if style == 3 { rng.below(64) } else { fav })
        })
        .collect()
}

impl Prop for C09 {
    fn gen(&mut self, rng: &mut Rng, tier: Tier, _i: usize, _n: usize) -> Val {
        let m = rng.below(100);
        let mode = if m < 44 {
            0
        } else if m < 81 {
            1
        } else if m < 85 {
            2
        } else if m < 92 {
            5
        } else if m < 96 {
            3
        } else {
            4
        };
        if mode == 5 {
            return Val::L(vec![
                Val::I(5),
                Val::list(gen_hook_ops(rng).into_iter(), Val::u),
                Val::u(0),
                Val::L(vec![]),
                Val::I(0),
                Val::I(0),
            ]);
        }
        let maxn = if tier == Tier::Thorough { 12 } else { 8 };
        let n = rng.range(0, maxn);
        let xs: Vec<Val> = (0..n).map(|_| Val::I(rng.below(50) as i64)).collect();
        match mode {
            0 => {
                let w = rng.range(1, 4);
                let dropk = if rng.chance(1, 8) { -1 } else { rng.range(0, n) as i64 };
                Val::L(vec![Val::I(0), Val::L(xs), Val::u(w), Val::L(choices(rng, n, w)), Val::I(dropk), Val::I(0)])
            }
            1 => {
                let cap = rng.range(0, 4);
                let dropk = if rng.chance(1, 6) { -1 } else { rng.range(0, n) as i64 };
                Val::L(vec![Val::I(1), Val::L(xs), Val::u(0), Val::L(choices(rng, n, 1)), Val::I(dropk), Val::u(cap)])
            }
            2 => {
                let w = rng.range(0, 4);
                let p = rng.range(0, n.max(1) - 1) as i64;
                // the capacity field selects the pipe-lifecycle scenario of the child
                Val::L(vec![Val::I(2), Val::L(xs), Val::u(w), Val::L(vec![]), Val::I(p), Val::u(rng.below(8))])
            }
            3 => {
                let w = rng.range(0, 4);
                let k = rng.range(0, 20) as i64;
                Val::L(vec![Val::I(3), Val::L(vec![]), Val::u(w), Val::L(vec![]), Val::I(k), Val::I(0)])
            }
            _ => {
                let cap = rng.range(0, 6);
                let k = rng.range(0, 20) as i64;
                Val::L(vec![Val::I(4), Val::L(vec![]), Val::u(0), Val::L(vec![]), Val::I(k), Val::u(cap)])
            }
        }
    }

    fn exhaustive(&mut self, tier: Tier) -> Vec<Val> {
        self.exhaustive_shard(tier, 0, 1).unwrap_or_default()
    }

    /// every maximal schedule of the real Pipe threads for every drop point of tiny shapes
    /// (stateless depth-first re-execution), plus all choice lists of length 6 for Buffered
    fn exhaustive_shard(&mut self, _tier: Tier, k: usize, m: usize) -> Option<Vec<Val>> {
        let mut v = vec![];
        for (n, w, cap) in [(1usize, 2usize, 100_000usize), (2, 2, 100_000), (3, 2, 30_000), (2, 3, 30_000)] {
            let xs: Vec<i64> = (0..n).map(|i| i as i64 + 5).collect();
            for dropk in 0..=n {
                for ch in enumerate_pipe_schedules_shard(&xs, w, Some(dropk), cap / m + 1, k, m) {
                    v.push(Val::L(vec![
                        Val::I(0),
                        Val::L(xs.iter().map(|x| Val::I(*x)).collect()),
                        Val::u(w),
                        Val::L(ch.into_iter().map(Val::u).collect()),
                        Val::I(dropk as i64),
                        Val::I(0),
                    ]));
                }
            }
        }
        let mut idx = 0usize;
        for n in [2usize, 3] {
            for dropk in 0..=n {
                for cap in 0..=2usize {
                    for code in 0..3usize.pow(6) {
                        idx += 1;
                        if idx % m != k {
                            continue;
                        }
                        let mut c = code;
                        let ch: Vec<Val> = (0..6)
                            .map(|_| {
                                let x = c % 3;
                                c /= 3;
                                Val::u(x)
                            })
                            .collect();
                        v.push(Val::L(vec![
                            Val::I(1),
                            Val::L((0..n).map(|i| Val::I(i as i64)).collect()),
                            Val::u(0),
                            Val::L(ch),
                            Val::I(dropk as i64),
                            Val::u(cap),
                        ]));
                    }
                }
            }
        }
        for (j, h) in hook_exhaustive().into_iter().enumerate() {
            if j % m == k {
                v.push(Val::L(vec![
                    Val::I(5),
                    Val::list(h.into_iter(), Val::u),
                    Val::u(0),
                    Val::L(vec![]),
                    Val::I(0),
                    Val::I(0),
                ]));
            }
        }
        Some(v)
    }

    fn run(&mut self, input: &Val) -> Option<(Val, Vec<String>)> {
        let l = input.as_l()?;
        if l.len() != 6 {
            return None;
        }
        let mode = l[0].as_i()?;
        let xs: Vec<i64> = l[1].as_l()?.iter().map(|v| v.as_i()).collect::<Option<_>>()?;
        let w = l[2].as_usize()?;
        let ch: Vec<usize> = l[3].as_l()?.iter().map(|v| v.as_usize()).collect::<Option<_>>()?;
        let dk = l[4].as_i()?;
        let dropk = if dk < 0 { None } else { Some(dk as usize) };
        let cap = l[5].as_usize()?;
        if xs.len() > 64 || w > 8 || cap > 64 || xs.iter().any(|x| x.abs() > 1 << 40) {
            return None;
        }
        let mut tags = vec![format!("mode{mode}")];
        let out = match mode {
            0 => {
                if w == 0 {
                    return None;
                }
                let r = run_pipe_controlled(&xs, w, &ch, dropk);
                if r.hang {
                    Val::hang()
                } else {
                    let dropped = r.events.iter().any(|e| e[1] == 11);
                    let got_after = {
                        let mut seen = false;
                        r.events.iter().any(|e| {
                            if e[1] == 11 {
                                seen = true;
                            }
                            seen && e[1] == 1
                        })
                    };
                    if dropped {
                        tags.push("dropped".into());
                    }
                    if got_after {
                        tags.push("pull-after-drop".into());
                        tags.push("nt".into());
                    }
                    Val::L(vec![
                        r.events_val(),
                        Val::list(r.out.iter(), |x| Val::I(*x)),
                        Val::u(r.pulled),
                        Val::u(r.exited),
                    ])
                }
            }
            1 => {
                let r = run_buffered_controlled(xs.len(), cap, &ch, dropk);
                if r.hang {
                    Val::hang()
                } else {
                    if r.events.iter().any(|e| e[1] == 11) {
                        tags.push("dropped".into());
                        if r.pulled < xs.len() {
                            tags.push("nt".into());
                        }
                    }
                    tags.push(format!("cap{cap}"));
                    Val::L(vec![
                        r.events_val(),
                        Val::list(r.out.iter(), |x| Val::I(*x)),
                        Val::u(r.pulled),
                        Val::b(r.exited),
                    ])
                }
            }
            2 => {
                let p = dropk?;
                let t = run_child(w, xs.len(), p, cap);
                tags.push(format!("scenario{cap}"));
                if !t {
                    // the verdict rests on a time limit: the runner re-runs such a case alone and patiently
                    tags.push("timing-verdict".into());
                }
                if w > 0 && p < xs.len() {
                    tags.push("nt".into());
                }
                Val::L(vec![Val::b(t)])
            }
            3 => {
                let (a, b, e) = pipe_free(w, dropk?);
                tags.push(format!("ahead{a}"));
                if !e {
                    tags.push("timing-verdict".into());
                }
                Val::L(vec![Val::I(a), Val::I(b), Val::b(e)])
            }
            4 => {
                let (a, b, e) = buffered_free(cap, dropk?);
                tags.push(format!("ahead{a}"));
                if !e {
                    tags.push("timing-verdict".into());
                }
                Val::L(vec![Val::I(a), Val::I(b), Val::b(e)])
            }
            5 => {
                let codes: Vec<usize> = xs.iter().map(|x| (*x).max(0) as usize).collect();
                if codes.len() > 24
                    || codes.iter().any(|c| *c >= 64)
                    || codes.iter().filter(|c| **c / 8 == 0).count() > HOOK_MAX_PIPES
                {
                    return None;
                }
                let (status, counts) = run_hook_child(&codes);
                tags.extend(hook_tags(&codes));
                tags.push(format!("status{status}"));
                if status == 42 || status == -1 {
                    tags.push("timing-verdict".into());
                }
                if counts.iter().any(|c| *c > 0) {
                    tags.push("printed".into());
                }
                Val::L(vec![Val::I(status), Val::list(counts.iter(), |c| Val::u(*c))])
            }
            _ => return None,
        };
        Some((out, tags))
    }
}

fn main() {
    let args: Vec<String> = std::env::args().collect();
    if args.get(1).map(|s| s.as_str()) == Some("child-panic") {
        let g = |i: usize| args.get(i).and_then(|s| s.parse::<usize>().ok()).unwrap_or(0);
        child_panic(g(2), g(3), g(4), g(5));
    }
    if args.get(1).map(|s| s.as_str()) == Some("child-hook") {
        let codes: Vec<usize> = args[2..].iter().filter_map(|s| s.parse::<usize>().ok()).collect();
        hook_child(&codes);
    }
    main_loop(C09);
}

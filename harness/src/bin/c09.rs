//! C09: bounded look-ahead, prompt stop after the consumer drops the iterator, no wedge on panic.
//! input = (mode xs W choices dropk cap); see coq/theories/C09_Model.v for the modes.
use std::sync::atomic::{AtomicUsize, Ordering};
use std::sync::Arc;
use std::time::{Duration, Instant};
use text_utils::data::loading::{BufferedIterator, PipelineIterator};
use vh::sched::*;
use vh::*;

struct C09;

struct Upstream {
    n: usize,
    pos: usize,
    pulled: Arc<AtomicUsize>,
}
impl Iterator for Upstream {
    type Item = usize;
    fn next(&mut self) -> Option<usize> {
        if self.pos < self.n {
            self.pos += 1;
            self.pulled.fetch_add(1, Ordering::SeqCst);
            Some(self.pos - 1)
        } else {
            None
        }
    }
}

const BIG: usize = 200_000;

/// free-running Pipe: (ahead before drop, pulled after drop, all workers exited)
fn pipe_free(w: usize, k: usize) -> (i64, i64, bool) {
    let ctl = Ctl::new(false);
    ctl.set_free();
    ctl.install();
    let pulled = Arc::new(AtomicUsize::new(0));
    let up = Upstream { n: BIG, pos: 0, pulled: pulled.clone() };
    let pipeline: text_utils::data::Pipeline<usize, usize> = Arc::new(|x| x + 1);
    let mut pipe = up.pipe(pipeline, w as u8);
    let _ = std::panic::take_hook();
    std::panic::set_hook(Box::new(|_| {}));
    for _ in 0..k {
        let _ = pipe.next();
    }
    // idle consumer: the workers run ahead as far as they can
    let mut ahead = 0usize;
    let t0 = Instant::now();
    while t0.elapsed() < Duration::from_millis(15) {
        ahead = ahead.max(pulled.load(Ordering::SeqCst) - k);
        std::thread::sleep(Duration::from_millis(1));
    }
    ahead = ahead.max(pulled.load(Ordering::SeqCst) - k);
    let at_drop = pulled.load(Ordering::SeqCst);
    drop(pipe);
    let threads: Vec<usize> = (0..w).collect();
    // generous on purpose: a loaded machine must not turn a slow exit into an alarm
    let exited = ctl.wait_exited(&threads, 15_000);
    // a worker that never stops would keep pulling: give it a moment to show
    std::thread::sleep(Duration::from_millis(3));
    let after = pulled.load(Ordering::SeqCst) - at_drop;
    text_utils::verif::install(None);
    (ahead as i64, after as i64, exited == w)
}

fn buffered_free(cap: usize, k: usize) -> (i64, i64, bool) {
    let ctl = Ctl::new(true);
    ctl.set_free();
    ctl.install();
    let pulled = Arc::new(AtomicUsize::new(0));
    let up = Upstream { n: BIG, pos: 0, pulled: pulled.clone() };
    let mut buf = up.buffered(cap);
    for _ in 0..k {
        let _ = buf.next();
    }
    let mut ahead = 0usize;
    let t0 = Instant::now();
    while t0.elapsed() < Duration::from_millis(15) {
        ahead = ahead.max(pulled.load(Ordering::SeqCst) - k);
        std::thread::sleep(Duration::from_millis(1));
    }
    let at_drop = pulled.load(Ordering::SeqCst);
    drop(buf);
    let exited = ctl.wait_exited(&[0], 15_000);
    std::thread::sleep(Duration::from_millis(3));
    let after = pulled.load(Ordering::SeqCst) - at_drop;
    text_utils::verif::install(None);
    (ahead as i64, after as i64, exited == 1)
}

/// child process body: a Pipe whose function panics at item `p`; the consumer drains it.
/// `scenario` 0: a single pipe. 1: "second epoch" — an older pipe is created first and dropped
/// (partly consumed) while the panicking one is alive, as `TrainLoader::init_iter` does when it
/// replaces its iterator. 2: "other loader" — an older pipe is drained to its end and dropped
/// before the younger one reaches the panicking item. 3: a younger pipe is created and dropped
/// before the older one panics. 4: a pipe is drained, then `train_bpe` runs (the other place of the crate
/// that installs a process-wide panic hook — a print-only one), then a new pipe panics. 5: `train_bpe`
/// runs first, then a pipe panics. 6: the consumer holds the stdout lock. 7: the panic starts on a rayon
/// helper thread inside the processing function.
fn run_train_bpe() {
    let dir = std::env::temp_dir().join(format!("verif-c09-bpe-{}", std::process::id()));
    let _ = std::fs::create_dir_all(&dir);
    let f = dir.join("corpus.txt");
    let _ = std::fs::write(&f, "ab ab abc\nab c\n");
    let out = dir.join("merges");
    let _ = text_utils::tokenization::train_bpe(&[f], 320, 0, &out, None, None, 2, false);
    let _ = std::fs::remove_dir_all(&dir);
}

fn child_panic(w: usize, n: usize, p: usize, scenario: usize) -> ! {
    let mk = |panic_at: Option<usize>| {
        let pipeline: text_utils::data::Pipeline<usize, usize> = Arc::new(move |x| {
            if Some(x) == panic_at {
                panic!("boom at {x}");
            }
            x
        });
        (0..n).pipe(pipeline, w as u8)
    };
    let mut c = 0usize;
    match scenario {
        1 => {
            let mut old = mk(None);
            let _ = old.next();
            let young = mk(Some(p));
            drop(old);
            for _ in young {
                c += 1;
            }
        }
        2 => {
            let old = mk(None);
            let mut young = mk(Some(p));
            for _ in old {}
            for _ in young.by_ref() {
                c += 1;
            }
        }
        3 => {
            let old = mk(Some(p));
            let young = mk(None);
            drop(young);
            for _ in old {
                c += 1;
            }
        }
        4 => {
            for _ in mk(None) {}
            run_train_bpe();
            for _ in mk(Some(p)) {
                c += 1;
            }
        }
        5 => {
            run_train_bpe();
            for _ in mk(Some(p)) {
                c += 1;
            }
        }
        6 => {
            // the consumer holds the process-wide stdout lock while it drains the pipe (the usual
            // `let mut out = stdout().lock(); for x in pipe { writeln!(out, ..) }` loop): a hook that prints
            // with `println!` before exiting would wait for that lock forever
            use std::io::Write;
            let mut out = std::io::stdout().lock();
            for x in mk(Some(p)) {
                let _ = writeln!(out, "{x}");
                c += 1;
            }
        }
        7 => {
            // the panic starts on a helper thread (rayon pool) and is re-raised in the worker by resume_unwind:
            // the hook runs on the helper thread, not on the pipe's worker
            let pipeline: text_utils::data::Pipeline<usize, usize> = Arc::new(move |x| {
                let (a, _) = rayon::join(
                    || {
                        if x == p {
                            panic!("boom at {x} on a helper thread");
                        }
                        x
                    },
                    || std::thread::sleep(Duration::from_millis(1)),
                );
                a
            });
            for _ in (0..n).pipe(pipeline, w as u8) {
                c += 1;
            }
        }
        _ => {
            for _ in mk(Some(p)) {
                c += 1;
            }
        }
    }
    // reached only if nothing panicked (p >= n) or the panic did not end the process:
    // a silently truncated stream is as bad as a blocked consumer
    std::process::exit(if c == n { 0 } else { 3 });
}

/// true iff the child terminated, and not with the "stream silently truncated" status
fn run_child(w: usize, n: usize, p: usize, scenario: usize) -> bool {
    let exe = std::env::current_exe().unwrap();
    let mut child = match std::process::Command::new(exe)
        .args(["child-panic", &w.to_string(), &n.to_string(), &p.to_string(), &scenario.to_string()])
        .stdout(std::process::Stdio::null())
        .stderr(std::process::Stdio::null())
        .spawn()
    {
        Ok(c) => c,
        Err(_) => return false,
    };
    let t0 = Instant::now();
    loop {
        match child.try_wait() {
            Ok(Some(st)) => return st.code() != Some(3),
            Ok(None) => {
                if t0.elapsed() > Duration::from_secs(20) {
                    let _ = child.kill();
                    let _ = child.wait();
                    return false;
                }
                std::thread::sleep(Duration::from_millis(2));
            }
            Err(_) => return false,
        }
    }
}

fn choices(rng: &mut Rng, n: usize, w: usize) -> Vec<Val> {
    let len = rng.range(0, 12 * n + 8);
    let style = rng.below(4);
    let mut fav = rng.below(w + 2);
    (0..len)
        .map(|_| {
            if style == 0 || rng.chance(1, 4) {
                fav = rng.below(64);
            }
            Val::u(if style == 3 { rng.below(64) } else { fav })
        })
        .collect()
}

impl Prop for C09 {
    fn gen(&mut self, rng: &mut Rng, tier: Tier, _i: usize, _n: usize) -> Val {
        let m = rng.below(100);
        let mode = if m < 45 {
            0
        } else if m < 85 {
            1
        } else if m < 91 {
            2
        } else if m < 96 {
            3
        } else {
            4
        };
        let maxn = if tier == Tier::Thorough { 12 } else { 8 };
        let n = rng.range(0, maxn);
        let xs: Vec<Val> = (0..n).map(|_| Val::I(rng.below(50) as i64)).collect();
        match mode {
            0 => {
                let w = rng.range(1, 4);
                let dropk = if rng.chance(1, 8) { -1 } else { rng.range(0, n) as i64 };
                Val::L(vec![Val::I(0), Val::L(xs), Val::u(w), Val::L(choices(rng, n, w)), Val::I(dropk), Val::I(0)])
            }
            1 => {
                let cap = rng.range(0, 4);
                let dropk = if rng.chance(1, 6) { -1 } else { rng.range(0, n) as i64 };
                Val::L(vec![Val::I(1), Val::L(xs), Val::u(0), Val::L(choices(rng, n, 1)), Val::I(dropk), Val::u(cap)])
            }
            2 => {
                let w = rng.range(0, 4);
                let p = rng.range(0, n.max(1) - 1) as i64;
                // the capacity field selects the pipe-lifecycle scenario of the child
                Val::L(vec![Val::I(2), Val::L(xs), Val::u(w), Val::L(vec![]), Val::I(p), Val::u(rng.below(8))])
            }
            3 => {
                let w = rng.range(0, 4);
                let k = rng.range(0, 20) as i64;
                Val::L(vec![Val::I(3), Val::L(vec![]), Val::u(w), Val::L(vec![]), Val::I(k), Val::I(0)])
            }
            _ => {
                let cap = rng.range(0, 6);
                let k = rng.range(0, 20) as i64;
                Val::L(vec![Val::I(4), Val::L(vec![]), Val::u(0), Val::L(vec![]), Val::I(k), Val::u(cap)])
            }
        }
    }

    fn exhaustive(&mut self, tier: Tier) -> Vec<Val> {
        self.exhaustive_shard(tier, 0, 1).unwrap_or_default()
    }

    /// every maximal schedule of the real Pipe threads for every drop point of tiny shapes
    /// (stateless depth-first re-execution), plus all choice lists of length 6 for Buffered
    fn exhaustive_shard(&mut self, _tier: Tier, k: usize, m: usize) -> Option<Vec<Val>> {
        let mut v = vec![];
        for (n, w, cap) in [(1usize, 2usize, 100_000usize), (2, 2, 100_000), (3, 2, 30_000), (2, 3, 30_000)] {
            let xs: Vec<i64> = (0..n).map(|i| i as i64 + 5).collect();
            for dropk in 0..=n {
                for ch in enumerate_pipe_schedules_shard(&xs, w, Some(dropk), cap / m + 1, k, m) {
                    v.push(Val::L(vec![
                        Val::I(0),
                        Val::L(xs.iter().map(|x| Val::I(*x)).collect()),
                        Val::u(w),
                        Val::L(ch.into_iter().map(Val::u).collect()),
                        Val::I(dropk as i64),
                        Val::I(0),
                    ]));
                }
            }
        }
        let mut idx = 0usize;
        for n in [2usize, 3] {
            for dropk in 0..=n {
                for cap in 0..=2usize {
                    for code in 0..3usize.pow(6) {
                        idx += 1;
                        if idx % m != k {
                            continue;
                        }
                        let mut c = code;
                        let ch: Vec<Val> = (0..6)
                            .map(|_| {
                                let x = c % 3;
                                c /= 3;
                                Val::u(x)
                            })
                            .collect();
                        v.push(Val::L(vec![
                            Val::I(1),
                            Val::L((0..n).map(|i| Val::I(i as i64)).collect()),
                            Val::u(0),
                            Val::L(ch),
                            Val::I(dropk as i64),
                            Val::u(cap),
                        ]));
                    }
                }
            }
        }
        Some(v)
    }

    fn run(&mut self, input: &Val) -> Option<(Val, Vec<String>)> {
        let l = input.as_l()?;
        if l.len() != 6 {
            return None;
        }
        let mode = l[0].as_i()?;
        let xs: Vec<i64> = l[1].as_l()?.iter().map(|v| v.as_i()).collect::<Option<_>>()?;
        let w = l[2].as_usize()?;
        let ch: Vec<usize> = l[3].as_l()?.iter().map(|v| v.as_usize()).collect::<Option<_>>()?;
        let dk = l[4].as_i()?;
        let dropk = if dk < 0 { None } else { Some(dk as usize) };
        let cap = l[5].as_usize()?;
        if xs.len() > 64 || w > 8 || cap > 64 || xs.iter().any(|x| x.abs() > 1 << 40) {
            return None;
        }
        let mut tags = vec![format!("mode{mode}")];
        let out = match mode {
            0 => {
                if w == 0 {
                    return None;
                }
                let r = run_pipe_controlled(&xs, w, &ch, dropk);
                if r.hang {
                    Val::hang()
                } else {
                    let dropped = r.events.iter().any(|e| e[1] == 11);
                    let got_after = {
                        let mut seen = false;
                        r.events.iter().any(|e| {
                            if e[1] == 11 {
                                seen = true;
                            }
                            seen && e[1] == 1
                        })
                    };
                    if dropped {
                        tags.push("dropped".into());
                    }
                    if got_after {
                        tags.push("pull-after-drop".into());
                        tags.push("nt".into());
                    }
                    Val::L(vec![
                        r.events_val(),
                        Val::list(r.out.iter(), |x| Val::I(*x)),
                        Val::u(r.pulled),
                        Val::u(r.exited),
                    ])
                }
            }
            1 => {
                let r = run_buffered_controlled(xs.len(), cap, &ch, dropk);
                if r.hang {
                    Val::hang()
                } else {
                    if r.events.iter().any(|e| e[1] == 11) {
                        tags.push("dropped".into());
                        if r.pulled < xs.len() {
                            tags.push("nt".into());
                        }
                    }
                    tags.push(format!("cap{cap}"));
                    Val::L(vec![
                        r.events_val(),
                        Val::list(r.out.iter(), |x| Val::I(*x)),
                        Val::u(r.pulled),
                        Val::b(r.exited),
                    ])
                }
            }
            2 => {
                let p = dropk?;
                let t = run_child(w, xs.len(), p, cap);
                tags.push(format!("scenario{cap}"));
                if w > 0 && p < xs.len() {
                    tags.push("nt".into());
                }
                Val::L(vec![Val::b(t)])
            }
            3 => {
                let (a, b, e) = pipe_free(w, dropk?);
                tags.push(format!("ahead{a}"));
                Val::L(vec![Val::I(a), Val::I(b), Val::b(e)])
            }
            4 => {
                let (a, b, e) = buffered_free(cap, dropk?);
                tags.push(format!("ahead{a}"));
                Val::L(vec![Val::I(a), Val::I(b), Val::b(e)])
            }
            _ => return None,
        };
        Some((out, tags))
    }
}

fn main() {
    let args: Vec<String> = std::env::args().collect();
    if args.get(1).map(|s| s.as_str()) == Some("child-panic") {
        let g = |i: usize| args.get(i).and_then(|s| s.parse::<usize>().ok()).unwrap_or(0);
        child_panic(g(2), g(3), g(4), g(5));
    }
    main_loop(C09);
}

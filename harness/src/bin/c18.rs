//! C18: text::match_words / edit::edited_words against the model.
//! input  = (a b ic la lb)  a, b as code points; la/lb = lower-cased words (`str::to_lowercase` of the running
//!          std; only when ic).  Since the UCD extension the model lower-cases the raw words itself
//!          (UCD_Model.to_lowercase); la/lb are a cross-check inside `agree`.
//! output = (m na nb mx ea eb)
use text_utils::edit::edited_words;
use text_utils::text::match_words;
use vh::*;

struct C18;

/// small word alphabet: case variants, a multi-letter word, characters whose lower-casing
/// changes the length (İ), final sigma, and words that contain NON-ASCII whitespace
/// (NBSP, VT, EM SPACE, NEL), which `split_ascii_whitespace` must not split at
const WORDS: &[&str] = &[
    "x", "X", "y", "x", "X", "y", "Y", "xy", "Xy", "ß", "SS", "İ", "i\u{307}", "ΑΣ", "ασ", "ας", "a\u{a0}b",
    "a\u{b}b", "\u{2003}", "\u{85}", "é", "É", "e\u{301}",
];
/// Final_Sigma contexts and other context / multi-character lower-casing (the `sigma` stream):
/// Σ alone, word-final, before a letter, before / after case-ignorable characters (' . : combining marks,
/// modifier letters, soft hyphen), after a digit, doubled, after a titlecase letter, İ, Kelvin / Angstrom signs
const SIGMA: &[&str] = &[
    "Σ", "ΑΣ", "ΑΣΑ", "ΣΑ", "ΑΣ.", "Α'Σ", "Α\u{301}Σ", "ΑΣ\u{301}", "ΑΣ\u{301}Α", "1Σ", "ΑΣΣ", "ΣΣ", "aΣ", "Σa",
    "ǅΣ", "ʰΣ", "Αʰ\u{ad}Σ", "ΑΣ:Α", "ΑΣ:1", "ας", "ασ", "σ", "ς", "ΑΣ\u{200d}", ".Σ", "Α.Σ.", "İΣ", "KΣ", "Å",
    "å", "K", "k", "ΑΣ\u{345}", "\u{345}Σ", "ᾈΣ",
];
const SEPS: &[&str] = &[" ", " ", " ", "  ", "\t", "\n", "\r\n", "\u{c}", " \t ", "\r"];

fn join(rng: &mut Rng, words: &[String], messy: bool) -> String {
    let mut s = String::new();
    if messy && rng.chance(1, 4) {
        s.push_str(*rng.pick(SEPS));
    }
    for (i, w) in words.iter().enumerate() {
        if i > 0 {
            if messy {
                s.push_str(*rng.pick(SEPS));
            } else {
                s.push(' ');
            }
        }
        s.push_str(w);
    }
    if messy && rng.chance(1, 4) {
        s.push_str(*rng.pick(SEPS));
    }
    s
}

fn flip_case(w: &str) -> String {
    if w.chars().any(|c| c.is_lowercase()) {
        w.to_uppercase()
    } else {
        w.to_lowercase()
    }
}

fn mutate(rng: &mut Rng, a: &[String], small: bool) -> Vec<String> {
    let mut b: Vec<String> = a.to_vec();
    let k = rng.below(4);
    for _ in 0..k {
        let pool = if small { &WORDS[..3] } else { WORDS };
        match rng.below(6) {
            0 if !b.is_empty() => {
                let i = rng.below(b.len());
                b.remove(i);
            }
            1 => {
                let i = rng.below(b.len() + 1);
                b.insert(i, rng.pick(pool).to_string());
            }
            2 if !b.is_empty() => {
                let i = rng.below(b.len());
                b[i] = flip_case(&b[i]);
            }
            3 if !b.is_empty() => {
                let i = rng.below(b.len());
                let w = b[i].clone();
                b.insert(i, w);
            }
            4 if b.len() > 1 => {
                let i = rng.below(b.len() - 1);
                b.swap(i, i + 1);
            }
            5 if !b.is_empty() => {
                let i = rng.below(b.len());
                b[i] = rng.pick(pool).to_string();
            }
            _ => {}
        }
    }
    b
}

/// The probe words around code point `c` — keep in step with tools/gen_ucd.py:lc_probe.
///   c        the mapping of c (one or several characters)
///   c Σ      Σ after c at the start of the word: final iff c is cased and not case-ignorable
///   A c Σ    after a cased letter: final iff c is case-ignorable, or cased
///   A Σ c    before c: final iff c is case-ignorable or not cased
fn lc_probe(c: char) -> String {
    format!("{c} {c}Σ A{c}Σ AΣ{c}")
}

fn lc_probe_text(cs: impl Iterator<Item = u32>) -> String {
    let mut s = String::new();
    for c in cs {
        if let Some(ch) = char::from_u32(c) {
            s.push_str(&lc_probe(ch));
            s.push(' ');
        }
    }
    s
}

fn lowered(s: &str) -> Val {
    Val::list(s.split_ascii_whitespace(), |w| Val::str(&w.to_lowercase()))
}

fn mk(a: &str, b: &str, ic: bool) -> Val {
    Val::L(vec![
        Val::str(a),
        Val::str(b),
        Val::b(ic),
        if ic { lowered(a) } else { Val::L(vec![]) },
        if ic { lowered(b) } else { Val::L(vec![]) },
    ])
}

/// sizes that cross the thresholds a refactoring could introduce (u8 counters, 256-wide
/// blocks, 1024/4096 buffers, u16 counters), capped at `max`
const SCALE_SIZES: &[usize] = &[255, 256, 257, 300, 1023, 1025, 4097, 65537];
fn scale_size(rng: &mut Rng, max: usize) -> usize {
    let ok: Vec<usize> = SCALE_SIZES.iter().copied().filter(|s| *s <= max).collect();
    *rng.pick(&ok)
}

/// SCALE stream: many words on both sides (the DP is quadratic in model and code: <= 400 x 400),
/// a very long side against a short one, very long words, very long whitespace runs.
fn gen_scale(rng: &mut Rng, tier: Tier) -> (String, String) {
    let thorough = tier == Tier::Thorough;
    let seq = |rng: &mut Rng, n: usize, pool: &[&str]| -> Vec<String> { (0..n).map(|_| rng.pick(pool).to_string()).collect() };
    // both-sides-long cases are the expensive ones (model ~0.2 s at 300 x 300): about 1.3 in 10
    let both = |rng: &mut Rng| if thorough && rng.chance(1, 4) { 400 } else { scale_size(rng, 300) };
    if rng.chance(1, 5) {
        // block rotation over all-distinct words: a = P R, b = R P. Every longest common subsequence (max(|P|, |R|)) pairs
        // words that are |P| or |R| positions apart — far from the diagonal: a banded or windowed DP loses it
        let (p, r) = (rng.range(70, 140), rng.range(70, 160));
        let word = |k: usize| format!("w{k}x");
        let pw: Vec<String> = (0..p).map(word).collect();
        let rw: Vec<String> = (p..p + r).map(word).collect();
        let a: Vec<String> = pw.iter().chain(rw.iter()).cloned().collect();
        let mut b: Vec<String> = rw.iter().chain(pw.iter()).cloned().collect();
        if rng.chance(1, 2) {
            // and a few local edits on top
            for _ in 0..rng.range(1, 6) {
                let k = rng.below(b.len());
                b[k] = format!("e{k}");
            }
        }
        return (join(rng, &a, false), join(rng, &b, false));
    }
    match rng.below(10) {
        0 => {
            // both sides long; b a mutation of a (several rounds) over a tiny or the full alphabet
            let n = both(rng);
            let small = rng.chance(1, 2);
            let a = seq(rng, n, if small { &WORDS[..3] } else { WORDS });
            let mut b = a.clone();
            let rounds = rng.range(1, 6);
            for _ in 0..rounds {
                b = mutate(rng, &b, small);
            }
            if rng.chance(1, 4) {
                let k = rng.range(200, 260).min(b.len());
                b.truncate(k);
            }
            let messy = rng.chance(1, 2);
            (join(rng, &a, messy), join(rng, &b, messy))
        }
        1 => {
            // long and independent: long x long, or long x a few dozen words
            let n = both(rng);
            let m = if rng.chance(1, 3) { both(rng) } else { *rng.pick(&[15usize, 16, 17, 31, 32, 33, 63, 64, 65]) };
            let a = seq(rng, n, &WORDS[..8]);
            let b = seq(rng, m, &WORDS[..8]);
            (join(rng, &a, true), join(rng, &b, true))
        }
        2 | 3 | 4 => {
            // one very long side against 0..3 words (table 4097 x 4)
            let n = scale_size(rng, 4097);
            let a = seq(rng, n, &WORDS[..8]);
            let m = rng.below(4);
            let b = seq(rng, m, &WORDS[..8]);
            let (a, b) = (join(rng, &a, true), join(rng, &b, true));
            if rng.chance(1, 2) { (a, b) } else { (b, a) }
        }
        5 | 6 | 7 => {
            // very long words that differ (or not) in their last character only
            let n = scale_size(rng, 65537);
            let w: String = (0..n).map(|k| if k % 7 == 3 { 'X' } else { 'x' }).collect();
            let w2 = match rng.below(3) {
                0 => w.clone(),
                1 => format!("{}y", &w[..n - 1]),
                _ => flip_case(&w),
            };
            let (ka, kb) = (rng.below(3), rng.below(3));
            let mut a = seq(rng, ka, &WORDS[..3]);
            let mut b = seq(rng, kb, &WORDS[..3]);
            let (pa, pb) = (rng.below(a.len() + 1), rng.below(b.len() + 1));
            a.insert(pa, w);
            b.insert(pb, w2);
            (join(rng, &a, true), join(rng, &b, true))
        }
        _ => {
            // very long whitespace runs (ASCII separators, and non-ASCII ones that do not separate)
            let n = scale_size(rng, 65537);
            let run: String = (0..n).map(|k| [' ', '\t', '\n', '\r', '\u{c}'][k % 5]).collect();
            let nbn = scale_size(rng, 1025);
            let nb: String = (0..nbn).map(|_| '\u{a0}').collect();
            let kw = rng.range(1, 4);
            let ws = seq(rng, kw, &WORDS[..3]);
            let mut a = String::new();
            if rng.chance(1, 2) {
                a.push_str(&run);
            }
            for (k, w) in ws.iter().enumerate() {
                a.push_str(w);
                a.push_str(if k == 0 { &run } else { " " });
            }
            if rng.chance(1, 2) {
                a.push_str(&nb);
            }
            let b = mutate(rng, &ws, true);
            (a, join(rng, &b, true))
        }
    }
}

impl Prop for C18 {
    fn gen(&mut self, rng: &mut Rng, tier: Tier, i: usize, _n: usize) -> Val {
        let ic = rng.chance(1, 2);
        if i == 2 || rng.chance(1, 100) {
            let (a, b) = gen_scale(rng, tier);
            return mk(&a, &b, ic);
        }
        let stream = rng.below(100);
        let maxw = if tier == Tier::Thorough { 9 } else { 7 };
        if rng.chance(3, 100) {
            // words that collide under the hash functions a "compare the hashes, not the strings" shortcut would use
            // (published collisions of FNV-1a-32 / FNV-1-32, djb2, CRC-32, Java's String.hashCode, sdbm): equal hashes,
            // different words — they must not be matched
            const COLLIDE: &[(&str, &str)] = &[
                ("costarring", "liquid"), ("declinate", "macallums"), ("altarage", "zinke"), ("altarages", "zinkes"),
                ("hetairas", "mentioner"), ("heliotropes", "neurospora"), ("depravement", "serafins"), ("stylist", "subgenera"),
                ("joyful", "synaphea"), ("redescribed", "urites"), ("dram", "vivency"), ("plumless", "buckeroo"),
                ("Aa", "BB"), ("AaAa", "BBBB"), ("AaBB", "BBAa"), ("creamwove", "quists"),
            ];
            let n = rng.range(1, maxw.max(2));
            let mut a: Vec<String> = vec![];
            let mut b: Vec<String> = vec![];
            for _ in 0..n {
                let (x, y) = *rng.pick(COLLIDE);
                let (x, y) = if rng.chance(1, 2) { (x, y) } else { (y, x) };
                a.push(if rng.chance(1, 4) { x.to_uppercase() } else { x.to_string() });
                b.push(match rng.below(4) { 0 => x.to_string(), _ => y.to_string() });
                if rng.chance(1, 3) {
                    a.push(rng.pick(WORDS).to_string());
                }
                if rng.chance(1, 3) {
                    b.push(rng.pick(WORDS).to_string());
                }
            }
            return mk(&join(rng, &a, false), &join(rng, &b, false), ic);
        }
        if rng.chance(8, 100) {
            // lcprobe stream: the probe words around 16 uniformly random scalar values; the second text holds
            // the probes of some of them again (so that the matching compares lower-cased probe words)
            let cs: Vec<u32> = (0..16)
                .map(|_| loop {
                    let c = rng.below(0x110000) as u32;
                    if char::from_u32(c).is_some() {
                        break c;
                    }
                })
                .collect();
            let k = rng.below(5);
            let a = lc_probe_text(cs.iter().copied());
            let b = lc_probe_text(cs.iter().copied().skip(k).take(3));
            return mk(&a, &b, rng.chance(9, 10));
        }
        if rng.chance(10, 100) {
            // sigma stream: Final_Sigma contexts, second text a mutation / case flip of the first
            let n = rng.below(maxw);
            let a: Vec<String> = (0..n).map(|_| rng.pick(SIGMA).to_string()).collect();
            let mut b = a.clone();
            for w in b.iter_mut() {
                match rng.below(4) {
                    0 => *w = w.to_uppercase(),
                    1 => *w = w.to_lowercase(),
                    2 => *w = rng.pick(SIGMA).to_string(),
                    _ => {}
                }
            }
            let messy = rng.chance(1, 3);
            return mk(&join(rng, &a, messy), &join(rng, &b, messy), rng.chance(4, 5));
        }
        let (a, b) = if stream < 12 {
            // case-dense stream: non-ASCII case pairs and length-changing lower-casing
            const CASEW: &[&str] = &["é", "É", "İ", "i\u{307}", "y", "ß", "ẞ", "i"];
            let n = rng.below(maxw);
            let a: Vec<String> = (0..n).map(|_| rng.pick(CASEW).to_string()).collect();
            let mut b = mutate(rng, &a, true);
            for w in b.iter_mut() {
                if rng.chance(1, 2) {
                    *w = flip_case(w);
                }
            }
            (join(rng, &a, false), join(rng, &b, false))
        } else if stream < 55 {
            // dense stream: tiny alphabet, b a mutation of a (many ties in the table)
            let n = rng.below(maxw);
            let a: Vec<String> = (0..n).map(|_| rng.pick(&WORDS[..3]).to_string()).collect();
            let b = mutate(rng, &a, true);
            let messy = rng.chance(1, 3);
            (join(rng, &a, messy), join(rng, &b, messy))
        } else if stream < 75 {
            // full alphabet, mutation
            let n = rng.below(maxw);
            let a: Vec<String> = (0..n).map(|_| rng.pick(WORDS).to_string()).collect();
            let b = mutate(rng, &a, false);
            (join(rng, &a, true), join(rng, &b, true))
        } else if stream < 90 {
            // independent sequences
            let n = rng.below(maxw);
            let m = rng.below(maxw);
            let a: Vec<String> = (0..n).map(|_| rng.pick(&WORDS[..8]).to_string()).collect();
            let b: Vec<String> = (0..m).map(|_| rng.pick(&WORDS[..8]).to_string()).collect();
            (join(rng, &a, true), join(rng, &b, true))
        } else {
            // edge stream
            let pick = |rng: &mut Rng| -> String {
                match rng.below(7) {
                    0 => String::new(),
                    1 => " ".into(),
                    2 => "\t\n ".into(),
                    3 => "x".into(),
                    4 => " x ".into(),
                    5 => "x x x x x x".into(),
                    _ => "\u{a0}\u{2003}".into(),
                }
            };
            (pick(rng), pick(rng))
        };
        mk(&a, &b, ic)
    }

    fn exhaustive(&mut self, _tier: Tier) -> Vec<Val> {
        // all pairs of word sequences of length <= 4 over {x, X, y}, both modes
        let mut seqs: Vec<Vec<&str>> = vec![vec![]];
        let mut frontier: Vec<Vec<&str>> = vec![vec![]];
        for _ in 0..4 {
            let mut next = vec![];
            for s in &frontier {
                for w in ["x", "X", "y"] {
                    let mut t = s.clone();
                    t.push(w);
                    next.push(t);
                }
            }
            seqs.extend(next.iter().cloned());
            frontier = next;
        }
        let mut out = vec![];
        for a in &seqs {
            for b in &seqs {
                for ic in [false, true] {
                    out.push(mk(&a.join(" "), &b.join(" "), ic));
                }
            }
        }
        // the lower-casing sweep: the probe words around ALL scalar values, 64 per case
        let mut c = 0u32;
        while c <= 0x10FFFF {
            let a = lc_probe_text(c..c + 64);
            if !a.is_empty() {
                out.push(mk(&a, "", true));
            }
            c += 64;
        }
        out
    }

    fn run(&mut self, input: &Val) -> Option<(Val, Vec<String>)> {
        let l = input.as_l()?;
        if l.len() != 5 {
            return None;
        }
        let a = l[0].to_string_lossy()?;
        let b = l[1].to_string_lossy()?;
        let ic = l[2].as_bool()?;
        if mk(&a, &b, ic) != *input {
            return None;
        }
        let (a2, b2) = (a.clone(), b.clone());
        let pairs = |m: &[(usize, usize)]| Val::list(m.iter(), |(i, j)| Val::L(vec![Val::u(*i), Val::u(*j)]));
        let mut nm = 0usize;
        let mut na = 0usize;
        let mut nb = 0usize;
        let out = {
            let r = std::panic::catch_unwind(move || {
                let (m, na, nb) = match_words(&a2, &b2, ic);
                let (mx, _, _) = match_words(&a2, &b2, false);
                let (ea, eb) = edited_words(&a2, &b2);
                let mut ea: Vec<usize> = ea.into_iter().collect();
                let mut eb: Vec<usize> = eb.into_iter().collect();
                ea.sort();
                eb.sort();
                (m, na, nb, mx, ea, eb)
            });
            match r {
                Ok((m, na_, nb_, mx, ea, eb)) => {
                    nm = m.len();
                    na = na_;
                    nb = nb_;
                    Val::L(vec![
                        pairs(&m),
                        Val::u(na_),
                        Val::u(nb_),
                        pairs(&mx),
                        Val::list(ea, Val::u),
                        Val::list(eb, Val::u),
                    ])
                }
                Err(_) => Val::panic(),
            }
        };
        let mut tags = vec![if ic { "ic".to_string() } else { "exact".to_string() }];
        if ic {
            let changed = |s: &str| s.split_ascii_whitespace().any(|w| w.to_lowercase() != w.to_ascii_lowercase());
            if changed(&a) || changed(&b) {
                tags.push("lc-nonascii".into());
            }
            if a.contains('Σ') || b.contains('Σ') {
                tags.push("sigma".into());
            }
        }
        // non-trivial: both sides have >= 2 words, some but not all words are matched, and a word
        // (key) occurs twice on one side, so that several optimal matchings compete
        let keys = |s: &str| -> Vec<String> {
            s.split_ascii_whitespace().map(|w| if ic { w.to_lowercase() } else { w.to_string() }).collect()
        };
        let dup = |k: &[String]| (0..k.len()).any(|i| k[..i].contains(&k[i]));
        if na >= 2 && nb >= 2 && nm > 0 && nm < na.max(nb) && (dup(&keys(&a)) || dup(&keys(&b))) {
            tags.push("nt".into());
        }
        if a.chars().any(|c| c.is_whitespace() && !c.is_ascii_whitespace())
            || b.chars().any(|c| c.is_whitespace() && !c.is_ascii_whitespace())
        {
            tags.push("non-ascii-ws".into());
        }
        // scale tags (derived from the input, so that replayed and corpus cases carry them too)
        let (la, lb) = (a.chars().count(), b.chars().count());
        if na.max(nb) >= 255 || la.max(lb) >= 255 {
            tags.push("scale".into());
            if na.min(nb) >= 200 {
                tags.push("scale-words2".into());
            } else if na.max(nb) >= 255 {
                tags.push("scale-words1".into());
            }
            let longest = |s: &str| s.split_ascii_whitespace().map(|w| w.chars().count()).max().unwrap_or(0);
            if longest(&a).max(longest(&b)) >= 255 {
                tags.push("scale-wordlen".into());
            }
            let wsrun = |s: &str| {
                let (mut best, mut cur) = (0usize, 0usize);
                for c in s.chars() {
                    cur = if c.is_ascii_whitespace() { cur + 1 } else { 0 };
                    best = best.max(cur);
                }
                best
            };
            if wsrun(&a).max(wsrun(&b)) >= 255 {
                tags.push("scale-wsrun".into());
            }
        }
        Some((out, tags))
    }

    fn canon(&mut self, input: &Val) -> Option<Val> {
        let l = input.as_l()?;
        if l.len() < 3 {
            return None;
        }
        let a = l[0].to_string_lossy()?;
        let b = l[1].to_string_lossy()?;
        Some(mk(&a, &b, l[2].as_bool()?))
    }

    fn selfcheck(&mut self) -> Vec<String> {
        // the model's ASCII whitespace set vs. u8::is_ascii_whitespace / char
        let mut errs = vec![];
        for c in 0..=0x10FFFFu32 {
            if let Some(ch) = char::from_u32(c) {
                let model = [9u32, 10, 12, 13, 32].contains(&c);
                let s = format!("a{ch}b");
                let split = s.split_ascii_whitespace().count() == 2;
                if model != split || model != ch.is_ascii_whitespace() {
                    errs.push(format!("ASCII whitespace set differs at U+{c:04X}"));
                }
            }
        }
        // the model's tables must be the translation of the installed sources, and of the Unicode version of
        // the std this harness is linked against
        let md = env!("CARGO_MANIFEST_DIR");
        for rel in ["..", "../.."] {
            let root = std::path::Path::new(md).join(rel);
            let p = root.join("tools/gen_ucd.py");
            if p.exists() {
                match std::process::Command::new("python3").arg(&p).arg("--check").output() {
                    Ok(o) if o.status.success() => {}
                    Ok(o) => errs.push(format!(
                        "tools/gen_ucd.py --check: {} {}",
                        String::from_utf8_lossy(&o.stdout).trim(),
                        String::from_utf8_lossy(&o.stderr).trim().lines().last().unwrap_or("")
                    )),
                    Err(e) => errs.push(format!("tools/gen_ucd.py --check could not run: {e}")),
                }
                let (x, y, z) = char::UNICODE_VERSION;
                let want = format!("Definition std_unicode_version : N * N * N := ({x}, {y}, {z})%N.");
                match std::fs::read_to_string(root.join("coq/theories/UCD_Table.v")) {
                    Ok(t) if t.contains(&want) => {}
                    Ok(_) => errs.push(format!("UCD_Table.v is not of the Unicode version {x}.{y}.{z} of the running std")),
                    Err(e) => errs.push(format!("UCD_Table.v unreadable: {e}")),
                }
                break;
            }
        }
        errs
    }
}

fn main() {
    main_loop(C18);
}

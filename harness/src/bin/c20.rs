//! C20: Dictionary::{create, items, freq_sum, save, load, get, get_closest} against the model.
//!
//! input  = (cfg files perms dfile segs queries)
//!   cfg     = (chars cg max_size? max_seq? threads)
//!   files   = list of (fbytes lines); fbytes = the BYTES written to disk (any bytes: invalid UTF-8, BOM, NUL, CR LF,
//!             no final newline); lines = what a lossy reading with the std gives (read_until(b'\n'), strip "\n" and
//!             one "\r", String::from_utf8_lossy): line = (raw words); word = (parts clusters offs)
//!             parts: byte strings of the regex matches of `split_words`, offs their byte offsets;
//!             clusters: (bytes alpha punct) of `vh::split_clusters(word, true)`, all computed on
//!             normalize(clean(raw)) by the real crate.  The model reads the lines from fbytes itself
//!             (C20_Bytes.v) and computes the words from them (C20_Words.v); lines and words are cross-checks inside
//!             `agree`.  An old-format file `(final_newline lines)` is still accepted by `canon` (corpus).
//!   perms   = (arrival_picks heap_picks)       arbitrary orders for the model (the code's are unobservable)
//!   dfile   = bytes of a dictionary file for `load` (any bytes)
//!   segs    = grapheme segmentation (byte strings) of every candidate key of dfile (cross-check; the model segments
//!             the keys itself)
//!   queries = list of (raw norm nq qclusters)   nq = normalize(raw, NFKC), qclusters its graphemes (cross-checks; the
//!             model normalises and segments the raw query itself)
//!   probes  = optional 7th field: list of (text words): `words` as above but computed on `text` itself
//!             (no clean, no normalisation) — the class probes that sweep all scalar values
//! output = (creates reload loaded answers), see C20_Model.v; answers (C20_Float.v) = per query (get? closest? dists):
//!   get? = () | ((freq rel)), closest? = () | ((word freq rel)), rel = the returned f64 as `to_bits` fields;
//!   dists = the first 256 values of the call `get_closest` makes (`edit::distances`, keys in `items()` order)
use std::collections::HashMap;
use std::path::PathBuf;
use text_utils::dictionary::{Dictionary, DictionaryDistanceMeasure};
use text_utils::text::{clean, split_words};
use text_utils::unicode::{normalize, Character, Normalization};
use vh::*;

struct Raw {
    chars: bool,
    cg: usize,
    max_size: Option<usize>,
    max_seq: Option<usize>,
    threads: Vec<usize>,
    files: Vec<Vec<u8>>,
    arr: Vec<usize>,
    hp: Vec<usize>,
    dfile: Vec<u8>,
    queries: Vec<(String, bool)>,
    probes: Vec<String>,
}

struct C20 {
    dir: PathBuf,
    class_cache: HashMap<String, (bool, bool)>,
    line_cache: HashMap<String, Val>,
}

impl Drop for C20 {
    fn drop(&mut self) {
        let _ = std::fs::remove_dir_all(&self.dir);
    }
}

fn bytes(s: &str) -> Val {
    Val::bytes(s.as_bytes())
}

fn opt_usize(v: &Val) -> Option<Option<usize>> {
    let l = v.as_l()?;
    match l.len() {
        0 => Some(None),
        1 => Some(Some(l[0].as_usize()?)),
        _ => None,
    }
}

fn usizes(v: &Val) -> Option<Vec<usize>> {
    v.as_l()?.iter().map(|x| x.as_usize()).collect()
}

/// an f64 as the fields of `to_bits` (same as c12.rs / C12_Float.fl_v)
fn f64_val(x: f64) -> Val {
    let bits = x.to_bits();
    let s = (bits >> 63) as i64;
    let exp = ((bits >> 52) & 0x7ff) as i64;
    let frac = (bits & ((1u64 << 52) - 1)) as i64;
    let l = |k: i64, s: i64, m: i64, e: i64| Val::L(vec![Val::I(k), Val::I(s), Val::I(m), Val::I(e)]);
    if exp == 0x7ff {
        if frac == 0 {
            l(2, s, 0, 0)
        } else {
            l(3, 0, 0, 0)
        }
    } else if exp == 0 {
        if frac == 0 {
            l(0, s, 0, 0)
        } else {
            l(1, s, frac, -1074)
        }
    } else {
        l(1, s, frac | (1i64 << 52), exp - 1075)
    }
}

/// The lines of a file by a lossy reading made of std pieces only (`read_until(b'\n')`, strip "\n" and one "\r"
/// before it, `String::from_utf8_lossy`) — independent of the crate's readers; the model's reading of the bytes
/// (Lines_Model.lossy_lines) must give the same lines.
fn lossy_lines(bytes: &[u8]) -> Vec<String> {
    use std::io::BufRead;
    let mut rd = std::io::BufReader::with_capacity(64, bytes);
    let mut out = vec![];
    loop {
        let mut buf = vec![];
        match rd.read_until(b'\n', &mut buf) {
            Ok(0) | Err(_) => break,
            Ok(_) => {
                if buf.last() == Some(&b'\n') {
                    buf.pop();
                    if buf.last() == Some(&b'\r') {
                        buf.pop();
                    }
                }
                out.push(String::from_utf8_lossy(&buf).into_owned());
            }
        }
    }
    out
}

/// does `BufRead::lines` (the strict reader) meet a line that is not UTF-8?
fn has_invalid_line(bytes: &[u8]) -> bool {
    use std::io::BufRead;
    std::io::BufReader::new(bytes).lines().any(|l| l.is_err())
}

fn join_lines(lines: &[String], final_nl: bool) -> Vec<u8> {
    let mut s = String::new();
    for (i, l) in lines.iter().enumerate() {
        s.push_str(l);
        if final_nl || i + 1 < lines.len() {
            s.push('\n');
        }
    }
    s.into_bytes()
}

impl C20 {
    fn new() -> Self {
        let dir = PathBuf::from(format!("/tmp/c20/h{}", std::process::id()));
        let _ = std::fs::create_dir_all(&dir);
        C20 { dir, class_cache: HashMap::new(), line_cache: HashMap::new() }
    }

    fn classes(&mut self, c: &str) -> (bool, bool) {
        if let Some(r) = self.class_cache.get(c) {
            return *r;
        }
        let ch = Character { str: c };
        let r = (ch.is_alphabetic(), ch.is_punctuation());
        self.class_cache.insert(c.to_string(), r);
        r
    }

    /// the oracle for one line: what the worker sees after clean + NFKC + split_words
    fn line_oracle(&mut self, raw: &str) -> Val {
        if let Some(v) = self.line_cache.get(raw) {
            return v.clone();
        }
        let line = normalize(&clean(raw, true), Normalization::NFKC, true);
        let v = self.words_oracle(&line);
        if self.line_cache.len() < 50_000 {
            self.line_cache.insert(raw.to_string(), v.clone());
        }
        v
    }

    /// `split_words(line)`: per word the regex matches and their byte offsets, the clusters and their classes
    fn words_oracle(&mut self, line: &str) -> Val {
        let mut words = vec![];
        for (word, parts) in split_words(line) {
            let offs = Val::L(parts.iter().flatten().map(|(_, o)| Val::u(*o)).collect());
            let parts = Val::L(
                parts
                    .map(|p| p.into_iter().map(|(s, _)| bytes(s)).collect())
                    .unwrap_or_default(),
            );
            let cls: Vec<&str> = vh::split_clusters(word, true).collect();
            let cls = Val::L(
                cls.into_iter()
                    .map(|c| {
                        let (a, p) = self.classes(c);
                        Val::L(vec![bytes(c), Val::b(a), Val::b(p)])
                    })
                    .collect(),
            );
            words.push(Val::L(vec![parts, cls, offs]));
        }
        Val::L(words)
    }

    fn to_val(&mut self, r: &Raw) -> Val {
        let cfg = Val::L(vec![
            Val::b(r.chars),
            Val::u(r.cg),
            Val::opt(r.max_size, Val::u),
            Val::opt(r.max_seq, Val::u),
            Val::list(r.threads.iter(), |t| Val::u(*t)),
        ]);
        let mut files = vec![];
        for fb in &r.files {
            let ls: Vec<Val> = lossy_lines(fb)
                .iter()
                .map(|raw| Val::L(vec![Val::str(raw), self.line_oracle(raw)]))
                .collect();
            files.push(Val::L(vec![Val::bytes(fb), Val::L(ls)]));
        }
        let perms = Val::L(vec![
            Val::list(r.arr.iter(), |t| Val::u(*t)),
            Val::list(r.hp.iter(), |t| Val::u(*t)),
        ]);
        // candidate keys of the dictionary file: first tab-separated field of every trimmed line
        let mut segs: Vec<Val> = vec![];
        if let Ok(dtext) = std::str::from_utf8(&r.dfile) {
            let mut seen = std::collections::HashSet::new();
            for line in dtext.split('\n') {
                let key = line.trim().split('\t').next().unwrap_or("");
                if seen.insert(key) {
                    segs.push(Val::L(vh::split_clusters(key, true).map(bytes).collect()));
                }
            }
        }
        let queries: Vec<Val> = r
            .queries
            .iter()
            .map(|(q, norm)| {
                let nq = normalize(q, Normalization::NFKC, true);
                Val::L(vec![
                    Val::str(q),
                    Val::b(*norm),
                    bytes(&nq),
                    Val::L(vh::split_clusters(&nq, true).map(bytes).collect()),
                ])
            })
            .collect();
        let mut fields = vec![cfg, Val::L(files), perms, Val::bytes(&r.dfile), Val::L(segs), Val::L(queries)];
        if !r.probes.is_empty() {
            let ps: Vec<Val> = r.probes.iter().map(|p| Val::L(vec![Val::str(p), self.words_oracle(p)])).collect();
            fields.push(Val::L(ps));
        }
        Val::L(fields)
    }

    fn parse(&self, input: &Val) -> Option<Raw> {
        let l = input.as_l()?;
        if l.len() != 6 && l.len() != 7 {
            return None;
        }
        let cfg = l[0].as_l()?;
        if cfg.len() != 5 {
            return None;
        }
        let chars = cfg[0].as_bool()?;
        let cg = cfg[1].as_usize()?;
        if cg > 255 {
            return None;
        }
        let max_size = opt_usize(&cfg[2])?;
        let max_seq = opt_usize(&cfg[3])?;
        let threads = usizes(&cfg[4])?;
        if threads.iter().any(|t| *t > 16) || threads.len() > 8 {
            return None;
        }
        let mut files = vec![];
        for f in l[1].as_l()? {
            let f = f.as_l()?;
            if f.len() != 2 {
                return None;
            }
            if let Some(bs) = f[0].as_l() {
                // the bytes of the file; the lines are re-derived from them
                let fb: Vec<u8> =
                    bs.iter().map(|b| b.as_usize().and_then(|b| u8::try_from(b).ok())).collect::<Option<_>>()?;
                files.push(fb);
            } else {
                // old format (corpus): (final_newline lines)
                let mut lines = vec![];
                for line in f[1].as_l()? {
                    let raw = line.nth(0)?.to_string_lossy()?;
                    if raw.contains('\n') {
                        return None;
                    }
                    lines.push(raw);
                }
                // an unterminated empty last line does not exist
                let nl = f[0].as_bool()? || lines.last().map_or(true, |s| s.is_empty());
                files.push(join_lines(&lines, nl));
            }
        }
        let perms = l[2].as_l()?;
        if perms.len() != 2 {
            return None;
        }
        let arr = usizes(&perms[0])?;
        let hp = usizes(&perms[1])?;
        let dfile: Vec<u8> = l[3]
            .as_l()?
            .iter()
            .map(|b| b.as_usize().and_then(|b| u8::try_from(b).ok()))
            .collect::<Option<_>>()?;
        let mut queries = vec![];
        for q in l[5].as_l()? {
            queries.push((q.nth(0)?.to_string_lossy()?, q.nth(1)?.as_bool()?));
        }
        let mut probes = vec![];
        if let Some(ps) = l.get(6) {
            for p in ps.as_l()? {
                probes.push(p.nth(0)?.to_string_lossy()?);
            }
        }
        Some(Raw { chars, cg, max_size, max_seq, threads, files, arr, hp, dfile, queries, probes })
    }

    fn write_files(&self, r: &Raw) -> Vec<PathBuf> {
        let mut paths = vec![];
        for (k, fb) in r.files.iter().enumerate() {
            let p = self.dir.join(format!("f{k}.txt"));
            std::fs::write(&p, fb).expect("write corpus file");
            paths.push(p);
        }
        paths
    }
}

fn items_val(d: &Dictionary) -> Val {
    Val::L(d.items().map(|(k, v)| Val::L(vec![bytes(k), Val::u(*v)])).collect())
}

fn lres_val(d: &anyhow::Result<Dictionary>) -> Val {
    match d {
        Ok(d) => Val::some(Val::L(vec![items_val(d), Val::u(d.freq_sum)])),
        Err(_) => Val::none(),
    }
}

// ---------------------------------------------------------------- generator
const WORDS: &[&str] = &[
    "a", "b", "ab", "ba", "c", "abc", "A", "ä", "a\u{308}", "é", "e\u{301}", "ﬁ", "fi", "x1", "1",
    "12", "a-b", "a.b", "'a'", "a_b", "中", "中a", "a\u{200d}b", "²", "Ⅳ", "ａ", "¨", "a,", "(b)",
    "b!", "€", "a€b", "😀", "🇩🇪", "क्ष", "-", "...", "a1b", "ß", "ǅ", "n\u{303}o", "?!", "b-a", "ab-ab",
    // non-ASCII punctuation, ASCII symbols that are not punctuation, a mark on a digit, a non-ASCII digit
    "«a»", "a+b", "<", "–", "¡b", "1\u{301}", "a٣",
    // words whose character n-grams are keys that start with a comment / section marker (save -> load must keep them)
    "#", "#ta", ";", ";x", "//", "//a", "%a", "[a]", "--b", "!",
];
const KEYS: &[&str] = &[
    "a", "b", "ab", "ba", "abc", "acb", "bac", "abd", "ac", "é", "e\u{301}", "a b", "ﬁ", "x", "<bow> a b",
    "中", "bb", "aé", "fi", "cab", "🇩🇪", "क्ष", "e\u{301}\u{200d}", "#", "# t a", ";a", "//", "<bow> # t", "!",
];
const QUERIES: &[&str] = &[
    "a", "b", "ab", "ba", "abc", "acb", "bca", "ac", "abd", "bd", "", "é", "e\u{301}", "ﬁ", "xyz", "ｂ", "a b",
    "aé", "abcd", "c", "cba", "🇩🇪🇫", "क्", "\u{1100}\u{1161}",
];
// the last four are above 2^53: `usize as f64` rounds (ties to even); sums of at most 7 of them stay below 2^62
const FREQS: &[usize] = &[
    0, 1, 1, 2, 2, 3, 3, 5, 10, 1000, 1 << 40, (1 << 53) + 1, (1 << 53) + 3, (1 << 58) + 12345, (1 << 57) + 64,
];

/// units for the class probes: letters, digits of several scripts (Nd is \w but not in the word class),
/// other numbers, marks, connector punctuation, join controls, punctuation of every subcategory, symbols,
/// code points whose class differs between Unicode 16 (regex-syntax) and 17 (std)
const PUNITS: &[&str] = &[
    "a", "b", "Z", "é", "e\u{301}", "\u{301}", "\u{20dd}", "\u{93e}", "1", "2", "٣", "७", "２", "²", "½", "Ⅳ", "ↂ", "_",
    "‿", "﹏", "＿", "\u{200c}", "\u{200d}", "\u{200b}", "-", "–", "(", ")", "«", "»", "!", "¡", "·", "'", "’", "<",
    "+", "€", "^", "`", "中", "ｱ", "ᄀ", "😀", "\u{345}", "ª", "ʰ", "\u{16d40}", "\u{11b60}", "\u{1e6c0}", "\u{a7ce}",
    "\u{10940}", "\u{1c89}", "\u{a7cb}", "\u{2ffc}", "\u{1e5d0}",
];

/// The class probe around code point `c`: `c`, `ac`, `ca` (is c in the word class / in \w; its own classes).
fn cls_probe(c: char) -> String {
    format!("{c} a{c} {c}a")
}

fn gen_probe(rng: &mut Rng) -> String {
    if rng.chance(1, 2) {
        let c = loop {
            if let Some(c) = char::from_u32(rng.below(0x110000) as u32) {
                break c;
            }
        };
        cls_probe(c)
    } else {
        let n = rng.range(1, 7);
        let mut s = String::new();
        for _ in 0..n {
            if rng.chance(1, 8) {
                s.push(' ');
            }
            s.push_str(*rng.pick(PUNITS));
        }
        s
    }
}

fn pick_word(rng: &mut Rng, vocab: usize) -> &'static str {
    // skewed towards the first entries so that counts collide
    let a = rng.below(vocab);
    let b = rng.below(vocab);
    WORDS[a.min(b)]
}

fn sep(rng: &mut Rng) -> &'static str {
    if rng.chance(4, 5) {
        " "
    } else {
        *rng.pick(units::WS)
    }
}

fn gen_line(rng: &mut Rng, vocab: usize) -> String {
    let n = match rng.below(10) {
        0 => 0,
        1 => 1,
        _ => rng.range(1, 6),
    };
    let mut s = String::new();
    if rng.chance(1, 8) {
        s.push_str(sep(rng));
    }
    for i in 0..n {
        if i > 0 {
            s.push_str(sep(rng));
            if rng.chance(1, 10) {
                s.push_str(sep(rng));
            }
        }
        // 1 word in 12: one whose character n-grams start with a comment / section marker
        if rng.chance(1, 12) {
            s.push_str(*rng.pick(&WORDS[WORDS.len() - 10..]));
        } else {
            s.push_str(pick_word(rng, vocab));
        }
    }
    if rng.chance(1, 8) {
        s.push_str(sep(rng));
    }
    s.replace('\n', " ")
}

fn gen_dfile(rng: &mut Rng) -> String {
    let n = match rng.below(12) {
        0 => 0,
        1 => 1,
        _ => rng.range(2, 7),
    };
    let nk = rng.range(2, KEYS.len());
    let nf = rng.range(2, FREQS.len());
    let mut lines: Vec<String> = (0..n)
        .map(|_| format!("{}\t{}", KEYS[rng.below(nk)], FREQS[rng.below(nf)]))
        .collect();
    let mut final_nl = true;
    if rng.chance(3, 10) {
        let i = if lines.is_empty() { 0 } else { rng.below(lines.len()) };
        let l = lines.get(i).cloned().unwrap_or_default();
        let (k, v) = l.split_once('\t').unwrap_or(("a", "1"));
        let newl = match rng.below(20) {
            0 => format!(" {l}"),
            1 => format!("{l}\r"),
            2 => format!("{k}\t+{v}"),
            3 => format!("{k}\t00{v}"),
            4 => format!("{l}\t"),
            5 => String::new(),
            6 => format!("{l}\t7"),
            7 => k.to_string(),
            8 => format!("{k}\t{v}x"),
            9 => format!("{k}\t-{v}"),
            10 => format!("{k}\t18446744073709551616"),
            11 => format!("{k} \t{v}"),
            12 => format!("\u{a0}{k}\t{v}"),
            13 => format!("{l}\u{3000} "),
            14 => format!("{k}\t"),
            15 => format!("\t{v}"),
            16 => format!("{k}\t {v}"),
            17 => format!("{k}\t\t{v}"),
            18 => format!("{k}\t+"),
            _ => format!("\u{2003}{l}\u{85}"),
        };
        if lines.is_empty() {
            lines.push(newl);
        } else if rng.chance(1, 2) {
            lines[i] = newl;
        } else {
            lines.insert(i, newl);
        }
    }
    if rng.chance(1, 6) {
        final_nl = false;
    }
    let mut s = lines.join("\n");
    if final_nl && !lines.is_empty() {
        s.push('\n');
    }
    s
}

/// byte sequences that are not UTF-8: bare continuation, impossible bytes, truncated sequences (at the end of a line
/// or before an ASCII byte), overlong form, surrogate, above U+10FFFF
const INVALID: &[&[u8]] = &[
    &[0xFF],
    &[0x80],
    &[0xC3],
    &[0xC0, 0x80],
    &[0xED, 0xA0, 0x80],
    &[0xF0, 0x9F, 0x92],
    &[0xF5, 0x80, 0x80, 0x80],
    &[0xE2, 0x82],
    &[0xF4, 0x90, 0x80, 0x80],
    &[0xA9, 0xC3],
];

fn insert_at(b: &mut Vec<u8>, pos: usize, ins: &[u8]) {
    let pos = pos.min(b.len());
    let tail = b.split_off(pos);
    b.extend_from_slice(ins);
    b.extend_from_slice(&tail);
}

/// a position that is a character boundary of the (so far valid) text, so that what is inserted stays what it is
fn boundary(rng: &mut Rng, b: &[u8]) -> usize {
    let mut pos = rng.below(b.len() + 1);
    while pos < b.len() && (b[pos] & 0xC0) == 0x80 {
        pos += 1;
    }
    pos
}

/// Byte-level decorations of a corpus file: what a text file on disk can look like beyond "lines joined by \n".
/// Returns the tag of the decoration.
fn decorate(rng: &mut Rng, fb: &mut Vec<u8>) -> &'static str {
    match rng.below(14) {
        0 => {
            // CR LF everywhere
            let mut out = vec![];
            for &x in fb.iter() {
                if x == b'\n' {
                    out.push(b'\r');
                }
                out.push(x);
            }
            *fb = out;
            "crlf"
        }
        1 => {
            // CR LF on some lines, a lone CR inside others
            let mut out = vec![];
            for &x in fb.iter() {
                if x == b'\n' && rng.chance(1, 2) {
                    out.push(b'\r');
                    if rng.chance(1, 4) {
                        out.push(b'\r');
                    }
                }
                if x == b' ' && rng.chance(1, 6) {
                    out.push(b'\r');
                }
                out.push(x);
            }
            *fb = out;
            "crlf"
        }
        2 => {
            insert_at(fb, 0, &[0xEF, 0xBB, 0xBF]);
            "bom"
        }
        3 => {
            let pos = boundary(rng, fb);
            insert_at(fb, pos, &[0]);
            if rng.chance(1, 2) {
                let pos = boundary(rng, fb);
                insert_at(fb, pos, &[0]);
            }
            "nul"
        }
        4..=6 => {
            // one to three invalid sequences inside the text
            for _ in 0..rng.range(1, 4) {
                let pos = boundary(rng, fb);
                let ins = *rng.pick(INVALID);
                insert_at(fb, pos, ins);
            }
            "inv"
        }
        7 => {
            // an invalid line of its own: at the start, at a line boundary, or at the end (with / without newline)
            let ins: &[u8] = *rng.pick(&[&b"\xff\n"[..], &b"\xc3\n"[..], &b"a\x80b\n"[..], &b"\xff"[..]]);
            match rng.below(3) {
                0 => insert_at(fb, 0, ins),
                1 => {
                    let nls: Vec<usize> = (0..fb.len()).filter(|i| fb[*i] == b'\n').collect();
                    let pos = if nls.is_empty() { fb.len() } else { nls[rng.below(nls.len())] + 1 };
                    insert_at(fb, pos, ins);
                }
                _ => {
                    if fb.last().map_or(false, |x| *x != b'\n') {
                        fb.push(b'\n');
                    }
                    fb.extend_from_slice(ins);
                }
            }
            "inv"
        }
        8 => {
            // a lone CR at the very end (no LF), or the final newline doubled (an empty last line)
            if rng.chance(1, 2) {
                fb.push(b'\r');
            } else {
                fb.push(b'\n');
            }
            "eol"
        }
        9 => {
            // the final newline removed (possibly leaving "...\r")
            if fb.last() == Some(&b'\n') {
                fb.pop();
            }
            "eol"
        }
        10 => {
            // byte soup
            let alpha: &[&[u8]] =
                &[b"a", b"b", b" ", b"\n", b"\n", b"\r", b"\r\n", &[0xFF], &[0xC3], &[0xC3, 0xA9], &[0], &[0xEF, 0xBB, 0xBF], b"ab"];
            let mut out = vec![];
            for _ in 0..rng.below(14) {
                out.extend_from_slice(*rng.pick(alpha));
            }
            *fb = out;
            "soup"
        }
        11 => {
            *fb = rng.pick(&[&b""[..], &b"\n"[..], &b"\r\n"[..], &b"\r"[..], &b"\n\n"[..], &b" "[..], &b"\xef\xbb\xbf"[..]]).to_vec();
            "tiny"
        }
        12 => {
            // a very long line (longer than the 8 KiB buffer of BufReader), ending the file or not
            if rng.chance(1, 3) {
                let n = rng.range(8100, 8300) + if rng.chance(1, 3) { rng.range(0, 9000) } else { 0 };
                let mut line = vec![];
                let ws: &[&[u8]] = &[b"ab", b"a", b"b", "é".as_bytes(), b"ba", b"c"];
                while line.len() < n {
                    line.extend_from_slice(*rng.pick(ws));
                    line.push(b' ');
                }
                if rng.chance(1, 3) {
                    let pos = boundary(rng, &line);
                    insert_at(&mut line, pos, &[0xFF]);
                }
                line.push(b'\n');
                let nls: Vec<usize> = (0..fb.len()).filter(|i| fb[*i] == b'\n').collect();
                let pos = if nls.is_empty() { 0 } else { nls[rng.below(nls.len())] + 1 };
                insert_at(fb, pos, &line);
                "longline"
            } else {
                "plain"
            }
        }
        _ => {
            // an invalid sequence directly before a line end / at the end of the file (truncated character)
            let nls: Vec<usize> = (0..fb.len()).filter(|i| fb[*i] == b'\n').collect();
            let pos = if nls.is_empty() || rng.chance(1, 3) { fb.len() } else { nls[rng.below(nls.len())] };
            let ins = *rng.pick(INVALID);
            insert_at(fb, pos, ins);
            "inv"
        }
    }
}

fn gen_raw(rng: &mut Rng, tier: Tier) -> Raw {
    let edge = rng.chance(15, 100);
    let (chars, cg) = match rng.below(20) {
        0..=8 => (false, *rng.pick(&[1usize, 1, 1, 3, 0, 2])),
        9..=13 => (true, 1),
        14..=18 => (true, 3),
        _ => (true, *rng.pick(&[0usize, 2, 4, 5, 255])),
    };
    let vocab = if edge { WORDS.len() } else { rng.range(2, 14) };
    let nfiles = match rng.below(12) {
        0 => 0,
        1..=6 => 1,
        7..=9 => 2,
        _ => 3,
    };
    let maxl = if tier == Tier::Thorough { 9 } else { 6 };
    let mut files: Vec<(bool, Vec<String>)> = vec![];
    for _ in 0..nfiles {
        let nl = match rng.below(10) {
            0 => 0,
            _ => rng.range(1, maxl),
        };
        let lines: Vec<String> = (0..nl).map(|_| gen_line(rng, vocab)).collect();
        // an unterminated empty last line does not exist: such files always end with a newline
        let nl = rng.chance(5, 6) || lines.last().map_or(true, |s: &String| s.is_empty());
        files.push((nl, lines));
    }
    // plateau stream: k distinct words, each exactly m times, spread over the lines in random order; the cut
    // (max_size in 1..k) falls inside the group of equally frequent entries, so that only the (freq, word) order
    // of the heap decides which words survive — the same for every build
    let plateau = !edge && rng.chance(1, 8);
    let mut plateau_k = 0usize;
    if plateau {
        let k = rng.range(3, 12);
        let m = rng.range(1, 3);
        // letter words with pairwise distinct NFKC forms: one token each in word mode
        let mut pool: Vec<&str> = vec!["a", "b", "ab", "ba", "c", "abc", "A", "ä", "é", "fi", "中", "ß", "bb", "ac"];
        rng.shuffle(&mut pool);
        let mut toks: Vec<&str> = vec![];
        for w in pool.iter().take(k) {
            for _ in 0..m {
                toks.push(w);
            }
        }
        rng.shuffle(&mut toks);
        let nl = rng.range(1, 4);
        let mut lines: Vec<String> = vec![String::new(); nl];
        for t in toks {
            let i = rng.below(nl);
            if !lines[i].is_empty() {
                lines[i].push(' ');
            }
            lines[i].push_str(t);
        }
        files = vec![(true, lines)];
        plateau_k = k;
    }
    // long-tail stream: a few frequent words whose occurrences are spread thinly over the lines, separated by bursts of
    // many distinct words that occur once, and a small max_size (1..3): more than 16 * max_size distinct candidates
    // reach the reducer between two occurrences of the frequent words (a reducer that bounds its memory by dropping
    // rare candidates early loses counts here; so does a top-k that is applied to partial counts)
    let longtail = !edge && !plateau && rng.chance(1, 40);
    let mut longtail_k = 0usize;
    if longtail {
        let k = rng.range(1, 4);
        let heads = ["a", "b", "ab"];
        let mut hapax = 0usize;
        let mut lines: Vec<String> = vec![];
        let rounds = rng.range(3, 6);
        for r in 0..rounds {
            // the frequent words, once or twice
            let mut l = String::new();
            for h in heads.iter().take(k) {
                for _ in 0..(1 + (r % 2)) {
                    if !l.is_empty() {
                        l.push(' ');
                    }
                    l.push_str(h);
                }
            }
            lines.push(l);
            // a burst of words that occur once: "h" + two letters, all different
            let burst = 17 * k + rng.below(8);
            let per_line = rng.range(6, 30);
            let mut l = String::new();
            for _ in 0..burst {
                if !l.is_empty() {
                    l.push(' ');
                }
                let (x, y) = (hapax / 26 % 26, hapax % 26);
                l.push('h');
                l.push((b'a' + x as u8) as char);
                l.push((b'a' + y as u8) as char);
                if hapax >= 676 {
                    l.push('h');
                }
                hapax += 1;
                if l.split(' ').count() >= per_line {
                    lines.push(std::mem::take(&mut l));
                }
            }
            if !l.is_empty() {
                lines.push(l);
            }
        }
        let cut = rng.below(lines.len());
        let rest = lines.split_off(cut);
        files = if lines.is_empty() || rng.chance(1, 2) {
            lines.extend(rest);
            vec![(true, lines)]
        } else {
            vec![(true, lines), (rng.chance(1, 2), rest)]
        };
        longtail_k = k;
    }
    // the bytes on disk; outside the plateau stream one file in four gets a byte-level decoration
    let mut files: Vec<Vec<u8>> = files.iter().map(|(nl, lines)| join_lines(lines, *nl)).collect();
    if !plateau {
        for fb in files.iter_mut() {
            if rng.chance(1, 4) {
                decorate(rng, fb);
            }
        }
    }
    let total: usize = files.iter().map(|fb| lossy_lines(fb).len()).sum();
    let max_size = match rng.below(20) {
        0..=3 => None,
        4..=5 => Some(0),
        6..=7 => Some(1),
        8..=14 => Some(rng.range(2, 9)),
        15..=16 => Some(rng.range(10, 40)),
        17 => Some(1000),
        18 => Some(100_000),
        _ => Some(1usize << 61),
    };
    let max_size = if plateau { Some(rng.range(1, plateau_k - 1)) } else { max_size };
    let (chars, cg, max_size) = if longtail { (false, 1, Some(longtail_k)) } else { (chars, cg, max_size) };
    let max_seq = match rng.below(12) {
        0..=5 => None,
        6 => Some(0),
        7 => Some(1),
        8..=9 => Some(rng.below(total + 1)),
        10 => Some(total + rng.below(3)),
        _ => Some(1usize << 61),
    };
    // several builds per case: different worker-thread counts and a repeated build (every HashMap instance
    // iterates in its own order, so a result that depends on that order differs between two builds)
    let threads = match rng.below(20) {
        0..=2 => vec![0, 1, 2, 3, 4, 0],
        3..=11 => {
            let a = rng.below(5);
            let b = (a + 1 + rng.below(4)) % 5;
            vec![a, b, a]
        }
        12..=13 => vec![8, 1],
        14..=15 => vec![rng.below(5), rng.below(5)],
        _ => vec![rng.below(5)],
    };
    let max_seq = if plateau || longtail { None } else { max_seq };
    let threads = if plateau && threads.len() < 2 { vec![0, 2, 0] } else { threads };
    let arr = (0..rng.below(total + 2)).map(|_| rng.below(64)).collect();
    let hp = (0..rng.below(24)).map(|_| rng.below(64)).collect();
    let mut dfile = gen_dfile(rng).into_bytes();
    // a dictionary file is bytes too: `load` must refuse a line that is not UTF-8; BOM and NUL are part of a key
    match rng.below(40) {
        0 | 1 => {
            let pos = boundary(rng, &dfile);
            let ins = *rng.pick(INVALID);
            insert_at(&mut dfile, pos, ins);
        }
        2 => insert_at(&mut dfile, 0, &[0xEF, 0xBB, 0xBF]),
        3 => {
            let pos = boundary(rng, &dfile);
            insert_at(&mut dfile, pos, &[0]);
        }
        _ => {}
    }
    let nq = rng.range(1, 4);
    let queries = (0..nq)
        .map(|_| (rng.pick(QUERIES).to_string(), rng.chance(1, 2)))
        .collect();
    let probes = if rng.chance(1, 8) { (0..rng.range(4, 33)).map(|_| gen_probe(rng)).collect() } else { vec![] };
    // scale stream for `load` / `get_closest`: a dictionary of 1100..3300 short keys with few distinct frequencies, so that
    // every query has many entries at the minimal distance, with different frequencies, spread over the whole map
    // (an answer computed piecewise — chunks, parallel partial results — must still be the most frequent of ALL ties)
    let (dfile, queries): (Vec<u8>, Vec<(String, bool)>) = if rng.chance(1, 250) {
        let alpha: Vec<char> = "abcdef".chars().collect();
        let want = rng.range(1100, 3300);
        let mut keys: Vec<String> = vec![];
        let mut seen = std::collections::HashSet::new();
        while keys.len() < want {
            let len = rng.range(3, 5);
            let k: String = (0..len).map(|_| alpha[rng.below(alpha.len())]).collect();
            if seen.insert(k.clone()) {
                keys.push(k);
            }
        }
        let nf = rng.range(2, 6);
        let mut f = String::new();
        for k in &keys {
            f.push_str(&format!("{k}\t{}\n", 1 + rng.below(nf)));
        }
        let qs = ["ab", "abx", "xyz", "abcdex", "a", "fedcba", "bbbbbbb", "ca fe"];
        let queries = (0..rng.range(2, 5)).map(|_| (rng.pick(&qs[..]).to_string(), rng.chance(1, 2))).collect();
        (f.into_bytes(), queries)
    } else {
        (dfile, queries)
    };
    // near-tie stream for the float comparison of `get_closest`: two keys x^n and x^(n+1) with n = 1200 / 1500 and the
    // query x (or xx): the normalised distances (n-1)/n and n/(n+1) differ by 1/(n(n+1)) < 10^-6 — distinct as f64 (and
    // as rationals: the SHORTER key is strictly closer); the longer key is the more frequent one, so a comparison with
    // a tolerance turns the strict order into a tie and returns it.  (Equality after rounding to f32 needs n >= 5800;
    // the extracted edit-distance model counts in unary and is quadratic in n even for a one-character query: 34 s per
    // case at n = 8192, so that size is not generated.)
    let (dfile, queries): (Vec<u8>, Vec<(String, bool)>) = if rng.chance(1, 300) {
        // one near-tie case in three has keys of 4141 / 4175 / 4198 clusters: for these n the doubles (n-1)/n and n/(n+1)
        // are EQUAL after rounding to f32 (a first pass comparing `dists[i] as f32` sees a tie and returns the longer,
        // more frequent key).  Affordable since the extracted model computes the distances in binary (C12_Fast.v /
        // C20_Fast.v); what is left is the model's line reader (quadratic in the line length: about 9 s of model time
        // per case at this size, 50 s at n = 8192).
        let n = if rng.chance(1, 3) { *rng.pick(&[4141usize, 4175, 4198]) } else { *rng.pick(&[1200usize, 1500]) };
        let c = *rng.pick(&["a", "b"]);
        let (f1, f2) = (1 + rng.below(3), 4 + rng.below(3));
        let mut lines = vec![format!("{}\t{}", c.repeat(n), f1), format!("{}\t{}", c.repeat(n + 1), f2)];
        if rng.chance(1, 2) {
            lines.push("zzzz\t9".to_string());
        }
        rng.shuffle(&mut lines);
        let f = lines.join("\n") + "\n";
        let queries = vec![(c.to_string(), true), (c.repeat(2), true), (c.to_string(), false)];
        (f.into_bytes(), queries)
    } else {
        (dfile, queries)
    };
    Raw { chars, cg, max_size, max_seq, threads, files, arr, hp, dfile, queries, probes }
}

impl Prop for C20 {
    fn gen(&mut self, rng: &mut Rng, tier: Tier, _i: usize, _n: usize) -> Val {
        let r = gen_raw(rng, tier);
        self.to_val(&r)
    }

    fn canon(&mut self, input: &Val) -> Option<Val> {
        let r = self.parse(input)?;
        Some(self.to_val(&r))
    }

    fn run(&mut self, input: &Val) -> Option<(Val, Vec<String>)> {
        let r = self.parse(input)?;
        // the oracle fields must be what the real crate produces
        if &self.to_val(&r) != input {
            return None;
        }
        let paths = self.write_files(&r);
        let dict_path = self.dir.join("dict.txt");
        let saved_path = self.dir.join("saved.txt");
        std::fs::write(&dict_path, &r.dfile).expect("write dict file");
        let mut tags: Vec<String> = vec![];
        let mut first: Option<Dictionary> = None;
        let mut creates = vec![];
        for (k, t) in r.threads.iter().enumerate() {
            let (ps, ms, mq, t, chars, cg) = (paths.clone(), r.max_size, r.max_seq, *t as u8, r.chars, r.cg as u8);
            let res = std::panic::catch_unwind(move || Dictionary::create(&ps, ms, mq, t, chars, cg, false));
            match res {
                Err(_) => creates.push(Val::panic()),
                Ok(Err(_)) => creates.push(Val::L(vec![Val::I(1)])),
                Ok(Ok(d)) => {
                    creates.push(Val::L(vec![Val::I(0), items_val(&d), Val::u(d.freq_sum)]));
                    if k == 0 {
                        first = Some(d);
                    }
                }
            }
        }
        let (sp, dp, queries) = (saved_path.clone(), dict_path.clone(), r.queries.clone());
        let first_ref = std::panic::AssertUnwindSafe(&first);
        let rest = std::panic::catch_unwind(move || {
            let reload = match *first_ref {
                Some(d) => match d.save(&sp) {
                    Ok(()) => {
                        let file = std::fs::read(&sp).unwrap_or_default();
                        Val::L(vec![Val::bytes(&file), lres_val(&Dictionary::load(&sp))])
                    }
                    Err(_) => Val::L(vec![Val::I(-1)]),
                },
                None => Val::L(vec![]),
            };
            let loaded = Dictionary::load(&dp);
            let lv = lres_val(&loaded);
            let mut answers = vec![];
            if let Ok(d) = &loaded {
                for (q, norm) in &queries {
                    let m = if *norm {
                        DictionaryDistanceMeasure::NormalizedEditDistance
                    } else {
                        DictionaryDistanceMeasure::EditDistance
                    };
                    let g = d.get(q);
                    let c = d.get_closest(q, m);
                    // the distances `get_closest` works on: the very call it makes, keys in the order of `items()`
                    // (= the order of `&self.inner`: same map, not modified in between)
                    let nq = normalize(q, Normalization::NFKC, true);
                    let keys: Vec<&str> = d.items().map(|(k, _)| k.as_str()).take(256).collect();
                    let a: Vec<&str> = keys.iter().map(|_| nq.as_str()).collect();
                    let ds = text_utils::edit::distances(&a, &keys, true, false, false, *norm).unwrap_or_default();
                    answers.push(Val::L(vec![
                        Val::opt(g, |(f, rel)| Val::L(vec![Val::u(f), f64_val(rel)])),
                        Val::opt(c, |(t, f, rel)| Val::L(vec![bytes(&t), Val::u(f), f64_val(rel)])),
                        Val::L(ds.into_iter().map(f64_val).collect()),
                    ]));
                }
            }
            (reload, lv, Val::L(answers), loaded.is_ok(), loaded.map(|d| d.len()).unwrap_or(0))
        });
        for p in paths.iter().chain([&dict_path, &saved_path]) {
            let _ = std::fs::remove_file(p);
        }
        let out = match rest {
            Ok((reload, lv, answers, lok, llen)) => {
                tags.push(if lok { "load-ok".into() } else { "load-err".into() });
                if lok && llen >= 2 {
                    tags.push("closest-multi".into());
                }
                Val::L(vec![Val::L(creates), reload, lv, answers])
            }
            Err(_) => Val::panic(),
        };
        // tags
        let bad = r.chars && r.cg != 1 && r.cg != 3;
        tags.push(
            if bad {
                "errcfg"
            } else if !r.chars {
                "word"
            } else if r.cg == 1 {
                "char1"
            } else {
                "char3"
            }
            .into(),
        );
        let counted: usize =
            r.files.iter().map(|fb| lossy_lines(fb).len()).sum::<usize>().min(r.max_seq.unwrap_or(usize::MAX));
        if r.files.iter().any(|fb| has_invalid_line(fb)) {
            tags.push("invalid-utf8".into());
        }
        if r.files.iter().any(|fb| fb.windows(2).any(|w| w == b"\r\n")) {
            tags.push("crlf".into());
        }
        if r.files.iter().any(|fb| fb.starts_with(&[0xEF, 0xBB, 0xBF])) {
            tags.push("bom".into());
        }
        if r.files.iter().any(|fb| fb.contains(&0)) {
            tags.push("nul".into());
        }
        if r.files.iter().any(|fb| !fb.is_empty() && fb.last() != Some(&b'\n')) {
            tags.push("no-final-nl".into());
        }
        if r.files.iter().any(|fb| fb.split(|b| *b == b'\n').any(|l| l.len() > 8192)) {
            tags.push("longline".into());
        }
        if std::str::from_utf8(&r.dfile).is_err() {
            tags.push("dfile-invalid".into());
        }
        if r.dfile.split(|b| *b == b'\n').any(|l| l.len() > 1100) {
            tags.push("near-tie".into());
            if r.dfile.split(|b| *b == b'\n').any(|l| l.len() > 4100) {
                tags.push("near-tie-f32".into());
            }
        }
        if !r.chars && r.max_size.map_or(false, |k| (1..=3).contains(&k)) && r.files.iter().any(|fb| fb.windows(3).any(|w| w == b"haa")) {
            tags.push("longtail".into());
        }
        if let Some(d) = &first {
            let n = d.len();
            match r.max_size {
                None => tags.push("ms-none".into()),
                Some(0) => tags.push("ms-0".into()),
                Some(k) if k == n => tags.push("ms-cut".into()),
                Some(_) => tags.push("ms-all".into()),
            }
            if counted >= 2 && n >= 2 && d.items().any(|(_, f)| *f >= 2) {
                tags.push("nt".into());
            }
            // does the cut fall inside a frequency tie (then the word order decides)?
            if let Some(k) = r.max_size {
                if k > 0 && k == n {
                    let ps = self.write_files(&r);
                    if let Ok(Ok(full)) = std::panic::catch_unwind(|| {
                        Dictionary::create(&ps, Some(100_000), r.max_seq, 0, r.chars, r.cg as u8, false)
                    }) {
                        let min_kept = d.items().map(|(_, f)| *f).min().unwrap_or(0);
                        let max_omitted = full
                            .items()
                            .filter(|(w, _)| !d.items().any(|(k, _)| k == *w))
                            .map(|(_, f)| *f)
                            .max();
                        if full.len() > n {
                            tags.push("cut-active".into());
                        }
                        if max_omitted == Some(min_kept) {
                            tags.push("cut-tie".into());
                        }
                    }
                    for p in ps {
                        let _ = std::fs::remove_file(p);
                    }
                }
            }
        }
        // ties in get_closest (tagging only): several keys at minimal distance / with equal top frequency
        if let Ok(s) = std::str::from_utf8(&r.dfile) {
            let entries: Vec<(&str, usize)> = s
                .lines()
                .filter_map(|l| {
                    let mut it = l.trim().split('\t');
                    Some((it.next()?, it.next()?.parse().ok()?))
                })
                .collect();
            if tags.iter().any(|t| t == "load-ok") && entries.len() >= 2 {
                for (q, norm) in &r.queries {
                    let nq = normalize(q, Normalization::NFKC, true);
                    let ds: Vec<f64> = entries
                        .iter()
                        .map(|(k, _)| text_utils::edit::distance(&nq, k, true, false, false, *norm))
                        .collect();
                    let m = ds.iter().cloned().fold(f64::INFINITY, f64::min);
                    let at_min: Vec<usize> = (0..ds.len()).filter(|i| ds[*i] == m).map(|i| entries[i].1).collect();
                    if at_min.len() >= 2 {
                        tags.push("closest-dtie".into());
                        let top = *at_min.iter().max().unwrap();
                        if at_min.iter().filter(|f| **f == top).count() >= 2 {
                            tags.push("closest-ftie".into());
                        }
                        if at_min.iter().any(|f| *f != top) {
                            tags.push("closest-fdecides".into());
                        }
                    }
                }
            }
        }
        if r.threads.iter().any(|t| *t >= 2) {
            tags.push("mt".into());
        }
        if !r.probes.is_empty() {
            tags.push("clsprobe".into());
        }
        if r.threads.len() >= 2 {
            tags.push("builds2".into());
        }
        if let Some(d) = &first {
            if d.items().any(|(k, _)| k.starts_with('#') || k.starts_with(';') || k.starts_with("//")) {
                tags.push("marker-key".into());
            }
        }
        Some((out, tags))
    }

    /// Small scope, complete: every corpus of <= 3 lines of <= 2 words over {a, b, ab}
    /// x max_size {None, 0, 1, 2, 3} x max_sequences {None, 2} x {word, char1, char3}, threads {0, 2};
    /// paired round-robin with every dictionary file of <= 3 entries over keys {a, ab, b} x freqs {1, 2},
    /// each queried with {a, b, ab, ac} under both measures.
    fn exhaustive(&mut self, _tier: Tier) -> Vec<Val> {
        let raws = exhaustive_raws();
        raws.iter().map(|r| self.to_val(r)).collect()
    }

    /// only the shard's own cases get their oracles computed (the class sweep alone is 17 376 cases whose oracle
    /// calls compile a regex per cluster)
    fn exhaustive_shard(&mut self, _tier: Tier, k: usize, m: usize) -> Option<Vec<Val>> {
        let raws = exhaustive_raws();
        Some(raws.iter().enumerate().filter(|(i, _)| i % m == k).map(|(_, r)| self.to_val(r)).collect())
    }

    fn selfcheck(&mut self) -> Vec<String> {
        self.selfcheck_impl()
    }
}

fn exhaustive_raws() -> Vec<Raw> {
    {
        let vocab = ["a", "b", "ab"];
        let mut lines: Vec<String> = vec![String::new()];
        for a in vocab {
            lines.push(a.to_string());
            for b in vocab {
                lines.push(format!("{a} {b}"));
            }
        }
        let mut corpora: Vec<Vec<String>> = vec![vec![]];
        let mut last: Vec<Vec<String>> = vec![vec![]];
        for _ in 0..3 {
            let mut next = vec![];
            for c in &last {
                for l in &lines {
                    let mut c2 = c.clone();
                    c2.push(l.clone());
                    next.push(c2);
                }
            }
            corpora.extend(next.iter().cloned());
            last = next;
        }
        let ents: Vec<String> = ["a", "ab", "b"]
            .iter()
            .flat_map(|k| [1, 2].iter().map(move |f| format!("{k}\t{f}\n")))
            .collect();
        let mut dfiles: Vec<String> = vec![String::new()];
        let mut lastd: Vec<String> = vec![String::new()];
        for _ in 0..3 {
            let mut next = vec![];
            for d in &lastd {
                for e in &ents {
                    next.push(format!("{d}{e}"));
                }
            }
            dfiles.extend(next.iter().cloned());
            lastd = next;
        }
        let queries: Vec<(String, bool)> = ["a", "b", "ab", "ac"]
            .iter()
            .flat_map(|q| [false, true].iter().map(move |n| (q.to_string(), *n)))
            .collect();
        let mut out = vec![];
        let mut k = 0usize;
        for c in &corpora {
            for ms in [None, Some(0), Some(1), Some(2), Some(3)] {
                for mq in [None, Some(2)] {
                    for (chars, cg) in [(false, 1), (true, 1), (true, 3)] {
                        let files = if c.len() >= 2 && k % 2 == 0 {
                            vec![(true, c[..1].to_vec()), (k % 4 == 0, c[1..].to_vec())]
                        } else {
                            vec![(true, c.clone())]
                        };
                        let files = files
                            .into_iter()
                            .map(|(nl, l)| join_lines(&l, nl || l.last().map_or(true, |s: &String| s.is_empty())))
                            .collect();
                        let r = Raw {
                            chars,
                            cg,
                            max_size: ms,
                            max_seq: mq,
                            threads: vec![0, 2],
                            files,
                            arr: vec![k % 3, k % 2],
                            hp: vec![k % 5, k % 3, 1],
                            dfile: dfiles[k % dfiles.len()].clone().into_bytes(),
                            queries: queries.clone(),
                            probes: vec![],
                        };
                        out.push(r);
                        k += 1;
                    }
                }
            }
        }
        // the class sweep: the probes around ALL scalar values, 64 per case, nothing else in the case
        let mut c = 0u32;
        while c <= 0x10FFFF {
            let probes: Vec<String> = (c..c + 64).filter_map(char::from_u32).map(cls_probe).collect();
            if !probes.is_empty() {
                let r = Raw {
                    chars: false,
                    cg: 1,
                    max_size: None,
                    max_seq: None,
                    threads: vec![],
                    files: vec![],
                    arr: vec![],
                    hp: vec![],
                    dfile: Vec::new(),
                    queries: vec![],
                    probes,
                };
                out.push(r);
            }
            c += 64;
        }
        out
    }
}

impl C20 {
    fn selfcheck_impl(&mut self) -> Vec<String> {
        let mut errs = ws_table_selfcheck();
        // the model's tables must be the translation of the installed sources
        let md = env!("CARGO_MANIFEST_DIR");
        for rel in ["..", "../.."] {
            let root = std::path::Path::new(md).join(rel);
            let p = root.join("tools/gen_ucd.py");
            if p.exists() {
                match std::process::Command::new("python3").arg(&p).arg("--check").output() {
                    Ok(o) if o.status.success() => {}
                    Ok(o) => errs.push(format!(
                        "tools/gen_ucd.py --check: {} {}",
                        String::from_utf8_lossy(&o.stdout).trim(),
                        String::from_utf8_lossy(&o.stderr).trim().lines().last().unwrap_or("")
                    )),
                    Err(e) => errs.push(format!("tools/gen_ucd.py --check could not run: {e}")),
                }
                let (x, y, z) = char::UNICODE_VERSION;
                let want = format!("Definition std_unicode_version : N * N * N := ({x}, {y}, {z})%N.");
                match std::fs::read_to_string(root.join("coq/theories/UCD_Table.v")) {
                    Ok(t) if t.contains(&want) => {}
                    Ok(_) => errs.push(format!("UCD_Table.v is not of the Unicode version {x}.{y}.{z} of the running std")),
                    Err(e) => errs.push(format!("UCD_Table.v unreadable: {e}")),
                }
                break;
            }
        }
        errs
    }
}

fn main() {
    main_loop(C20::new());
}

//! C12: edit::distance / prefix_distance / operations / distances against the model.
//! input  = (g swap sid norm a b na nb)   a, b as cluster lists from the real CharString;
//!          `distances` is called on the first na of [a,b,a] and the first nb of [b,a,b] (na, nb <= 3), or on
//!          a large batch alternating between the text and its first character (na, nb > 3)
//! output = (dist pdist ops dists)        dist/pdist: the f64 as the fields of its 64 bits (k s m e),
//!          compared bit for bit with the binary64 model; ops: ((op i j) ..) op 0..3 = Insert Delete
//!          Replace Swap; dists: option of a list of floats (None = Err)
use text_utils::edit::{distance, distances, operations, prefix_distance, EditOperation};
use vh::*;

struct C12;

/// an f64 as the fields of `to_bits`: (k s m e) — k = 0 zero, 1 finite non-zero (value m * 2^e with the
/// canonical 53-bit or subnormal mantissa), 2 infinity, 3 NaN; s = 1 for negative.  The model's `fl_v`
/// prints the same fields, so equality of the values is equality of the 64 bits.
fn f64_val(x: f64) -> Val {
    let bits = x.to_bits();
    let s = (bits >> 63) as i64;
    let exp = ((bits >> 52) & 0x7ff) as i64;
    let frac = (bits & ((1u64 << 52) - 1)) as i64;
    let l = |k: i64, s: i64, m: i64, e: i64| Val::L(vec![Val::I(k), Val::I(s), Val::I(m), Val::I(e)]);
    if exp == 0x7ff {
        if frac == 0 {
            l(2, s, 0, 0)
        } else {
            l(3, 0, 0, 0)
        }
    } else if exp == 0 {
        if frac == 0 {
            l(0, s, 0, 0)
        } else {
            l(1, s, frac, -1074)
        }
    } else {
        l(1, s, frac | (1i64 << 52), exp - 1075)
    }
}

fn op_val(o: &(EditOperation, usize, usize)) -> Val {
    let k = match o.0 {
        EditOperation::Insert => 0,
        EditOperation::Delete => 1,
        EditOperation::Replace => 2,
        EditOperation::Swap => 3,
    };
    Val::L(vec![Val::I(k), Val::u(o.1), Val::u(o.2)])
}

/// main alphabet, weighted: a, b, ' ' 2/9 each; ä, e+U+0301 and NBSP (a second, multi-byte
/// whitespace, so that whitespace-for-whitespace replacement is exercised) 1/9 each
const MAIN: &[&str] = &["a", "b", "a", "b", " ", " ", "ä", "e\u{301}", "\u{a0}"];
/// the second line: code points whose clustering depends on the neighbours (Regional_Indicator, Hangul L / V,
/// Prepend, ZWJ, Indic consonant and virama, an emoji) — the cluster lists are compared with the model's own
/// segmenter (`uax29_agree`), so these exercise the segmenter correspondence on edit-distance inputs
const EDGE: &[&str] = &[
    "a", "b", " ", "c", "\t", "\u{a0}", "\r\n", " \u{301}", "\u{301}", "\u{3000}", "ä", "e\u{301}", "e", "\n",
    "🇩", "\u{1100}", "\u{1161}", "\u{600}", "\u{200d}", "क", "\u{94d}", "👩",
];

fn unit(rng: &mut Rng, edge: bool) -> &'static str {
    if edge || rng.chance(1, 12) {
        *rng.pick(EDGE)
    } else {
        *rng.pick(MAIN)
    }
}

fn rand_units(rng: &mut Rng, n: usize, edge: bool) -> Vec<&'static str> {
    (0..n).map(|_| unit(rng, edge)).collect()
}

fn mutate(rng: &mut Rng, a: &[&'static str], edge: bool) -> Vec<&'static str> {
    let mut b: Vec<&'static str> = a.to_vec();
    let k = rng.range(1, 4);
    for _ in 0..k {
        match rng.below(5) {
            0 | 1 if b.len() >= 2 => {
                // adjacent transposition
                let p = rng.below(b.len() - 1);
                b.swap(p, p + 1);
            }
            2 if !b.is_empty() => {
                let p = rng.below(b.len());
                b.remove(p);
            }
            3 if !b.is_empty() => {
                let p = rng.below(b.len());
                b[p] = unit(rng, edge);
            }
            _ => {
                let p = rng.below(b.len() + 1);
                b.insert(p, unit(rng, edge));
            }
        }
    }
    b.truncate(9);
    b
}

fn mk_input(g: bool, swap: bool, sid: bool, norm: bool, a: &str, b: &str, na: usize, nb: usize) -> Val {
    Val::L(vec![
        Val::b(g),
        Val::b(swap),
        Val::b(sid),
        Val::b(norm),
        Val::clusters(a, g),
        Val::clusters(b, g),
        Val::u(na),
        Val::u(nb),
    ])
}

/// `k` random edits (transposition, delete, replace, insert) anywhere in `b`
fn edit_anywhere(rng: &mut Rng, b: &mut Vec<&'static str>, k: usize) {
    for _ in 0..k {
        match rng.below(4) {
            0 if b.len() >= 2 => {
                let p = rng.below(b.len() - 1);
                b.swap(p, p + 1);
            }
            1 if !b.is_empty() => {
                let p = rng.below(b.len());
                b.remove(p);
            }
            2 if !b.is_empty() => {
                let p = rng.below(b.len());
                b[p] = unit(rng, false);
            }
            _ => {
                let p = rng.below(b.len() + 1);
                b.insert(p, unit(rng, false));
            }
        }
    }
}

/// the long-string stream (the model side is the binary-number dynamic programme of C12_Fast.v alone).
/// `lo..=hi` = length of the long text in units; both texts long for the first three kinds.
fn long_pair(rng: &mut Rng, lo: usize, hi: usize, short_hi: usize, kind: usize) -> (Vec<&'static str>, Vec<&'static str>) {
    let n = rng.range(lo, hi);
    match kind {
        0 => {
            // near-identical: 1..8 edits anywhere
            let a = rand_units(rng, n, false);
            let mut b = a.clone();
            let k = rng.range(1, 8);
            edit_anywhere(rng, &mut b, k);
            (a, b)
        }
        1 => {
            // a block moved (and one more edit half of the time)
            let a = rand_units(rng, n, false);
            let len = rng.range(2, (n / 12).max(2));
            let from = rng.below(n - len + 1);
            let mut b = a.clone();
            let block: Vec<&'static str> = b.drain(from..from + len).collect();
            let to = rng.below(b.len() + 1);
            let tail = b.split_off(to);
            b.extend(block);
            b.extend(tail);
            if rng.chance(1, 2) {
                edit_anywhere(rng, &mut b, 1);
            }
            (a, b)
        }
        2 => {
            // whitespace-only differences: spaces (or NBSP) inserted / removed at about 1 position in 60
            let a = rand_units(rng, n, false);
            let mut b: Vec<&'static str> = vec![];
            for u in &a {
                let ws = *u == " " || *u == "\u{a0}";
                if ws && rng.chance(1, 20) {
                    continue;
                }
                b.push(*u);
                if rng.chance(1, 60) {
                    b.push(if rng.chance(1, 4) { "\u{a0}" } else { " " });
                }
            }
            (a, b)
        }
        3 => {
            // long against short (either could be empty); half of the time the short text is written in letters the
            // long one does not contain (otherwise it is almost surely a subsequence of the long text and the distance
            // is just the length difference, which a lower-bound shortcut would also return)
            let m = rng.below(short_hi + 1);
            let short: Vec<&'static str> = if rng.chance(1, 2) {
                (0..m).map(|_| *rng.pick(&["x", "y", "z", " ", "x"])).collect()
            } else {
                rand_units(rng, m, false)
            };
            (rand_units(rng, n, false), short)
        }
        4 => {
            // long against a short EXCERPT with a few edits (the prefix distance is small)
            let a = rand_units(rng, n, false);
            let m = rng.range(1, short_hi.max(1)).min(n);
            let from = if rng.chance(1, 2) { 0 } else { rng.below(n - m + 1) };
            let mut b = a[from..from + m].to_vec();
            let k = rng.below(4);
            edit_anywhere(rng, &mut b, k);
            (a, b)
        }
        _ => {
            // independent texts, both of half the length: long scripts, large numbers
            let m = rng.range(lo / 2, hi / 2);
            (rand_units(rng, n / 2, false), rand_units(rng, m, false))
        }
    }
}

impl Prop for C12 {
    fn gen(&mut self, rng: &mut Rng, tier: Tier, i: usize, _n: usize) -> Val {
        // the long-string stream: 1 case in 400 with texts of 2000..2200 units each (kinds 0-2, 5: halves) or
        // 5000..20000 units against at most 40 (kinds 3, 4); 1 case in 25 of middle size (50..400 units; against
        // at most 60 for kinds 3, 4).  Flags drawn at random (the index is fixed modulo 16).
        // (thorough tier, 300 000 cases: 1 in 4000 long and 1 in 100 of middle size — the same absolute order of
        // magnitude of model time as the rest of the run; at the quick rates it did not finish within 33 minutes)
        let (every_long, every_mid) = match tier {
            Tier::Quick => (400, 25),
            Tier::Thorough => (4000, 100),
        };
        if i % every_long == 199 || i % every_mid == 12 {
            let long = i % every_long == 199;
            let fl = rng.below(16);
            let (g, swap, sid, norm) = (fl & 1 != 0, fl & 2 != 0, fl & 4 != 0, fl & 8 != 0);
            let kind = rng.below(6);
            let (a, b) = if !long {
                long_pair(rng, 50, 400, 60, kind)
            } else if kind == 3 || kind == 4 {
                long_pair(rng, 5000, 20000, 40, kind)
            } else {
                long_pair(rng, 2000, 2200, 40, kind)
            };
            let (a, b) = if rng.chance(1, 2) { (a, b) } else { (b, a) };
            // distances(): usually one pair or none; 1 in 5 a batch of 4..6 alternating between the whole texts and
            // their first characters (long and short pairs mixed); 1 in 10 unequal lengths (Err)
            // (two long texts: at most 4, i.e. two long pairs — every long pair is one more matrix for the model's run
            // and one more for its check, and the model has 20 s of CPU per case)
            let both_long = long && kind != 3 && kind != 4;
            let na = if rng.chance(1, 5) {
                if both_long { 4 } else { rng.range(4, 6) }
            } else {
                rng.below(if both_long { 2 } else { 3 })
            };
            let nb = if rng.chance(1, 10) { na + 1 } else { na };
            return mk_input(g, swap, sid, norm, &a.concat(), &b.concat(), na, nb);
        }
        // all 16 flag combinations in turn
        let fl = i % 16;
        let (g, swap, sid, norm) = (fl & 1 != 0, fl & 2 != 0, fl & 4 != 0, fl & 8 != 0);
        let stream = rng.below(100);
        let (a, b): (Vec<&str>, Vec<&str>) = if stream < 30 {
            let n = rng.below(10);
            let a = rand_units(rng, n, false);
            let b = mutate(rng, &a, false);
            if rng.chance(1, 2) { (a, b) } else { (b, a) }
        } else if stream < 55 {
            // transposition-rich: 1-3 adjacent transpositions (possibly overlapping, which
            // optimal string alignment cannot undo with swaps alone), half the time one more edit
            let n = rng.range(2, 9);
            let a = rand_units(rng, n, false);
            let mut b = a.clone();
            for _ in 0..rng.range(1, 3) {
                let p = rng.below(b.len() - 1);
                b.swap(p, p + 1);
            }
            if rng.chance(1, 2) {
                let p = rng.below(b.len() + 1);
                match rng.below(3) {
                    0 => b.insert(p, unit(rng, false)),
                    1 if p < b.len() => {
                        b.remove(p);
                    }
                    _ if p < b.len() => b[p] = unit(rng, false),
                    _ => {}
                }
                b.truncate(9);
            }
            if rng.chance(1, 2) { (a, b) } else { (b, a) }
        } else if stream < 80 {
            let (n, m) = (rng.below(10), rng.below(10));
            (rand_units(rng, n, false), rand_units(rng, m, false))
        } else if stream < 85 {
            let n = rng.below(10);
            let a = rand_units(rng, n, false);
            (a.clone(), a)
        } else {
            match rng.below(6) {
                0 => (vec![], vec![]),
                1 => {
                    let n = rng.below(4);
                    (vec![], rand_units(rng, n, true))
                }
                2 => {
                    let n = rng.below(4);
                    (rand_units(rng, n, true), vec![])
                }
                3 => {
                    // whitespace only against letters (KF2 territory)
                    let n = rng.range(1, 4);
                    let m = rng.range(1, 4);
                    ((0..n).map(|_| " ").collect(), (0..m).map(|_| *rng.pick(&MAIN[0..2])).collect())
                }
                4 => {
                    let n = rng.below(10);
                    let a = rand_units(rng, n, true);
                    let b = mutate(rng, &a, true);
                    (a, b)
                }
                _ => {
                    let (n, m) = (rng.below(10), rng.below(10));
                    (rand_units(rng, n, true), rand_units(rng, m, true))
                }
            }
        };
        // one pair in eight is made pure ASCII (the shape on which an `is_ascii()` shortcut would be taken): the
        // multi-code-point cluster becomes CR LF (one cluster in grapheme mode), the multi-byte ones single bytes
        let (a, b) = if rng.chance(1, 8) {
            let asc = |u: &&'static str| -> &'static str {
                match *u {
                    "ä" => "c",
                    "e\u{301}" | " \u{301}" => "\r\n",
                    "\u{a0}" | "\u{3000}" => "\t",
                    "\u{301}" => "\n",
                    x => x,
                }
            };
            (a.iter().map(asc).collect::<Vec<_>>(), b.iter().map(asc).collect::<Vec<_>>())
        } else {
            (a, b)
        };
        let mut na = if rng.chance(1, 2) { 1 } else { rng.below(4) };
        let mut nb = if rng.chance(1, 8) { rng.below(4) } else { na };
        if rng.chance(1, 16) {
            // a large batch: more pairs than worker threads, big and small matrices alternating
            na = if rng.chance(1, 2) { rng.range(36, 100) } else { rng.range(300, 700) };
            nb = if rng.chance(1, 10) { na - 1 } else { na };
        }
        mk_input(g, swap, sid, norm, &a.concat(), &b.concat(), na, nb)
    }

    fn exhaustive(&mut self, _tier: Tier) -> Vec<Val> {
        // all pairs of strings of length <= 4 over {a, b, ' '} x (swap, sid, norm)
        let alpha = ['a', 'b', ' '];
        let mut strs = vec![String::new()];
        let mut last = vec![String::new()];
        for _ in 0..4 {
            let mut next = vec![];
            for s in &last {
                for c in alpha {
                    let mut t = s.clone();
                    t.push(c);
                    next.push(t);
                }
            }
            strs.extend(next.iter().cloned());
            last = next;
        }
        let mut out = vec![];
        for fl in 0..8 {
            for a in &strs {
                for b in &strs {
                    out.push(mk_input(false, fl & 1 != 0, fl & 2 != 0, fl & 4 != 0, a, b, 1, 1));
                }
            }
        }
        out
    }

    fn run(&mut self, input: &Val) -> Option<(Val, Vec<String>)> {
        let l = input.as_l()?;
        if l.len() != 8 {
            return None;
        }
        let g = l[0].as_bool()?;
        let swap = l[1].as_bool()?;
        let sid = l[2].as_bool()?;
        let norm = l[3].as_bool()?;
        let a = l[4].clusters_to_string()?;
        let b = l[5].clusters_to_string()?;
        // the cluster lists must be what the real segmenter produces
        if Val::clusters(&a, g) != l[4] || Val::clusters(&b, g) != l[5] {
            return None;
        }
        let na = l[6].as_usize()?;
        let nb = l[7].as_usize()?;
        if na > 1024 || nb > 1024 {
            return None;
        }
        // up to three elements: prefixes of [a,b,a] / [b,a,b]; more: a large batch alternating between the whole
        // text and its first character (`batch_list` of the model)
        let batch = |x: &String, y: &String, xv: &Val, n: usize| -> Vec<String> {
            if n <= 3 {
                [x, y, x].iter().take(n).map(|s| s.to_string()).collect()
            } else {
                let first = xv.as_l().and_then(|l| l.first()).and_then(|c| c.to_string_lossy()).unwrap_or_default();
                (0..n).map(|k| if k % 2 == 0 { x.clone() } else { first.clone() }).collect()
            }
        };
        let la: Vec<String> = batch(&a, &b, &l[4], na);
        let lb: Vec<String> = batch(&b, &a, &l[5], nb);
        let (a2, b2) = (a.clone(), b.clone());
        let kf2_flag = std::sync::Arc::new(std::sync::atomic::AtomicBool::new(false));
        let kf2_w = kf2_flag.clone();
        let out = guard(move || {
            let d = distance(&a2, &b2, g, swap, sid, norm);
            kf2_w.store(d > 1.0, std::sync::atomic::Ordering::SeqCst);
            let pd = prefix_distance(&a2, &b2, g, swap, sid, norm);
            let ops = operations(&a2, &b2, g, swap, sid);
            let ds = distances(&la, &lb, g, swap, sid, norm).ok();
            Val::L(vec![
                f64_val(d),
                f64_val(pd),
                Val::list(ops.iter(), op_val),
                Val::opt(ds, |v| Val::list(v.iter(), |x| f64_val(*x))),
            ])
        });
        let kf2 = kf2_flag.load(std::sync::atomic::Ordering::SeqCst);
        let mut tags: Vec<String> = vec![];
        tags.push(if g { "g" } else { "cp" }.into());
        if swap {
            tags.push("swap".into());
        }
        if sid {
            tags.push("sid".into());
        }
        if norm {
            tags.push("norm".into());
        }
        // KF2 class: spaces_insert_delete_only, normalized, result > 1
        if sid && norm && kf2 {
            tags.push("class:KF2".into());
        }
        // non-trivial: different texts of >= 2 characters each whose script has >= 2 operations
        let (ca, cb) = (l[4].as_l()?.len(), l[5].as_l()?.len());
        let nops = out.nth(2).and_then(|v| v.as_l()).map(|v| v.len()).unwrap_or(0);
        if a != b && ca >= 2 && cb >= 2 && nops >= 2 {
            tags.push("nt".into());
        }
        // the model's size threshold (`big` of C12_FastRun.v): above it the fast model runs alone
        if ca + cb > 48 {
            tags.push("fast-only".into());
        }
        if ca.max(cb) >= 2000 {
            tags.push("long".into());
        }
        if let Some(ops) = out.nth(2).and_then(|v| v.as_l()) {
            if ops.iter().any(|o| o.nth(0).and_then(|v| v.as_i()) == Some(3)) {
                tags.push("has-swap".into());
            }
        }
        Some((out, tags))
    }

    fn canon(&mut self, input: &Val) -> Option<Val> {
        let l = input.as_l()?;
        if l.len() != 8 {
            return None;
        }
        let g = l[0].as_bool()?;
        let a = l[4].clusters_to_string()?;
        let b = l[5].clusters_to_string()?;
        Some(Val::L(vec![
            Val::b(g),
            Val::b(l[1].as_bool()?),
            Val::b(l[2].as_bool()?),
            Val::b(l[3].as_bool()?),
            Val::clusters(&a, g),
            Val::clusters(&b, g),
            Val::u(l[6].as_usize()?.min(1024)),
            Val::u(l[7].as_usize()?.min(1024)),
        ]))
    }

    fn selfcheck(&mut self) -> Vec<String> {
        ws_table_selfcheck()
    }
}

fn main() {
    main_loop(C12);
}

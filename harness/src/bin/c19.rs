//! C19: train_bpe against the recount-based greedy trainer of C19_Model.v.
//! input  = (vocab_size nspecial norm threads maxlines? files proc ntok tests)
//!          files: raw lines per file; proc: the lines as train_bpe sees them
//!          (read back with BufRead::lines, real clean + normalize) — oracle field,
//!          re-derived by `canon`; ntok: special tokens of the tokenizer built from
//!          the table; tests: strings for the round trip
//!          A raw line is a list of integers: a code point (>= 0, written as its UTF-8), a raw byte b as -(b+1)
//!          (so lines that are NOT UTF-8 can be written: BufRead::lines returns Err for them, train_bpe skips them
//!          AFTER take(max_lines_per_file)), and -1000 as last item of the last line of a file = no newline after it.
//!          proc has one entry per line lines() yields: the processed line, or (-1) for a line that is not UTF-8.
//!          The model reads the bytes itself (C19_Lines.v: split at 0x0A, strip 0x0D, strict UTF-8 decoder).
//! output = (table toks vsize vocab t2i trace nfside file)
//!          file = the bytes of the merge file train_bpe wrote (MessagePack); the model decodes them itself
//!          (MsgPack_Model.v) and requires: nothing follows the map, re-encoding the entries in file order
//!          gives the same bytes, the decoded map = `table` (the real MergeOps::load, sorted by id)
//!          trace = (vocab stats steps): observed through the `verif` hook of train_bpe
//!          (text_utils::verif::BpeObserver): the vocabulary in the index order the code
//!          built it, the initial pair statistics, and per merge (first second vocab stats)
//!          = the chosen pair and the vocabulary / statistics after update_stats.
//!          vocab = ((word count) …), word = list of tokens; stats = (((first second) freq
//!          ((idx occ) …)) …) sorted by pair, counters sorted by word index.
//! Normalisation inside the model (NFKC_Model.v, NFKC_Tie.v): an optional 10th input field `side` holds
//! strings; field 6 of the output then holds, per string, (nfc nfd nfkc nfkd g_nfc g_nfd g_nfkc g_nfkd)
//! = text_utils::unicode::normalize(s, form, false) and, as options (`()` = equal to the code-point-mode
//! result), normalize(s, form, true). `agree` requires the model's own normalize_model to equal them, and
//! the model's own BufRead::lines + clean + normalize of the raw lines (field 5) to equal `proc`.
//! Streams for that: `nfkc` (normalisation-stress lines as corpus AND side strings), `nfprobe` (64 probe
//! strings around random scalar values; ALL scalar values in `gen --exhaustive`).
//! Every training runs in a child process (`c19 train-child …`): train_bpe installs
//! a process-wide panic hook that prints to stdout and leaves worker threads behind.
use std::io::{BufRead, Write};
use std::path::{Path, PathBuf};
use std::process::{Command, Stdio};
use text_utils::text::clean;
use text_utils::tokenization::{
    train_bpe, BPETokenizer, BPETokenizerConfig, MergeOps, SpecialConfig, Tokenize,
};
use text_utils::unicode::{normalize, Normalization};
use text_utils::utils::SerializeMsgPack;
use vh::*;

#[path = "../nfkc_draw.rs"]
mod nfkc_draw;
use nfkc_draw::{CANON, CCC, COMP, COMPAT};

struct C19 {
    dir: PathBuf,
    ctr: usize,
    draw: Option<Draw>,
}

/// sets the normalisation-stress stream draws from (derived once from nfkc_draw.rs)
struct Draw {
    /// marks grouped by canonical combining class
    by_class: Vec<(u8, Vec<u32>)>,
    /// canonical singletons (decomposition of length 1)
    singletons: Vec<u32>,
    /// canonical composites that NFC does not give back (composition exclusions, non-starter decompositions)
    not_recomposed: Vec<u32>,
    /// keys whose decomposition starts with a non-starter
    nonstarter_first: Vec<u32>,
    /// compatibility keys with an expansion of five or more code points
    long: Vec<u32>,
}

/// code points whose NFKC contains White_Space although they are not (KF3)
const KF3: &[u32] = &[
    0xA8, 0xAF, 0xB4, 0xB8, 0x2D8, 0x2D9, 0x2DA, 0x2DB, 0x2DC, 0x2DD, 0x37A, 0x384, 0x385, 0x1FBD, 0x1FBF, 0x1FC0,
    0x1FC1, 0x1FCD, 0x1FED, 0x1FFD, 0x1FFE, 0x2017, 0x203E, 0x309B, 0x309C, 0xFC5E, 0xFDFA, 0xFDFB, 0xFE49, 0xFE70,
    0xFE7E, 0xFFE3,
];

const N_SCALARS: u32 = 0x110000 - 0x800;
/// k-th scalar value (surrogates skipped)
fn scalar(k: u32) -> u32 {
    if k < 0xD800 {
        k
    } else {
        k + 0x800
    }
}

fn ch(c: u32) -> char {
    char::from_u32(c).unwrap_or(if c < 0xDC00 { '\u{D7FF}' } else { '\u{E000}' })
}

/// The probe strings around code point `c`, separated by U+000A (a starter that never composes and
/// is a grapheme cluster of its own, so the probes do not interact) — keep in step with
/// tools/gen_nfkc.py:probe_text.
///  c                     the decomposition of c and whether NFC / NFKC give it back
///  a c                   c as a mark on a starter (composition with `a`, cluster joining)
///  c U+0301              c (or the last starter of its decomposition) as the composee
///  C c U+0327 U+0301     reordering against classes 202 / 230, blocked and unblocked composition
///                        (C + cedilla + acute = U+1E08 when nothing is in the way)
///  U+1100 c U+11A8       Hangul: c as V (L+V, LV+T) or as an LV syllable after L
///  U+AC00 c              c as T after an LV syllable (U+11A7 must not compose)
///  c U+1161 U+11A8       c as L
///  a U+0316 c U+0301     a starter c behind a buffered mark is blocked and flushes the buffer;
///                        a mark c is sorted around class 220
fn probe_text(c: u32) -> String {
    let c = ch(c);
    let mut s = String::new();
    for (k, (pre, post)) in [
        ("", ""),
        ("a", ""),
        ("", "\u{301}"),
        ("C", "\u{327}\u{301}"),
        ("\u{1100}", "\u{11A8}"),
        ("\u{AC00}", ""),
        ("", "\u{1161}\u{11A8}"),
        ("a\u{316}", "\u{301}"),
    ]
    .iter()
    .enumerate()
    {
        if k > 0 {
            s.push('\n');
        }
        s.push_str(pre);
        s.push(c);
        s.push_str(post);
    }
    s
}

const FORMS: [Normalization; 4] = [Normalization::NFC, Normalization::NFD, Normalization::NFKC, Normalization::NFKD];

/// (nfc nfd nfkc nfkd g_nfc g_nfd g_nfkc g_nfkd) of the real crate for one side string
fn side_entry(s: &str) -> Val {
    let plain: Vec<String> = FORMS.iter().map(|f| normalize(s, *f, false)).collect();
    let mut out: Vec<Val> = plain.iter().map(|r| Val::str(r)).collect();
    for (f, r) in FORMS.iter().zip(&plain) {
        let g = normalize(s, *f, true);
        out.push(if g == *r { Val::none() } else { Val::some(Val::str(&g)) });
    }
    Val::L(out)
}

fn norm_of(k: i64) -> Option<Normalization> {
    match k {
        1 => Some(Normalization::NFC),
        2 => Some(Normalization::NFD),
        3 => Some(Normalization::NFKC),
        4 => Some(Normalization::NFKD),
        _ => None,
    }
}

struct Params {
    vocab: usize,
    nspecial: usize,
    norm: i64,
    threads: u8,
    maxlines: Option<usize>,
    /// per file, per line: the bytes and "no newline after this line"
    files: Vec<Vec<(Vec<u8>, bool)>>,
    ntok: usize,
    tests: Vec<String>,
    side: Vec<String>,
}

/// a raw corpus line: code points (>= 0), raw bytes as -(b+1), -1000 as last item = unterminated
fn raw_line(v: &Val) -> Option<(Vec<u8>, bool)> {
    let items = v.as_l()?;
    let mut out = vec![];
    let mut unterminated = false;
    for (k, x) in items.iter().enumerate() {
        let z = x.as_i()?;
        if z >= 0 {
            let c = char::from_u32(u32::try_from(z).ok()?)?;
            let mut b = [0u8; 4];
            out.extend(c.encode_utf8(&mut b).as_bytes());
        } else if z >= -256 {
            out.push((-z - 1) as u8);
        } else if z == -1000 && k + 1 == items.len() {
            unterminated = true;
        } else {
            return None;
        }
    }
    Some((out, unterminated))
}

/// all files of an input; the unterminated marker is only allowed on the last line of a file
fn raw_files(v: &Val) -> Option<Vec<Vec<(Vec<u8>, bool)>>> {
    let mut files = vec![];
    for f in v.as_l()? {
        let lines = f.as_l()?.iter().map(raw_line).collect::<Option<Vec<_>>>()?;
        if lines.iter().enumerate().any(|(k, l)| l.1 && k + 1 != lines.len()) {
            return None;
        }
        files.push(lines);
    }
    Some(files)
}

/// make a (shrunk / hand-written) raw line consistent
fn canon_raw_line(v: &Val, last: bool) -> Option<Val> {
    let items = v.as_l()?;
    let mut out = vec![];
    for (k, x) in items.iter().enumerate() {
        let z = x.as_i()?;
        if z >= 0 {
            out.push(Val::I(if u32::try_from(z).ok().and_then(char::from_u32).is_some() { z } else { 97 }));
        } else if z >= -256 {
            out.push(Val::I(z));
        } else if z == -1000 && last && k + 1 == items.len() {
            out.push(Val::I(z));
        }
    }
    Some(Val::L(out))
}

fn parse_params(input: &Val) -> Option<Params> {
    let l = input.as_l()?;
    if l.len() != 9 && l.len() != 10 {
        return None;
    }
    let side = match l.get(9) {
        Some(v) => v.as_l()?.iter().map(|s| s.to_string_lossy()).collect::<Option<Vec<_>>>()?,
        None => vec![],
    };
    let maxlines = match l[4].as_l()? {
        [] => None,
        [x] => Some(x.as_usize()?),
        _ => return None,
    };
    let files = raw_files(&l[5])?;
    let tests = l[8].as_l()?.iter().map(|s| s.to_string_lossy()).collect::<Option<Vec<_>>>()?;
    Some(Params {
        vocab: l[0].as_usize()?,
        nspecial: l[1].as_usize()?,
        norm: l[2].as_i()?,
        threads: u8::try_from(l[3].as_i()?).ok()?,
        maxlines,
        files,
        ntok: l[7].as_usize()?,
        tests,
        side,
    })
}

fn special_tokens(ntok: usize) -> Vec<String> {
    (0..ntok).map(|i| if i == 0 { "<pad>".to_string() } else { format!("<t{i}>") }).collect()
}

impl C19 {
    fn new() -> Self {
        let dir = PathBuf::from(format!("/tmp/c19/h{}", std::process::id()));
        C19 { dir, ctr: 0, draw: None }
    }

    fn fresh_dir(&mut self) -> PathBuf {
        self.ctr += 1;
        let d = self.dir.join(format!("{}", self.ctr));
        let _ = std::fs::create_dir_all(&d);
        d
    }

    /// write the corpus files; returns their paths
    fn write_files(d: &Path, files: &[Vec<(Vec<u8>, bool)>]) -> Option<Vec<PathBuf>> {
        let mut paths = vec![];
        for (i, lines) in files.iter().enumerate() {
            let p = d.join(format!("f{i}.txt"));
            let mut f = std::fs::File::create(&p).ok()?;
            for (line, unterminated) in lines {
                f.write_all(line).ok()?;
                if !unterminated {
                    f.write_all(b"\n").ok()?;
                }
            }
            paths.push(p);
        }
        Some(paths)
    }

    /// the lines train_bpe's workers process: as read by BufRead::lines, cleaned, normalised
    fn processed(paths: &[PathBuf], norm: i64) -> Option<Val> {
        let mut out = vec![];
        for p in paths {
            let rd = std::io::BufReader::new(std::fs::File::open(p).ok()?);
            let mut lines = vec![];
            for line in rd.lines() {
                // a line that is not UTF-8 is an Err of the iterator (train_bpe's filter_map drops it); the
                // iterator goes on with the next line
                let Ok(line) = line else {
                    lines.push(Val::L(vec![Val::I(-1)]));
                    continue;
                };
                let mut line = clean(&line, true);
                if let Some(n) = norm_of(norm) {
                    line = normalize(&line, n, true);
                }
                lines.push(Val::str(&line));
            }
            out.push(Val::L(lines));
        }
        Some(Val::L(out))
    }

    fn build(&mut self, l: &[Val]) -> Option<Val> {
        // normalise the scalar parameters and re-derive the oracle field
        let vocab = (l[0].as_usize()?.min(1024) / 64) * 64;
        let nspecial = l[1].as_usize()?.min(2048);
        let norm = l[2].as_i()?.clamp(0, 4);
        let threads = l[3].as_i()?.clamp(0, 40);
        let maxlines = match l[4].as_l()? {
            [] => Val::none(),
            [x, ..] => Val::some(Val::u(x.as_usize()?)),
        };
        let files_val = Val::L(
            l[5].as_l()?
                .iter()
                .map(|f| {
                    let ls = f.as_l()?;
                    Some(Val::L(ls.iter().enumerate().map(|(k, x)| canon_raw_line(x, k + 1 == ls.len())).collect::<Option<Vec<_>>>()?))
                })
                .collect::<Option<Vec<_>>>()?,
        );
        let files = raw_files(&files_val)?;
        let ntok = l[7].as_usize()?.clamp(1, 6);
        let tests: Vec<String> =
            l[8].as_l()?.iter().map(|s| s.to_string_lossy()).collect::<Option<Vec<_>>>()?;
        // side strings (optional 10th field; kept only when there are any)
        let side: Vec<String> = match l.get(9) {
            Some(v) => v.as_l()?.iter().map(|s| s.to_string_lossy()).collect::<Option<Vec<_>>>()?,
            None => vec![],
        };
        let d = self.fresh_dir();
        let paths = Self::write_files(&d, &files)?;
        let proc = Self::processed(&paths, norm);
        let _ = std::fs::remove_dir_all(&d);
        let mut out = vec![
            Val::u(vocab),
            Val::u(nspecial),
            Val::I(norm),
            Val::I(threads),
            maxlines,
            files_val,
            proc?,
            Val::u(ntok),
            Val::list(tests.iter(), |s| Val::str(s)),
        ];
        if !side.is_empty() {
            out.push(Val::list(side.iter(), |s| Val::str(s)));
        }
        Some(Val::L(out))
    }
}

/// scalar values per probe case
const PER_CASE: usize = 64;

fn in_table<T>(rng: &mut Rng, t: &[T]) -> usize {
    // uniform over the entries (every block in proportion), the first / last entries preferred
    match rng.below(16) {
        0 => rng.below(2.min(t.len())),
        1 => t.len() - 1 - rng.below(2.min(t.len())),
        _ => rng.below(t.len()),
    }
}

impl C19 {
    fn draw(&mut self) -> &Draw {
        if self.draw.is_none() {
            let mut by_class: Vec<(u8, Vec<u32>)> = vec![];
            for &(c, k) in CCC {
                match by_class.iter_mut().find(|(kk, _)| *kk == k) {
                    Some((_, v)) => v.push(c),
                    None => by_class.push((k, vec![c])),
                }
            }
            by_class.sort();
            let is_mark = |c: u32| CCC.binary_search_by_key(&c, |e| e.0).is_ok();
            let singletons = CANON.iter().filter(|e| e.1.len() == 1).map(|e| e.0).collect();
            let not_recomposed = CANON
                .iter()
                .filter(|e| e.1.len() >= 2)
                .map(|e| e.0)
                .filter(|&c| {
                    let s = ch(c).to_string();
                    normalize(&s, Normalization::NFC, false) != s
                })
                .collect();
            let nonstarter_first =
                CANON.iter().chain(COMPAT.iter()).filter(|e| is_mark(e.1[0])).map(|e| e.0).collect();
            let long = COMPAT.iter().filter(|e| e.1.len() >= 5).map(|e| e.0).collect();
            self.draw = Some(Draw { by_class, singletons, not_recomposed, nonstarter_first, long });
        }
        self.draw.as_ref().unwrap()
    }

    /// a mark: mostly of one of the frequent classes (so that equal classes meet), else of any class
    fn mark(&mut self, rng: &mut Rng) -> u32 {
        let d = self.draw();
        let want: u8 = match rng.below(10) {
            0..=2 => 230,
            3 | 4 => 220,
            5 => 202,
            6 => 1,
            _ => d.by_class[rng.below(d.by_class.len())].0,
        };
        let v = &d.by_class.iter().find(|(k, _)| *k == want).unwrap_or(&d.by_class[0]).1;
        // the common Latin marks are where the composition table is dense
        if rng.chance(1, 2) {
            v[rng.below(v.len().min(24))]
        } else {
            v[rng.below(v.len())]
        }
    }

    /// one unit of a normalisation-stress line
    fn nf_unit(&mut self, rng: &mut Rng, out: &mut String) {
        const BASES: &[u32] = &[0x61, 0x41, 0x43, 0x65, 0x6F, 0x75, 0x73, 0xC5, 0xE7, 0x1EA1, 0x3B1, 0x3C9, 0x415, 0x5D1, 0x627, 0x915, 0x9C7, 0x1100, 0xAC00, 0x304B, 0x1D157, 0x11099];
        match rng.below(31) {
            // keys of the decomposition tables (every block; first / last entries)
            0..=2 => out.push(ch(CANON[in_table(rng, CANON)].0)),
            3..=5 => out.push(ch(COMPAT[in_table(rng, COMPAT)].0)),
            // the decomposition itself, shuffled a little (what NFC / NFKC must put back together)
            6 => {
                let e = if rng.chance(1, 2) { CANON[in_table(rng, CANON)] } else { COMPAT[in_table(rng, COMPAT)] };
                let mut v: Vec<u32> = e.1.to_vec();
                if v.len() >= 3 && rng.chance(1, 2) {
                    let k = 1 + rng.below(v.len() - 2);
                    v.swap(k, k + 1);
                }
                v.iter().for_each(|c| out.push(ch(*c)));
            }
            // the KF3 set: NFKC writes SPACE (+ mark)
            7 | 8 => out.push(ch(*rng.pick(KF3))),
            // Hangul: syllables (LV and LVT), jamo, sequences that compose, T_BASE which must not
            9 | 10 => {
                for _ in 0..rng.range(1, 3) {
                    let c = match rng.below(8) {
                        0 => 0xAC00 + 28 * rng.below(399) as u32,
                        1 => 0xAC00 + rng.below(11172) as u32,
                        2 | 3 => 0x1100 + rng.below(19) as u32,
                        4 | 5 => 0x1161 + rng.below(21) as u32,
                        6 => 0x11A7 + rng.below(28) as u32,
                        _ => *rng.pick(&[0x10FF, 0x1113, 0x1160, 0x1176, 0x11A7, 0x11C3, 0xABFF, 0xD7A3, 0xD7A4, 0x11A8]),
                    };
                    out.push(ch(c));
                }
            }
            // a base and 1-4 marks in arbitrary order: equal and different classes
            11..=14 => {
                out.push(ch(*rng.pick(BASES)));
                for _ in 0..rng.range(1, 4) {
                    let m = self.mark(rng);
                    out.push(ch(m));
                }
            }
            // a composing pair with nothing / a mark of lower, equal or higher class / a starter in between
            15..=17 => {
                let (a, b, _) = COMP[in_table(rng, COMP)];
                out.push(ch(a));
                match rng.below(5) {
                    0 | 1 => {}
                    2 | 3 => {
                        let m = self.mark(rng);
                        out.push(ch(m));
                    }
                    _ => out.push(ch(*rng.pick(BASES))),
                }
                out.push(ch(b));
                if rng.chance(1, 3) {
                    let m = self.mark(rng);
                    out.push(ch(m));
                }
            }
            // a starter blocked by buffered marks, then something that would compose with the first starter
            18 => {
                out.push(ch(*rng.pick(BASES)));
                let m = self.mark(rng);
                out.push(ch(m));
                out.push(ch(*rng.pick(BASES)));
                let m = self.mark(rng);
                out.push(ch(m));
            }
            // ligatures, fullwidth / halfwidth forms
            19 => out.push(ch(0xFB00 + rng.below(7) as u32)),
            20 => out.push(ch(0xFF01 + rng.below(0xEE) as u32)),
            // singletons, composition exclusions, decompositions that start with a non-starter, long expansions
            21 => {
                let v = &self.draw().singletons;
                out.push(ch(v[rng.below(v.len())]));
            }
            22 | 23 => {
                let v = &self.draw().not_recomposed;
                out.push(ch(v[rng.below(v.len())]));
            }
            24 => {
                let v = &self.draw().nonstarter_first;
                out.push(ch(v[rng.below(v.len())]));
                if rng.chance(1, 2) {
                    let m = self.mark(rng);
                    out.push(ch(m));
                }
            }
            25 => {
                let v = &self.draw().long;
                out.push(ch(v[rng.below(v.len())]));
            }
            // compatibility / halfwidth jamo next to jamo and syllables: separate grapheme clusters that
            // compose across the boundary once decomposed — where per-cluster normalisation shows
            26 => {
                for _ in 0..rng.range(2, 3) {
                    let c = match rng.below(7) {
                        0 => 0x3131 + rng.below(30) as u32,
                        1 | 2 => 0x314F + rng.below(21) as u32,
                        3 => 0xFFA1 + rng.below(0x3C) as u32,
                        4 => 0x1100 + rng.below(19) as u32,
                        5 => 0x11A8 + rng.below(27) as u32,
                        _ => 0xAC00 + 28 * rng.below(399) as u32,
                    };
                    out.push(ch(c));
                }
            }
            // anything
            27 => out.push(ch(scalar(rng.below(N_SCALARS as usize) as u32))),
            // whitespace (all 25 code points and CRLF occur), ASCII
            28 => out.push_str(*rng.pick(units::WS)),
            _ => out.push_str(*rng.pick(units::ASCII)),
        }
    }

    fn stress_line(&mut self, rng: &mut Rng) -> String {
        let mut s = String::new();
        for k in 0..rng.range(1, 6) {
            if k > 0 && rng.chance(1, 3) {
                s.push(' ');
            }
            self.nf_unit(rng, &mut s);
        }
        s
    }

    /// a training whose corpus lines are normalisation-stress lines (train_bpe cleans and normalises
    /// them in grapheme mode with the chosen form) and which carries them as side strings too
    fn stress_case(&mut self, rng: &mut Rng) -> Val {
        let nl = rng.range(2, 7);
        let lines: Vec<String> = (0..nl).map(|_| self.stress_line(rng)).collect();
        let files: Vec<Vec<String>> = if rng.chance(1, 4) && nl >= 2 {
            let k = rng.range(1, nl - 1);
            vec![lines[..k].to_vec(), lines[k..].to_vec()]
        } else {
            vec![lines.clone()]
        };
        let (vocab, nspecial) = if rng.chance(2, 3) { (256, 0) } else { (320, 64 - rng.below(4)) };
        let norm = if rng.chance(1, 12) { 0 } else { *rng.pick(&[1i64, 2, 3, 3, 4]) };
        let raw = vec![
            Val::u(vocab),
            Val::u(nspecial),
            Val::I(norm),
            Val::u(rng.below(3)),
            Val::none(),
            Val::list(files.iter(), |f| Val::list(f.iter(), |s| Val::str(s))),
            Val::L(vec![]),
            Val::u(1),
            Val::L(vec![]),
            Val::list(lines.iter(), |s| Val::str(s)),
        ];
        self.build(&raw).expect("generator produced an input canon rejects")
    }

    /// no corpus, no merges: only the side channel
    fn side_case(&mut self, strings: &[String]) -> Val {
        let raw = vec![
            Val::u(256),
            Val::u(0),
            Val::I(0),
            Val::u(0),
            Val::none(),
            Val::L(vec![]),
            Val::L(vec![]),
            Val::u(1),
            Val::L(vec![]),
            Val::list(strings.iter(), |s| Val::str(s)),
        ];
        self.build(&raw).expect("generator produced an input canon rejects")
    }
}

const ALPHA: &[&str] = &[
    "a", "b", "c", "d", "ä", "中", "😀", "e\u{301}", "ﬁ", "¨", "é", "A", "\u{a0}",
];

fn gen_word(rng: &mut Rng, alpha: &[&str], maxlen: usize) -> String {
    let mut w = String::new();
    match rng.below(10) {
        0 => {
            // a run of one letter: aaa, aaaa, …
            let u = *rng.pick(alpha);
            for _ in 0..rng.range(2, maxlen.max(2) + 1) {
                w.push_str(u);
            }
        }
        1 | 2 => {
            // a repeated pair: abab, ababa
            let (u, v) = (*rng.pick(alpha), *rng.pick(alpha));
            for k in 0..rng.range(3, maxlen.max(3) + 1) {
                w.push_str(if k % 2 == 0 { u } else { v });
            }
        }
        3 => {
            // run + other letter + run: aabaa
            let (u, v) = (*rng.pick(alpha), *rng.pick(alpha));
            for _ in 0..rng.range(1, 3) {
                w.push_str(u);
            }
            w.push_str(v);
            for _ in 0..rng.range(1, 3) {
                w.push_str(u);
            }
        }
        _ => {
            for _ in 0..rng.range(1, maxlen.max(1)) {
                w.push_str(*rng.pick(alpha));
            }
        }
    }
    w
}

/// a line that is not UTF-8: (a word) + an ill-formed byte sequence + (a word) (+ CR)
fn bad_line(rng: &mut Rng, stock: &[String]) -> Val {
    const BAD: &[&[u8]] = &[
        &[0xff],
        &[0x80],
        &[0xc3],                         // truncated two-byte sequence
        &[0xe2, 0x82],                   // truncated three-byte sequence
        &[0xc0, 0x80],                   // overlong NUL
        &[0xc1, 0xbf],                   // overlong
        &[0xe0, 0x80, 0x80],             // overlong
        &[0xed, 0xa0, 0x80],             // surrogate
        &[0xf4, 0x90, 0x80, 0x80],       // above U+10FFFF
        &[0xf0, 0x80, 0x80, 0x80],       // overlong
        &[0xf8, 0x88, 0x80, 0x80, 0x80], // five-byte form
        &[0xc3, 0x28],                   // bad continuation
    ];
    let mut items: Vec<Val> = vec![];
    if rng.chance(2, 3) {
        items.extend(rng.pick(stock).chars().map(|c| Val::I(c as i64)));
        if rng.chance(1, 2) {
            items.push(Val::I(32));
        }
    }
    items.extend(rng.pick(BAD).iter().map(|b| Val::I(-(*b as i64) - 1)));
    if rng.chance(1, 2) {
        items.extend(rng.pick(stock).chars().map(|c| Val::I(c as i64)));
    }
    if rng.chance(1, 5) {
        items.push(Val::I(13));
    }
    Val::L(items)
}

fn sep(rng: &mut Rng) -> &'static str {
    match rng.below(12) {
        0 => "  ",
        1 => "\t",
        2 => "\u{a0}",
        3 => "\u{3000} ",
        _ => " ",
    }
}

impl Prop for C19 {
    fn gen(&mut self, rng: &mut Rng, tier: Tier, _i: usize, _n: usize) -> Val {
        // normalisation streams. Quick: 25% stress cases, 11% probe cases (64 random scalar values
        // each: n_quick * 0.113 * 64 = 1/64 of all scalar values); thorough: 25% stress, no random
        // probes (`--exhaustive` enumerates all scalar values).
        let pick = rng.below(1000);
        if pick < 250 {
            return self.stress_case(rng);
        }
        if tier == Tier::Quick && pick < 363 {
            let strings: Vec<String> = (0..PER_CASE).map(|_| probe_text(scalar(rng.below(N_SCALARS as usize) as u32))).collect();
            return self.side_case(&strings);
        }
        // alphabet of 2..6 symbols, mostly ASCII + one or two multi-byte units
        let na = rng.range(2, 6);
        let mut alpha: Vec<&str> = vec![];
        while alpha.len() < na {
            let u = if rng.chance(3, 5) { ALPHA[rng.below(4)] } else { *rng.pick(ALPHA) };
            if !alpha.contains(&u) {
                alpha.push(u);
            }
        }
        let big = rng.chance(1, 8) || (tier == Tier::Thorough && rng.chance(1, 8));
        let edge = rng.chance(1, 8);
        let (nfiles, maxl, maxw, maxlen) = if big { (rng.range(1, 3), 6, 6, 7) } else { (rng.range(1, 3), 3, 3, 5) };
        // a small stock of words so that whole words repeat
        let stock: Vec<String> = (0..rng.range(1, if big { 14 } else { 5 })).map(|_| gen_word(rng, &alpha, maxlen)).collect();
        let mut files = vec![];
        for _ in 0..nfiles {
            let mut lines = vec![];
            let nl = if edge && rng.chance(1, 3) { 0 } else { rng.range(1, maxl) };
            for _ in 0..nl {
                let mut line = String::new();
                if edge && rng.chance(1, 4) {
                    // empty / whitespace-only / CR-terminated lines
                    line.push_str(*rng.pick(&["", " ", "\t \u{a0}", "a\r", "\r"]));
                } else {
                    if rng.chance(1, 10) {
                        line.push_str(sep(rng));
                    }
                    let nw = rng.range(1, maxw);
                    for k in 0..nw {
                        if k > 0 {
                            line.push_str(sep(rng));
                        }
                        if rng.chance(4, 5) {
                            line.push_str(rng.pick(&stock[..]).as_str());
                        } else {
                            line.push_str(&gen_word(rng, &alpha, maxlen));
                        }
                    }
                    if rng.chance(1, 10) {
                        line.push_str(sep(rng));
                    }
                }
                lines.push(line);
            }
            // an empty / whitespace-only line somewhere in the file (the workers must go on)
            if rng.chance(1, 5) {
                let at = rng.below(lines.len() + 1);
                lines.insert(at, rng.pick(&["", "", " ", "\t"]).to_string());
            }
            files.push(lines);
        }
        // vocabulary size / special tokens: half of the cases leave only a few merges
        let vocab = match rng.below(40) {
            0 => 256,
            1 => *rng.pick(&[0usize, 64, 192]),
            2..=13 => 384,
            _ => 320,
        };
        let budget = vocab.saturating_sub(256);
        let nspecial = match rng.below(20) {
            0..=8 => budget.saturating_sub(rng.range(1, 6)),
            9 => budget.saturating_sub(rng.range(0, 1)),
            10 => budget + rng.below(3),
            11..=13 => rng.below(budget + 1),
            _ => rng.below(5),
        };
        let norm = if rng.chance(1, 3) { 0 } else { *rng.pick(&[1i64, 2, 3, 3, 4]) };
        // 0..3 counting threads mostly; now and then many more than lines / cores
        let threads = if rng.chance(1, 12) { *rng.pick(&[8usize, 17, 33]) } else { rng.below(4) };
        let mut maxlines = if rng.chance(1, 6) { Val::some(Val::u(rng.below(4))) } else { Val::none() };
        // raw lines; now and then lines that are NOT UTF-8 (BufRead::lines yields Err, train_bpe skips them — after
        // take(max_lines_per_file), so a line limit is set more often then), and a last line without newline
        let mut fv: Vec<Vec<Val>> = files.iter().map(|f| f.iter().map(|s| Val::str(s)).collect()).collect();
        if rng.chance(1, 7) {
            for _ in 0..rng.range(1, 2) {
                let fi = rng.below(fv.len());
                let at = rng.below(fv[fi].len() + 1);
                let bad = bad_line(rng, &stock);
                fv[fi].insert(at, bad);
            }
            if rng.chance(1, 2) {
                maxlines = Val::some(Val::u(rng.below(4)));
            }
        }
        if rng.chance(1, 8) {
            let fi = rng.below(fv.len());
            if let Some(Val::L(last)) = fv[fi].last_mut() {
                last.push(Val::I(-1000));
            }
        }
        let ntok = rng.range(1, 5);
        // test strings: corpus words in a new spacing, plus foreign units and trailing whitespace
        let mut tests = vec![];
        for _ in 0..rng.range(1, 3) {
            let mut s = String::new();
            if rng.chance(1, 6) {
                s.push_str(sep(rng));
            }
            for k in 0..rng.below(5) {
                if k > 0 && rng.chance(4, 5) {
                    s.push_str(sep(rng));
                }
                match rng.below(6) {
                    0 => s.push_str(&gen_word(rng, &alpha, 4)),
                    1 => s.push_str(*rng.pick(ALPHA)),
                    2 => s.push_str(*rng.pick(units::MULTI)),
                    _ => s.push_str(rng.pick(&stock[..]).as_str()),
                }
            }
            if rng.chance(1, 3) {
                s.push_str(*rng.pick(units::WS));
            }
            tests.push(s);
        }
        let raw = vec![
            Val::u(vocab),
            Val::u(nspecial),
            Val::I(norm),
            Val::u(threads),
            maxlines,
            Val::L(fv.into_iter().map(Val::L).collect()),
            Val::L(vec![]),
            Val::u(ntok),
            Val::list(tests.iter(), |s| Val::str(s)),
        ];
        self.build(&raw).expect("generator produced an input canon rejects")
    }

    fn exhaustive(&mut self, _tier: Tier) -> Vec<Val> {
        // all one-line corpora over {a, b}: up to 4 words of length <= 3 and up to 3 words of
        // length <= 4, each with two budgets: exhausting (64 merges) and stopping early (2 merges)
        let mut out = vec![];
        let mut seen = std::collections::HashSet::new();
        for (maxlen, maxwords) in [(3usize, 4usize), (4, 3)] {
            let mut words: Vec<String> = vec![];
            for len in 1..=maxlen {
                for m in 0..(1usize << len) {
                    words.push((0..len).map(|i| if m >> i & 1 == 0 { 'a' } else { 'b' }).collect());
                }
            }
            let nw = words.len();
            // non-decreasing index sequences only: the word count map ignores order
            let mut seqs: Vec<Vec<usize>> = (0..nw).map(|i| vec![i]).collect();
            let mut all: Vec<Vec<usize>> = seqs.clone();
            for _ in 2..=maxwords {
                let mut next = vec![];
                for s in &seqs {
                    for i in *s.last().unwrap()..nw {
                        let mut t = s.clone();
                        t.push(i);
                        next.push(t);
                    }
                }
                all.extend(next.iter().cloned());
                seqs = next;
            }
            for idx in all {
                let line: Vec<&str> = idx.iter().map(|&i| words[i].as_str()).collect();
                let line = line.join(" ");
                if !seen.insert(line.clone()) {
                    continue;
                }
                for nspecial in [0usize, 62] {
                    let raw = vec![
                        Val::u(320),
                        Val::u(nspecial),
                        Val::I(0),
                        Val::u(idx.len() % 4),
                        Val::none(),
                        Val::L(vec![Val::L(vec![Val::str(&line)])]),
                        Val::L(vec![]),
                        Val::u(1),
                        Val::L(vec![Val::str(&line)]),
                    ];
                    if let Some(v) = self.build(&raw) {
                        out.push(v);
                    }
                }
            }
        }
        out
    }

    /// the small scope above (shard k of m) plus, for EVERY scalar value c = k mod m, the probe
    /// strings around c, 64 scalar values per case
    fn exhaustive_shard(&mut self, tier: Tier, k: usize, m: usize) -> Option<Vec<Val>> {
        let mut out: Vec<Val> =
            self.exhaustive(tier).into_iter().enumerate().filter(|(i, _)| i % m == k).map(|(_, v)| v).collect();
        let mut batch: Vec<String> = vec![];
        let mut i = k as u32;
        while i < N_SCALARS {
            batch.push(probe_text(scalar(i)));
            if batch.len() == PER_CASE {
                out.push(self.side_case(&batch));
                batch.clear();
            }
            i += m as u32;
        }
        if !batch.is_empty() {
            out.push(self.side_case(&batch));
        }
        Some(out)
    }

    fn canon(&mut self, input: &Val) -> Option<Val> {
        let l = input.as_l()?;
        if l.len() != 9 && l.len() != 10 {
            return None;
        }
        self.build(l)
    }

    fn run(&mut self, input: &Val) -> Option<(Val, Vec<String>)> {
        let p = parse_params(input)?;
        if p.vocab % 64 != 0 || p.vocab > 1024 || p.ntok < 1 || p.ntok > 6 || p.threads > 40 || !(0..=4).contains(&p.norm) {
            return None;
        }
        let d = self.fresh_dir();
        let paths = Self::write_files(&d, &p.files)?;
        // the oracle field must be what the crate computes
        if Self::processed(&paths, p.norm).as_ref() != input.nth(6) {
            let _ = std::fs::remove_dir_all(&d);
            return None;
        }
        let out_file = d.join("merges.bin");
        let mut cmd = Command::new(std::env::current_exe().ok()?);
        cmd.arg("train-child")
            .arg(p.vocab.to_string())
            .arg(p.nspecial.to_string())
            .arg(p.norm.to_string())
            .arg(p.threads.to_string())
            .arg(p.maxlines.map(|m| m.to_string()).unwrap_or_else(|| "-".into()))
            .arg(&out_file);
        for f in &paths {
            cmd.arg(f);
        }
        cmd.stdin(Stdio::null()).stdout(Stdio::null()).stderr(Stdio::null());
        let mut tags: Vec<String> = vec![];
        let status = (|| {
            let mut child = cmd.spawn().ok()?;
            let t0 = std::time::Instant::now();
            loop {
                match child.try_wait() {
                    Ok(Some(st)) => return Some(st.code().unwrap_or(-1)),
                    Ok(None) => {
                        if t0.elapsed().as_secs() > 60 {
                            let _ = child.kill();
                            let _ = child.wait();
                            return Some(-778);
                        }
                        std::thread::sleep(std::time::Duration::from_micros(300));
                    }
                    Err(_) => return None,
                }
            }
        })();
        let out = match status {
            Some(0) => {
                let of = out_file.clone();
                let ntok = p.ntok;
                let tests = p.tests.clone();
                let side = p.side.clone();
                guard(move || {
                    let Ok(ops) = MergeOps::load(&of) else {
                        return Val::L(vec![Val::I(-776)]);
                    };
                    // the trace the child wrote next to the table (absent / unreadable = no trace:
                    // the correspondence relation then fails)
                    let trace = std::fs::read_to_string(trace_path(&of))
                        .ok()
                        .and_then(|s| Val::parse(s.trim()))
                        .unwrap_or_else(|| Val::L(vec![]));
                    let mut table: Vec<(u32, Vec<u8>)> = ops.iter().map(|(b, i)| (*i, b.clone())).collect();
                    table.sort();
                    let tv = Val::list(table.iter(), |(i, b)| Val::L(vec![Val::I(*i as i64), Val::bytes(b)]));
                    let special = SpecialConfig {
                        pad: "<pad>".to_string(),
                        tokens: special_tokens(ntok),
                        prefix: vec![],
                        suffix: vec![],
                    };
                    let cfg = BPETokenizerConfig { merge_file: of.clone(), max_vocab_size: None, use_graphemes: true };
                    let Ok(tok) = BPETokenizer::new(cfg, special) else {
                        return Val::L(vec![tv, Val::I(-775)]);
                    };
                    let toks = Val::list(tests.iter(), |s| {
                        let Ok(t) = tok.tokenize(s, true) else { return Val::L(vec![Val::I(-774)]) };
                        let Ok(dec) = tok.de_tokenize(&t.token_ids, true) else { return Val::L(vec![Val::I(-773)]) };
                        Val::L(vec![Val::list(t.token_ids.iter(), |i| Val::I(*i as i64)), Val::str(&dec)])
                    });
                    let vsize = Val::u(tok.vocab_size());
                    let vocab = match tok.get_vocab() {
                        Ok(v) => Val::list(v.iter(), |b| Val::bytes(b)),
                        Err(_) => Val::L(vec![]),
                    };
                    let t2i = Val::list(table.iter(), |(_, b)| match std::str::from_utf8(b) {
                        Ok(s) => Val::opt(tok.token_to_id(s), |i| Val::I(i as i64)),
                        Err(_) => Val::none(),
                    });
                    let mut o = vec![tv, toks, vsize, vocab, t2i, trace];
                    // the side channel: the real normalize on every side string, 4 forms x 2 modes (() when
                    // there are no side strings)
                    o.push(Val::list(side.iter(), |s| side_entry(s)));
                    // the merge file train_bpe wrote, byte for byte: the model decodes it itself
                    // (MsgPack_Model.v) and compares with `tv`, the real loader's reading
                    o.push(match std::fs::read(&of) {
                        Ok(b) => Val::bytes(&b),
                        Err(_) => Val::I(-770),
                    });
                    Val::L(o)
                })
            }
            Some(-778) => Val::hang(),
            Some(3) => Val::L(vec![Val::I(-772)]), // train_bpe returned Err
            _ => Val::panic(),
        };
        let _ = std::fs::remove_dir_all(&d);
        // tags from the implementation's table
        let budget = p.vocab.saturating_sub(256).saturating_sub(p.nspecial);
        if let Some(tbl) = out.nth(0).and_then(|t| t.as_l()) {
            let n = tbl.len();
            let deep = tbl.iter().any(|e| e.nth(1).and_then(|b| b.as_l()).map(|b| b.len() >= 3).unwrap_or(false));
            tags.push(if n < budget { "exhausted".into() } else if budget == 0 { "budget0".into() } else { "full".into() });
            if n >= 2 && deep {
                tags.push("nt".into());
            }
            if n >= 20 {
                tags.push("long".into());
            }
            if let Some(steps) = out.nth(5).and_then(|t| t.nth(2)).and_then(|t| t.as_l()) {
                tags.push(if steps.len() == n { "traced".into() } else { "trace-mismatch".into() });
            } else {
                tags.push("untraced".into());
            }
        }
        if input.nth(6).and_then(|f| f.as_l()).map_or(false, |fs| fs.iter().any(|f| f.as_l().map_or(false, |ls| ls.contains(&Val::L(vec![Val::I(-1)]))))) {
            tags.push("bad-utf8".into());
        }
        if p.files.iter().any(|f| f.last().map_or(false, |l| l.1)) {
            tags.push("no-final-newline".into());
        }
        tags.push(format!("threads{}", p.threads));
        tags.push(if p.norm == 0 { "raw".into() } else { "norm".into() });
        if !p.side.is_empty() {
            // `nfprobe`: probe strings only, no corpus; `nfkc`: normalisation-stress lines as corpus + side strings
            tags.push(if p.files.is_empty() { "nfprobe".into() } else { "nfkc".into() });
            if let Some(es) = out.nth(6).and_then(|t| t.as_l()) {
                let changed = |k: usize| es.iter().zip(&p.side).any(|(e, s)| e.nth(k).map_or(false, |r| *r != Val::str(s)));
                if changed(0) || changed(1) {
                    tags.push("nf-canon".into()); // NFC or NFD changes a side string
                }
                if es.iter().any(|e| e.nth(2) != e.nth(0)) {
                    tags.push("nf-compat".into()); // NFKC differs from NFC
                }
                if es.iter().any(|e| (4..8).any(|k| e.nth(k).map_or(false, |g| g.as_l().map_or(false, |g| !g.is_empty())))) {
                    tags.push("nf-cluster".into()); // per-cluster normalisation differs from whole-string
                }
            }
        }
        Some((out, tags))
    }

    fn selfcheck(&mut self) -> Vec<String> {
        // the model's White_Space table vs char::is_whitespace, and vs the regex class \s
        // used by count_words_whitespace ("x<c>y" has two words iff c is whitespace)
        let mut errs = ws_table_selfcheck();
        let mut nonws = String::from("x");
        for c in (0..=0x10FFFFu32).filter_map(char::from_u32) {
            if WS_TABLE.contains(&(c as u32)) {
                let s = format!("x{c}y");
                if text_utils::text::count_words_whitespace(&s, true).len() != 2 {
                    errs.push(format!("regex \\s does not match White_Space U+{:04X}", c as u32));
                }
            } else {
                nonws.push(c);
            }
        }
        if text_utils::text::count_words_whitespace(&nonws, true).len() != 1 {
            errs.push("regex \\s matches a code point outside the White_Space table".into());
        }
        // the probe separator: every form and mode must leave "a\na" alone (U+000A neither composes nor joins)
        for f in FORMS {
            for g in [false, true] {
                if normalize("a\u{301}\na\u{301}", f, g) != format!("{0}\n{0}", normalize("a\u{301}", f, g)) {
                    errs.push("U+000A does not separate normalisation probes".into());
                }
            }
        }
        // the Gallina / Rust tables must be the translation of the locked crate's tables.rs
        let md = env!("CARGO_MANIFEST_DIR");
        for rel in ["../tools/gen_nfkc.py", "../../tools/gen_nfkc.py"] {
            let p = std::path::Path::new(md).join(rel);
            if p.exists() {
                match std::process::Command::new("python3").arg(&p).arg("--check").output() {
                    Ok(o) if o.status.success() => {}
                    Ok(o) => errs.push(format!("tools/gen_nfkc.py --check: {}", String::from_utf8_lossy(&o.stdout).trim())),
                    Err(e) => errs.push(format!("tools/gen_nfkc.py --check could not run: {e}")),
                }
                break;
            }
        }
        errs
    }
}

fn trace_path(out: &Path) -> PathBuf {
    out.with_extension("trace")
}

fn vocab_val(vocab: &[(Vec<Vec<u8>>, usize)]) -> Val {
    Val::list(vocab.iter(), |(w, k)| Val::L(vec![Val::list(w.iter(), |t| Val::bytes(t)), Val::u(*k)]))
}

fn stats_val(stats: &text_utils::verif::BpeStatsView) -> Val {
    Val::list(stats.iter(), |((a, b), f, ws)| {
        Val::L(vec![
            Val::L(vec![Val::bytes(a), Val::bytes(b)]),
            Val::u(*f),
            Val::list(ws.iter(), |(i, o)| Val::L(vec![Val::u(*i), Val::u(*o)])),
        ])
    })
}

/// records what train_bpe reports through the hook: (vocab stats steps)
#[derive(Default)]
struct TraceObs {
    init: std::sync::Mutex<Option<(Val, Val)>>,
    steps: std::sync::Mutex<Vec<Val>>,
}

impl text_utils::verif::BpeObserver for TraceObs {
    fn init(&self, vocab: &[(Vec<Vec<u8>>, usize)], stats: text_utils::verif::BpeStatsView) {
        *self.init.lock().unwrap() = Some((vocab_val(vocab), stats_val(&stats)));
    }
    fn merge(
        &self,
        merge_idx: usize,
        first: &[u8],
        second: &[u8],
        vocab: &[(Vec<Vec<u8>>, usize)],
        stats: text_utils::verif::BpeStatsView,
    ) {
        let mut steps = self.steps.lock().unwrap();
        // merges are reported in order, one per merge index
        if steps.len() != merge_idx {
            steps.push(Val::L(vec![Val::I(-771)]));
        }
        steps.push(Val::L(vec![Val::bytes(first), Val::bytes(second), vocab_val(vocab), stats_val(&stats)]));
    }
}

fn train_child(args: &[String]) -> i32 {
    // args: vocab nspecial norm threads maxlines out files…
    let vocab: usize = args[0].parse().unwrap();
    let nspecial: usize = args[1].parse().unwrap();
    let norm = norm_of(args[2].parse().unwrap());
    let threads: u8 = args[3].parse().unwrap();
    let maxlines: Option<usize> = args[4].parse().ok();
    let out = PathBuf::from(&args[5]);
    let files: Vec<PathBuf> = args[6..].iter().map(PathBuf::from).collect();
    let obs = std::sync::Arc::new(TraceObs::default());
    text_utils::verif::install_bpe_observer(Some(obs.clone()));
    let res = train_bpe(&files, vocab, nspecial, &out, maxlines, norm, threads, false);
    text_utils::verif::install_bpe_observer(None);
    match res {
        Ok(()) => {
            let init = obs.init.lock().unwrap().take();
            let steps = std::mem::take(&mut *obs.steps.lock().unwrap());
            if let Some((v, st)) = init {
                let t = Val::L(vec![v, st, Val::L(steps)]);
                if std::fs::write(trace_path(&out), t.to_sexp()).is_err() {
                    return 4;
                }
            }
            0
        }
        Err(_) => 3,
    }
}

fn main() {
    let args: Vec<String> = std::env::args().collect();
    if args.get(1).map(|s| s.as_str()) == Some("train-child") {
        std::process::exit(train_child(&args[2..]));
    }
    let p = C19::new();
    let dir = p.dir.clone();
    main_loop(p);
    let _ = std::fs::remove_dir_all(dir);
}

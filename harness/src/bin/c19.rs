//! C19: train_bpe against the recount-based greedy trainer of C19_Model.v.
//! input  = (vocab_size nspecial norm threads maxlines? files proc ntok tests)
//!          files: raw lines per file; proc: the lines as train_bpe sees them
//!          (read back with BufRead::lines, real clean + normalize) — oracle field,
//!          re-derived by `canon`; ntok: special tokens of the tokenizer built from
//!          the table; tests: strings for the round trip
//! output = (table toks vsize vocab t2i trace)
//!          trace = (vocab stats steps): observed through the `verif` hook of train_bpe
//!          (text_utils::verif::BpeObserver): the vocabulary in the index order the code
//!          built it, the initial pair statistics, and per merge (first second vocab stats)
//!          = the chosen pair and the vocabulary / statistics after update_stats.
//!          vocab = ((word count) …), word = list of tokens; stats = (((first second) freq
//!          ((idx occ) …)) …) sorted by pair, counters sorted by word index.
//! Every training runs in a child process (`c19 train-child …`): train_bpe installs
//! a process-wide panic hook that prints to stdout and leaves worker threads behind.
use std::io::{BufRead, Write};
use std::path::{Path, PathBuf};
use std::process::{Command, Stdio};
use text_utils::text::clean;
use text_utils::tokenization::{
    train_bpe, BPETokenizer, BPETokenizerConfig, MergeOps, SpecialConfig, Tokenize,
};
use text_utils::unicode::{normalize, Normalization};
use text_utils::utils::SerializeMsgPack;
use vh::*;

struct C19 {
    dir: PathBuf,
    ctr: usize,
}

fn norm_of(k: i64) -> Option<Normalization> {
    match k {
        1 => Some(Normalization::NFC),
        2 => Some(Normalization::NFD),
        3 => Some(Normalization::NFKC),
        4 => Some(Normalization::NFKD),
        _ => None,
    }
}

struct Params {
    vocab: usize,
    nspecial: usize,
    norm: i64,
    threads: u8,
    maxlines: Option<usize>,
    files: Vec<Vec<String>>,
    ntok: usize,
    tests: Vec<String>,
}

fn parse_params(input: &Val) -> Option<Params> {
    let l = input.as_l()?;
    if l.len() != 9 {
        return None;
    }
    let maxlines = match l[4].as_l()? {
        [] => None,
        [x] => Some(x.as_usize()?),
        _ => return None,
    };
    let files = l[5]
        .as_l()?
        .iter()
        .map(|f| f.as_l()?.iter().map(|s| s.to_string_lossy()).collect::<Option<Vec<_>>>())
        .collect::<Option<Vec<_>>>()?;
    let tests = l[8].as_l()?.iter().map(|s| s.to_string_lossy()).collect::<Option<Vec<_>>>()?;
    Some(Params {
        vocab: l[0].as_usize()?,
        nspecial: l[1].as_usize()?,
        norm: l[2].as_i()?,
        threads: u8::try_from(l[3].as_i()?).ok()?,
        maxlines,
        files,
        ntok: l[7].as_usize()?,
        tests,
    })
}

fn special_tokens(ntok: usize) -> Vec<String> {
    (0..ntok).map(|i| if i == 0 { "<pad>".to_string() } else { format!("<t{i}>") }).collect()
}

impl C19 {
    fn new() -> Self {
        let dir = PathBuf::from(format!("/tmp/c19/h{}", std::process::id()));
        C19 { dir, ctr: 0 }
    }

    fn fresh_dir(&mut self) -> PathBuf {
        self.ctr += 1;
        let d = self.dir.join(format!("{}", self.ctr));
        let _ = std::fs::create_dir_all(&d);
        d
    }

    /// write the corpus files; returns their paths
    fn write_files(d: &Path, files: &[Vec<String>]) -> Option<Vec<PathBuf>> {
        let mut paths = vec![];
        for (i, lines) in files.iter().enumerate() {
            let p = d.join(format!("f{i}.txt"));
            let mut f = std::fs::File::create(&p).ok()?;
            for line in lines {
                f.write_all(line.as_bytes()).ok()?;
                f.write_all(b"\n").ok()?;
            }
            paths.push(p);
        }
        Some(paths)
    }

    /// the lines train_bpe's workers process: as read by BufRead::lines, cleaned, normalised
    fn processed(paths: &[PathBuf], norm: i64) -> Option<Val> {
        let mut out = vec![];
        for p in paths {
            let rd = std::io::BufReader::new(std::fs::File::open(p).ok()?);
            let mut lines = vec![];
            for line in rd.lines() {
                let mut line = clean(&line.ok()?, true);
                if let Some(n) = norm_of(norm) {
                    line = normalize(&line, n, true);
                }
                lines.push(Val::str(&line));
            }
            out.push(Val::L(lines));
        }
        Some(Val::L(out))
    }

    fn build(&mut self, l: &[Val]) -> Option<Val> {
        // normalise the scalar parameters and re-derive the oracle field
        let vocab = (l[0].as_usize()?.min(1024) / 64) * 64;
        let nspecial = l[1].as_usize()?.min(2048);
        let norm = l[2].as_i()?.clamp(0, 4);
        let threads = l[3].as_i()?.clamp(0, 8);
        let maxlines = match l[4].as_l()? {
            [] => Val::none(),
            [x, ..] => Val::some(Val::u(x.as_usize()?)),
        };
        let files: Vec<Vec<String>> = l[5]
            .as_l()?
            .iter()
            .map(|f| f.as_l()?.iter().map(|s| s.to_string_lossy()).collect::<Option<Vec<_>>>())
            .collect::<Option<Vec<_>>>()?;
        let ntok = l[7].as_usize()?.clamp(1, 6);
        let tests: Vec<String> =
            l[8].as_l()?.iter().map(|s| s.to_string_lossy()).collect::<Option<Vec<_>>>()?;
        let d = self.fresh_dir();
        let paths = Self::write_files(&d, &files)?;
        let proc = Self::processed(&paths, norm);
        let _ = std::fs::remove_dir_all(&d);
        Some(Val::L(vec![
            Val::u(vocab),
            Val::u(nspecial),
            Val::I(norm),
            Val::I(threads),
            maxlines,
            Val::list(files.iter(), |f| Val::list(f.iter(), |s| Val::str(s))),
            proc?,
            Val::u(ntok),
            Val::list(tests.iter(), |s| Val::str(s)),
        ]))
    }
}

const ALPHA: &[&str] = &[
    "a", "b", "c", "d", "ä", "中", "😀", "e\u{301}", "ﬁ", "¨", "é", "A", "\u{a0}",
];

fn gen_word(rng: &mut Rng, alpha: &[&str], maxlen: usize) -> String {
    let mut w = String::new();
    match rng.below(10) {
        0 => {
            // a run of one letter: aaa, aaaa, …
            let u = *rng.pick(alpha);
            for _ in 0..rng.range(2, maxlen.max(2) + 1) {
                w.push_str(u);
            }
        }
        1 | 2 => {
            // a repeated pair: abab, ababa
            let (u, v) = (*rng.pick(alpha), *rng.pick(alpha));
            for k in 0..rng.range(3, maxlen.max(3) + 1) {
                w.push_str(if k % 2 == 0 { u } else { v });
            }
        }
        3 => {
            // run + other letter + run: aabaa
            let (u, v) = (*rng.pick(alpha), *rng.pick(alpha));
            for _ in 0..rng.range(1, 3) {
                w.push_str(u);
            }
            w.push_str(v);
            for _ in 0..rng.range(1, 3) {
                w.push_str(u);
            }
        }
        _ => {
            for _ in 0..rng.range(1, maxlen.max(1)) {
                w.push_str(*rng.pick(alpha));
            }
        }
    }
    w
}

fn sep(rng: &mut Rng) -> &'static str {
    match rng.below(12) {
        0 => "  ",
        1 => "\t",
        2 => "\u{a0}",
        3 => "\u{3000} ",
        _ => " ",
    }
}

impl Prop for C19 {
    fn gen(&mut self, rng: &mut Rng, tier: Tier, _i: usize, _n: usize) -> Val {
        // alphabet of 2..6 symbols, mostly ASCII + one or two multi-byte units
        let na = rng.range(2, 6);
        let mut alpha: Vec<&str> = vec![];
        while alpha.len() < na {
            let u = if rng.chance(3, 5) { ALPHA[rng.below(4)] } else { *rng.pick(ALPHA) };
            if !alpha.contains(&u) {
                alpha.push(u);
            }
        }
        let big = rng.chance(1, 8) || (tier == Tier::Thorough && rng.chance(1, 8));
        let edge = rng.chance(1, 8);
        let (nfiles, maxl, maxw, maxlen) = if big { (rng.range(1, 3), 6, 6, 7) } else { (rng.range(1, 3), 3, 3, 5) };
        // a small stock of words so that whole words repeat
        let stock: Vec<String> = (0..rng.range(1, if big { 14 } else { 5 })).map(|_| gen_word(rng, &alpha, maxlen)).collect();
        let mut files = vec![];
        for _ in 0..nfiles {
            let mut lines = vec![];
            let nl = if edge && rng.chance(1, 3) { 0 } else { rng.range(1, maxl) };
            for _ in 0..nl {
                let mut line = String::new();
                if edge && rng.chance(1, 4) {
                    // empty / whitespace-only / CR-terminated lines
                    line.push_str(*rng.pick(&["", " ", "\t \u{a0}", "a\r", "\r"]));
                } else {
                    if rng.chance(1, 10) {
                        line.push_str(sep(rng));
                    }
                    let nw = rng.range(1, maxw);
                    for k in 0..nw {
                        if k > 0 {
                            line.push_str(sep(rng));
                        }
                        if rng.chance(4, 5) {
                            line.push_str(rng.pick(&stock[..]).as_str());
                        } else {
                            line.push_str(&gen_word(rng, &alpha, maxlen));
                        }
                    }
                    if rng.chance(1, 10) {
                        line.push_str(sep(rng));
                    }
                }
                lines.push(line);
            }
            // an empty / whitespace-only line somewhere in the file (the workers must go on)
            if rng.chance(1, 5) {
                let at = rng.below(lines.len() + 1);
                lines.insert(at, rng.pick(&["", "", " ", "\t"]).to_string());
            }
            files.push(lines);
        }
        // vocabulary size / special tokens: half of the cases leave only a few merges
        let vocab = match rng.below(40) {
            0 => 256,
            1 => *rng.pick(&[0usize, 64, 192]),
            2..=13 => 384,
            _ => 320,
        };
        let budget = vocab.saturating_sub(256);
        let nspecial = match rng.below(20) {
            0..=8 => budget.saturating_sub(rng.range(1, 6)),
            9 => budget.saturating_sub(rng.range(0, 1)),
            10 => budget + rng.below(3),
            11..=13 => rng.below(budget + 1),
            _ => rng.below(5),
        };
        let norm = if rng.chance(1, 3) { 0 } else { *rng.pick(&[1i64, 2, 3, 3, 4]) };
        let threads = rng.below(4);
        let maxlines = if rng.chance(1, 6) { Val::some(Val::u(rng.below(4))) } else { Val::none() };
        let ntok = rng.range(1, 5);
        // test strings: corpus words in a new spacing, plus foreign units and trailing whitespace
        let mut tests = vec![];
        for _ in 0..rng.range(1, 3) {
            let mut s = String::new();
            if rng.chance(1, 6) {
                s.push_str(sep(rng));
            }
            for k in 0..rng.below(5) {
                if k > 0 && rng.chance(4, 5) {
                    s.push_str(sep(rng));
                }
                match rng.below(6) {
                    0 => s.push_str(&gen_word(rng, &alpha, 4)),
                    1 => s.push_str(*rng.pick(ALPHA)),
                    2 => s.push_str(*rng.pick(units::MULTI)),
                    _ => s.push_str(rng.pick(&stock[..]).as_str()),
                }
            }
            if rng.chance(1, 3) {
                s.push_str(*rng.pick(units::WS));
            }
            tests.push(s);
        }
        let raw = vec![
            Val::u(vocab),
            Val::u(nspecial),
            Val::I(norm),
            Val::u(threads),
            maxlines,
            Val::list(files.iter(), |f| Val::list(f.iter(), |s| Val::str(s))),
            Val::L(vec![]),
            Val::u(ntok),
            Val::list(tests.iter(), |s| Val::str(s)),
        ];
        self.build(&raw).expect("generator produced an input canon rejects")
    }

    fn exhaustive(&mut self, _tier: Tier) -> Vec<Val> {
        // all one-line corpora over {a, b}: up to 4 words of length <= 3 and up to 3 words of
        // length <= 4, each with two budgets: exhausting (64 merges) and stopping early (2 merges)
        let mut out = vec![];
        let mut seen = std::collections::HashSet::new();
        for (maxlen, maxwords) in [(3usize, 4usize), (4, 3)] {
            let mut words: Vec<String> = vec![];
            for len in 1..=maxlen {
                for m in 0..(1usize << len) {
                    words.push((0..len).map(|i| if m >> i & 1 == 0 { 'a' } else { 'b' }).collect());
                }
            }
            let nw = words.len();
            // non-decreasing index sequences only: the word count map ignores order
            let mut seqs: Vec<Vec<usize>> = (0..nw).map(|i| vec![i]).collect();
            let mut all: Vec<Vec<usize>> = seqs.clone();
            for _ in 2..=maxwords {
                let mut next = vec![];
                for s in &seqs {
                    for i in *s.last().unwrap()..nw {
                        let mut t = s.clone();
                        t.push(i);
                        next.push(t);
                    }
                }
                all.extend(next.iter().cloned());
                seqs = next;
            }
            for idx in all {
                let line: Vec<&str> = idx.iter().map(|&i| words[i].as_str()).collect();
                let line = line.join(" ");
                if !seen.insert(line.clone()) {
                    continue;
                }
                for nspecial in [0usize, 62] {
                    let raw = vec![
                        Val::u(320),
                        Val::u(nspecial),
                        Val::I(0),
                        Val::u(idx.len() % 4),
                        Val::none(),
                        Val::L(vec![Val::L(vec![Val::str(&line)])]),
                        Val::L(vec![]),
                        Val::u(1),
                        Val::L(vec![Val::str(&line)]),
                    ];
                    if let Some(v) = self.build(&raw) {
                        out.push(v);
                    }
                }
            }
        }
        out
    }

    fn canon(&mut self, input: &Val) -> Option<Val> {
        let l = input.as_l()?;
        if l.len() != 9 {
            return None;
        }
        self.build(l)
    }

    fn run(&mut self, input: &Val) -> Option<(Val, Vec<String>)> {
        let p = parse_params(input)?;
        if p.vocab % 64 != 0 || p.vocab > 1024 || p.ntok < 1 || p.ntok > 6 || p.threads > 8 || !(0..=4).contains(&p.norm) {
            return None;
        }
        let d = self.fresh_dir();
        let paths = Self::write_files(&d, &p.files)?;
        // the oracle field must be what the crate computes
        if Self::processed(&paths, p.norm).as_ref() != input.nth(6) {
            let _ = std::fs::remove_dir_all(&d);
            return None;
        }
        let out_file = d.join("merges.bin");
        let mut cmd = Command::new(std::env::current_exe().ok()?);
        cmd.arg("train-child")
            .arg(p.vocab.to_string())
            .arg(p.nspecial.to_string())
            .arg(p.norm.to_string())
            .arg(p.threads.to_string())
            .arg(p.maxlines.map(|m| m.to_string()).unwrap_or_else(|| "-".into()))
            .arg(&out_file);
        for f in &paths {
            cmd.arg(f);
        }
        cmd.stdin(Stdio::null()).stdout(Stdio::null()).stderr(Stdio::null());
        let mut tags: Vec<String> = vec![];
        let status = (|| {
            let mut child = cmd.spawn().ok()?;
            let t0 = std::time::Instant::now();
            loop {
                match child.try_wait() {
                    Ok(Some(st)) => return Some(st.code().unwrap_or(-1)),
                    Ok(None) => {
                        if t0.elapsed().as_secs() > 60 {
                            let _ = child.kill();
                            let _ = child.wait();
                            return Some(-778);
                        }
                        std::thread::sleep(std::time::Duration::from_micros(300));
                    }
                    Err(_) => return None,
                }
            }
        })();
        let out = match status {
            Some(0) => {
                let of = out_file.clone();
                let ntok = p.ntok;
                let tests = p.tests.clone();
                guard(move || {
                    let Ok(ops) = MergeOps::load(&of) else {
                        return Val::L(vec![Val::I(-776)]);
                    };
                    // the trace the child wrote next to the table (absent / unreadable = no trace:
                    // the correspondence relation then fails)
                    let trace = std::fs::read_to_string(trace_path(&of))
                        .ok()
                        .and_then(|s| Val::parse(s.trim()))
                        .unwrap_or_else(|| Val::L(vec![]));
                    let mut table: Vec<(u32, Vec<u8>)> = ops.iter().map(|(b, i)| (*i, b.clone())).collect();
                    table.sort();
                    let tv = Val::list(table.iter(), |(i, b)| Val::L(vec![Val::I(*i as i64), Val::bytes(b)]));
                    let special = SpecialConfig {
                        pad: "<pad>".to_string(),
                        tokens: special_tokens(ntok),
                        prefix: vec![],
                        suffix: vec![],
                    };
                    let cfg = BPETokenizerConfig { merge_file: of.clone(), max_vocab_size: None, use_graphemes: true };
                    let Ok(tok) = BPETokenizer::new(cfg, special) else {
                        return Val::L(vec![tv, Val::I(-775)]);
                    };
                    let toks = Val::list(tests.iter(), |s| {
                        let Ok(t) = tok.tokenize(s, true) else { return Val::L(vec![Val::I(-774)]) };
                        let Ok(dec) = tok.de_tokenize(&t.token_ids, true) else { return Val::L(vec![Val::I(-773)]) };
                        Val::L(vec![Val::list(t.token_ids.iter(), |i| Val::I(*i as i64)), Val::str(&dec)])
                    });
                    let vsize = Val::u(tok.vocab_size());
                    let vocab = match tok.get_vocab() {
                        Ok(v) => Val::list(v.iter(), |b| Val::bytes(b)),
                        Err(_) => Val::L(vec![]),
                    };
                    let t2i = Val::list(table.iter(), |(_, b)| match std::str::from_utf8(b) {
                        Ok(s) => Val::opt(tok.token_to_id(s), |i| Val::I(i as i64)),
                        Err(_) => Val::none(),
                    });
                    Val::L(vec![tv, toks, vsize, vocab, t2i, trace])
                })
            }
            Some(-778) => Val::hang(),
            Some(3) => Val::L(vec![Val::I(-772)]), // train_bpe returned Err
            _ => Val::panic(),
        };
        let _ = std::fs::remove_dir_all(&d);
        // tags from the implementation's table
        let budget = p.vocab.saturating_sub(256).saturating_sub(p.nspecial);
        if let Some(tbl) = out.nth(0).and_then(|t| t.as_l()) {
            let n = tbl.len();
            let deep = tbl.iter().any(|e| e.nth(1).and_then(|b| b.as_l()).map(|b| b.len() >= 3).unwrap_or(false));
            tags.push(if n < budget { "exhausted".into() } else if budget == 0 { "budget0".into() } else { "full".into() });
            if n >= 2 && deep {
                tags.push("nt".into());
            }
            if n >= 20 {
                tags.push("long".into());
            }
            if let Some(steps) = out.nth(5).and_then(|t| t.nth(2)).and_then(|t| t.as_l()) {
                tags.push(if steps.len() == n { "traced".into() } else { "trace-mismatch".into() });
            } else {
                tags.push("untraced".into());
            }
        }
        tags.push(format!("threads{}", p.threads));
        tags.push(if p.norm == 0 { "raw".into() } else { "norm".into() });
        Some((out, tags))
    }

    fn selfcheck(&mut self) -> Vec<String> {
        // the model's White_Space table vs char::is_whitespace, and vs the regex class \s
        // used by count_words_whitespace ("x<c>y" has two words iff c is whitespace)
        let mut errs = ws_table_selfcheck();
        let mut nonws = String::from("x");
        for c in (0..=0x10FFFFu32).filter_map(char::from_u32) {
            if WS_TABLE.contains(&(c as u32)) {
                let s = format!("x{c}y");
                if text_utils::text::count_words_whitespace(&s, true).len() != 2 {
                    errs.push(format!("regex \\s does not match White_Space U+{:04X}", c as u32));
                }
            } else {
                nonws.push(c);
            }
        }
        if text_utils::text::count_words_whitespace(&nonws, true).len() != 1 {
            errs.push("regex \\s matches a code point outside the White_Space table".into());
        }
        errs
    }
}

fn trace_path(out: &Path) -> PathBuf {
    out.with_extension("trace")
}

fn vocab_val(vocab: &[(Vec<Vec<u8>>, usize)]) -> Val {
    Val::list(vocab.iter(), |(w, k)| Val::L(vec![Val::list(w.iter(), |t| Val::bytes(t)), Val::u(*k)]))
}

fn stats_val(stats: &text_utils::verif::BpeStatsView) -> Val {
    Val::list(stats.iter(), |((a, b), f, ws)| {
        Val::L(vec![
            Val::L(vec![Val::bytes(a), Val::bytes(b)]),
            Val::u(*f),
            Val::list(ws.iter(), |(i, o)| Val::L(vec![Val::u(*i), Val::u(*o)])),
        ])
    })
}

/// records what train_bpe reports through the hook: (vocab stats steps)
#[derive(Default)]
struct TraceObs {
    init: std::sync::Mutex<Option<(Val, Val)>>,
    steps: std::sync::Mutex<Vec<Val>>,
}

impl text_utils::verif::BpeObserver for TraceObs {
    fn init(&self, vocab: &[(Vec<Vec<u8>>, usize)], stats: text_utils::verif::BpeStatsView) {
        *self.init.lock().unwrap() = Some((vocab_val(vocab), stats_val(&stats)));
    }
    fn merge(
        &self,
        merge_idx: usize,
        first: &[u8],
        second: &[u8],
        vocab: &[(Vec<Vec<u8>>, usize)],
        stats: text_utils::verif::BpeStatsView,
    ) {
        let mut steps = self.steps.lock().unwrap();
        // merges are reported in order, one per merge index
        if steps.len() != merge_idx {
            steps.push(Val::L(vec![Val::I(-771)]));
        }
        steps.push(Val::L(vec![Val::bytes(first), Val::bytes(second), vocab_val(vocab), stats_val(&stats)]));
    }
}

fn train_child(args: &[String]) -> i32 {
    // args: vocab nspecial norm threads maxlines out files…
    let vocab: usize = args[0].parse().unwrap();
    let nspecial: usize = args[1].parse().unwrap();
    let norm = norm_of(args[2].parse().unwrap());
    let threads: u8 = args[3].parse().unwrap();
    let maxlines: Option<usize> = args[4].parse().ok();
    let out = PathBuf::from(&args[5]);
    let files: Vec<PathBuf> = args[6..].iter().map(PathBuf::from).collect();
    let obs = std::sync::Arc::new(TraceObs::default());
    text_utils::verif::install_bpe_observer(Some(obs.clone()));
    let res = train_bpe(&files, vocab, nspecial, &out, maxlines, norm, threads, false);
    text_utils::verif::install_bpe_observer(None);
    match res {
        Ok(()) => {
            let init = obs.init.lock().unwrap().take();
            let steps = std::mem::take(&mut *obs.steps.lock().unwrap());
            if let Some((v, st)) = init {
                let t = Val::L(vec![v, st, Val::L(steps)]);
                if std::fs::write(trace_path(&out), t.to_sexp()).is_err() {
                    return 4;
                }
            }
            0
        }
        Err(_) => 3,
    }
}

fn main() {
    let args: Vec<String> = std::env::args().collect();
    if args.get(1).map(|s| s.as_str()) == Some("train-child") {
        std::process::exit(train_child(&args[2..]));
    }
    let p = C19::new();
    let dir = p.dir.clone();
    main_loop(p);
    let _ = std::fs::remove_dir_all(dir);
}

//! C16: inference windows (windows::windows / char / byte) and the CharString offset
//! arithmetic against the model.
//! input  = (kind max ctx clusters g probes)
//!          kind: 0 windows(Character) 1 windows(Bytes) 2 windows(Full) 3 char() 4 byte()
//!          max/ctx: integer, or (hi lo) = hi * 2^32 + lo for values >= 2^62
//!          clusters: the real CharString segmentation of the text; probes: ((a b) ...)
//! output = (windows cs probes pcs pbs)   -- see C16_Model.v; pbs (possible_byte_substrings) see C16_MachinePbs.v
//!
//! Second kind of input (first field 10): the INFERENCE LOADER (src/data/mod.rs: inference_pipeline,
//! InferenceLoader::new, __next__, InferenceItem / InferenceBatch accessors), driven through the hook
//! data::verif_hooks::inference_loader_batches; model: Inference_Model.v
//! input  = (10 tok (ign kind max ctx g) (threads buffer limit ty prefetch sort) texts)
//!          tok = (0 <the ten C01 fields>) byte / character tokenizer | (1 tbl maxv toks prefix suffix) BPE
//!          texts = ((1 code-points) | (0)) ...       (0): the text iterator returns Err("E<position>")
//! output = (0) constructor error | (1 batches end extra)   -- see Inference_Model.v
#[path = "../bpe_common.rs"]
mod bpe;
#[path = "../tok_common.rs"]
mod tokc;
use text_utils::data::loading::BatchLimitType;
use text_utils::data::verif_hooks::{inference_loader_batches, InferenceLoaderArgs};
use text_utils::text::{possible_byte_substrings, possible_character_substrings};
use text_utils::tokenization::{
    BPETokenizerConfig, CharTokenizerConfig, GroupAggregation, SpecialConfig, TokenizeConfig, TokenizerConfig,
};
use text_utils::unicode::CharString;
use text_utils::windows::{byte, char, windows, Window, WindowConfig};
use vh::*;

struct C16 {
    /// this binary panics on integer overflow (debug profile) / wraps (release profile)
    checked: bool,
    /// the regular alphabet of the real character tokenizer (inference stream)
    alpha: Vec<char>,
}

const ONE: &[&str] = &["a", "b", "c", " "];
const TWO: &[&str] = &["ä", "ß", "é"];
const THREE: &[&str] = &["中", "€", "\u{200b}"];
const FOUR: &[&str] = &["😀", "𝄞"];
/// multi-code-point clusters in grapheme mode: 3, 3, 8, 11, 2, 9, 8, 6 bytes; then (checked against the
/// model's own segmenter by `uax29_agree`) Prepend + letter (3), Hangul L V T (9), three Regional_Indicators
/// (8 + 4: two clusters), consonant + virama + ZWJ + consonant (12), consonant + ZWJ + consonant (6 + 3)
const CLUSTER: &[&str] = &[
    "e\u{301}",
    "a\u{308}",
    "🇩🇪",
    "👩\u{200d}💻",
    "\r\n",
    "क\u{94d}ष",
    "👍🏽",
    "\u{1100}\u{1161}",
    "\u{600}b",
    "\u{1100}\u{1161}\u{11a8}",
    "🇩🇪🇫",
    "क\u{94d}\u{200d}ष",
    "क\u{200d}ष",
];

fn big(v: &Val) -> Option<usize> {
    match v {
        Val::I(i) => usize::try_from(*i).ok(),
        Val::L(l) if l.len() == 2 => {
            let hi = l[0].as_usize()?;
            let lo = l[1].as_usize()?;
            if hi >= 1 << 32 || lo >= 1 << 32 {
                return None;
            }
            Some((hi << 32) | lo)
        }
        _ => None,
    }
}

fn big_val(u: usize) -> Val {
    if u < 1 << 62 {
        Val::u(u)
    } else {
        Val::L(vec![Val::u(u >> 32), Val::u(u & 0xFFFF_FFFF)])
    }
}

/// a sub-slice of `s` as (offset, length); the literal "" (not inside `s`) is (0, 0)
fn range_in(s: &str, sub: &str) -> Val {
    let base = s.as_ptr() as usize;
    let p = sub.as_ptr() as usize;
    if p >= base && p + sub.len() <= base + s.len() {
        Val::L(vec![Val::u(p - base), Val::u(sub.len())])
    } else if sub.is_empty() {
        Val::L(vec![Val::u(0), Val::u(0)])
    } else {
        Val::L(vec![Val::I(-1), Val::u(sub.len())])
    }
}

fn window_val(s: &str, w: &Window) -> Val {
    let (a, b, c, d) = w.boundaries();
    let (e, f, g, h) = w.byte_boundaries();
    Val::L(vec![
        Val::L(vec![Val::u(a), Val::u(b), Val::u(c), Val::u(d)]),
        Val::L(vec![Val::u(e), Val::u(f), Val::u(g), Val::u(h)]),
        range_in(s, w.str),
    ])
}

/// the numbers of "... at position {p} has more bytes ({b}) than the window length ({w}), ..."
fn wide_info(msg: &str) -> Option<Vec<Val>> {
    let i = msg.rfind("' at position ")?;
    let rest = &msg[i + "' at position ".len()..];
    let (p, rest) = rest.split_once(" has more bytes (")?;
    let (b, rest) = rest.split_once(") than the window length (")?;
    let (w, _) = rest.split_once(')')?;
    Some(vec![
        Val::u(p.parse().ok()?),
        Val::u(b.parse().ok()?),
        Val::u(w.parse().ok()?),
    ])
}

fn result_val(s: &str, r: anyhow::Result<Vec<Window>>) -> Val {
    match r {
        Ok(ws) => Val::L(vec![Val::I(0), Val::list(ws.iter(), |w| window_val(s, w))]),
        Err(e) => {
            let msg = e.to_string();
            if msg.starts_with("max length must be larger than 2 times the context")
                || msg.starts_with("max bytes must be larger than 2 times the context")
            {
                Val::L(vec![Val::I(1), Val::I(1), Val::L(vec![])])
            } else if msg.starts_with("single character in '") {
                match wide_info(&msg) {
                    Some(info) => Val::L(vec![Val::I(1), Val::I(2), Val::L(info)]),
                    None => Val::L(vec![Val::I(1), Val::I(8), Val::L(vec![])]),
                }
            } else {
                Val::L(vec![Val::I(1), Val::I(9), Val::L(vec![])])
            }
        }
    }
}

/// the private `rle_cluster_lengths`, read from the derived Debug output
fn rle_of(cs: &CharString) -> Val {
    let d = format!("{cs:?}");
    let key = "rle_cluster_lengths: [";
    let Some(i) = d.rfind(key) else { return Val::I(-1) };
    let rest = &d[i + key.len()..];
    let Some(j) = rest.find(']') else { return Val::I(-1) };
    let body = &rest[..j];
    let mut out = vec![];
    for part in body.split("), (") {
        let part = part.trim_matches(|c| c == '(' || c == ')' || c == ' ');
        if part.is_empty() {
            continue;
        }
        let Some((a, b)) = part.split_once(", ") else { return Val::I(-1) };
        let (Ok(a), Ok(b)) = (a.parse::<usize>(), b.parse::<usize>()) else { return Val::I(-1) };
        out.push(Val::L(vec![Val::u(a), Val::u(b)]));
    }
    Val::L(out)
}

fn unit(rng: &mut Rng, profile: usize) -> &'static str {
    let k = rng.below(100);
    match profile {
        // mostly ASCII, rare wide characters
        1 => {
            if k < 75 {
                *rng.pick(ONE)
            } else if k < 82 {
                *rng.pick(TWO)
            } else if k < 89 {
                *rng.pick(THREE)
            } else if k < 95 {
                *rng.pick(FOUR)
            } else {
                *rng.pick(CLUSTER)
            }
        }
        // wide only
        2 => {
            if k < 30 {
                *rng.pick(TWO)
            } else if k < 60 {
                *rng.pick(THREE)
            } else if k < 85 {
                *rng.pick(FOUR)
            } else {
                *rng.pick(CLUSTER)
            }
        }
        // uniform mix
        _ => {
            if k < 28 {
                *rng.pick(ONE)
            } else if k < 48 {
                *rng.pick(TWO)
            } else if k < 66 {
                *rng.pick(THREE)
            } else if k < 82 {
                *rng.pick(FOUR)
            } else {
                *rng.pick(CLUSTER)
            }
        }
    }
}

fn text(rng: &mut Rng) -> String {
    let n = match rng.below(20) {
        0 => 0,
        1 => 1,
        2 => 2,
        _ => rng.range(1, 16),
    };
    let profile = rng.below(6);
    let mut s = String::new();
    let mut i = 0;
    while i < n {
        if profile == 5 {
            // pure ASCII with line endings: the only text on which an `is_ascii()` shortcut is taken, and CR LF
            // is a two-byte cluster in grapheme mode
            s.push_str(*rng.pick(&["a", "b", " ", "\r\n", "\r\n", "\n", "\r", "\t", "x"]));
            i += 1;
        } else if profile >= 3 {
            // runs of equal byte length (exercises the run-length encoding)
            let u = unit(rng, 0);
            let r = rng.range(1, 5).min(n - i);
            for _ in 0..r {
                s.push_str(u);
            }
            i += r;
        } else {
            s.push_str(unit(rng, profile));
            i += 1;
        }
    }
    s
}

fn input(kind: usize, max: usize, ctx: usize, s: &str, g: bool, probes: Vec<(usize, usize)>) -> Val {
    Val::L(vec![
        Val::u(kind),
        big_val(max),
        big_val(ctx),
        Val::clusters(s, g),
        Val::b(g),
        Val::list(probes, |(a, b)| Val::L(vec![Val::u(a), Val::u(b)])),
    ])
}

const HUGE: &[usize] = &[
    usize::MAX,
    usize::MAX - 1,
    1 << 63,
    (1 << 63) - 1,
    (1 << 63) + 1,
    1 << 62,
    (1 << 62) + 3,
    1 << 32,
    usize::MAX / 2 + 7,
    usize::MAX / 3,
];

/// EXTREME stream: the values at which a 32- or 64-bit quantity (or a signed view of it) changes behaviour,
/// for every numeric field, combined
const EXT: &[usize] = &[
    0,
    1,
    2,
    3,
    (1 << 31) - 1,
    1 << 31,
    (1 << 31) + 1,
    (1 << 32) - 1,
    1 << 32,
    (1 << 32) + 1,
    (1 << 63) - 1,
    1 << 63,
    (1 << 63) + 1,
    usize::MAX - 1,
    usize::MAX,
];

/// a context derived from an extreme maximum: around max/2 (the validity boundary) and around max
fn ext_ctx_of(rng: &mut Rng, max: usize) -> usize {
    match rng.below(7) {
        0 => max / 2,
        1 => max.wrapping_sub(1) / 2,
        2 => (max / 2).wrapping_add(1),
        3 => max.wrapping_sub(1),
        4 => max,
        5 => (max / 2).saturating_sub(1),
        _ => max.wrapping_add(1),
    }
}

/// a maximum derived from an extreme context: around 2*ctx (computed modulo 2^64, as a wrapped product
/// would be) and around ctx
fn ext_max_of(rng: &mut Rng, ctx: usize) -> usize {
    match rng.below(8) {
        0 => ctx.wrapping_mul(2),
        1 => ctx.wrapping_mul(2).wrapping_add(1),
        2 => ctx.wrapping_mul(2).wrapping_sub(1),
        3 => ctx.saturating_mul(2),
        4 => ctx,
        5 => ctx.wrapping_add(1),
        6 => ctx.wrapping_mul(2).wrapping_add(2),
        _ => usize::MAX,
    }
}

/// does this binary panic on integer overflow (cargo profile with overflow-checks) or wrap?
fn overflow_checked() -> bool {
    let a = std::hint::black_box(usize::MAX);
    let b = std::hint::black_box(1usize);
    let hook = std::panic::take_hook();
    std::panic::set_hook(Box::new(|_| {}));
    #[allow(arithmetic_overflow)]
    let r = std::panic::catch_unwind(move || std::hint::black_box(a + b)).is_err();
    std::panic::set_hook(hook);
    r
}

fn fixed_char(len: usize) -> &'static str {
    match len {
        1 => "a",
        2 => "ä",
        3 => "中",
        _ => "😀",
    }
}

/// sizes that cross the thresholds a refactoring could introduce (u8 / u16 counters, 256-wide blocks,
/// 1024 / 4096 buffers), capped at `max`
const SCALE_SIZES: &[usize] = &[255, 256, 257, 300, 511, 513, 1023, 1025, 4097, 65535, 65536, 65537];
fn scale_size(rng: &mut Rng, max: usize) -> usize {
    let ok: Vec<usize> = SCALE_SIZES.iter().copied().filter(|s| *s <= max).collect();
    if ok.is_empty() { max } else { *rng.pick(&ok) }
}

/// SCALE stream: (text, max, ctx). Cost limits of the MODEL (not of the code): the clause checker evaluates a
/// prefix sum per window boundary (#windows x #clusters), the byte-window loop builds `rev (nrange 0 ws)` with the
/// standard library's quadratic `rev` for every window (#windows x #clusters^2 / 3 list cells, 21 ns each), and every
/// `byte_start_end` walks the run-length vector from its start (0.12 us per run in the unbounded model, 0.57 us in the
/// machine model, which `agree` runs in both profiles: 1.3 us per run step in total). The OCaml driver gives a case
/// 20 s of wall time and the machine may be loaded tenfold: `fits` keeps a case below roughly 0.7 s of model time.
fn fits(kind: usize, lens: &[usize], max: usize, ctx: usize) -> bool {
    let n = lens.len();
    if n == 0 {
        return true;
    }
    let n_f = n as f64;
    let runs = (1 + lens.windows(2).filter(|w| w[0] != w[1]).count()) as f64;
    let per = (lens.iter().sum::<usize>() as f64 / n_f).max(1.0);
    let bytes = kind == 1 || kind == 4;
    let step = max.saturating_sub(2 * ctx).max(1) as f64;
    let step_chars = if bytes { (step / per).max(1.0) } else { step };
    let windows = if kind == 2 { 1.0 } else { (n_f / step_chars).ceil() + 1.0 };
    // calls of byte_start_end: two per start position of possible_character_substrings, six per window, and one per
    // character counted by count_until (every character once as window content, the context characters per window)
    let starts = (n - max.min(n) + 1) as f64;
    let ctx_chars = if bytes { (ctx as f64 / per).min(n_f) } else { 0.0 };
    let walks = 2.0 * starts + 6.0 * windows + if bytes { n_f + windows * (2.0 * ctx_chars + 2.0) } else { 0.0 };
    if walks * runs / 2.0 > 0.5e6 {
        return false;
    }
    if kind == 2 {
        return true;
    }
    if bytes {
        n_f * n_f * n_f / (3.0 * step_chars) <= 5e6
    } else {
        n_f * n_f / step <= 0.7e6
    }
}

fn gen_scale(rng: &mut Rng, kind: usize, g: bool) -> (String, usize, usize) {
    let bytes = kind == 1 || kind == 4;
    // the longest prefix of `units` (a scale size if possible) that `fits`
    let cut = |units: &[&str], max: usize, ctx: usize| -> String {
        let mut k = units.len();
        loop {
            let s: String = units[..k].concat();
            let lens: Vec<usize> = vh::split_clusters(&s, g).map(str::len).collect();
            // (below the smallest scale size a case that still does not fit is halved: with runs of one character,
            // a step of one character and a context of hundreds of characters even 255 units cost the three model
            // runs of `agree` 20 s, the whole budget the driver gives a case)
            if fits(kind, &lens, max, ctx) || k <= 8 {
                return s;
            }
            k = SCALE_SIZES.iter().rev().copied().find(|z| *z < k).unwrap_or(k / 2);
        }
    };
    match rng.below(10) {
        0..=2 => {
            // long text of mixed units (up to 1025 clusters, hundreds of runs), small windows: hundreds of windows
            let n = scale_size(rng, 1025);
            let profile = if bytes { 1 } else { rng.below(3) };
            let units: Vec<&str> = (0..n).map(|_| unit(rng, profile)).collect();
            let ctx = rng.below(7);
            let max = 2 * ctx + 1 + rng.below(8) + if bytes { 12 * rng.below(2) } else { 0 };
            (cut(&units, max, ctx), max, ctx)
        }
        3..=7 => {
            // window sizes in the hundreds and thousands over a text made of long runs of equal byte length
            // (run lengths cross 255 / 256 and 65535 / 65536: the counts of the run-length encoding)
            let max = match rng.below(4) {
                0 => scale_size(rng, 4097) - 1,
                1 => scale_size(rng, 4097) + 1,
                _ => scale_size(rng, 4097),
            };
            let ctx = match rng.below(8) {
                0 => 0,
                1 => 1,
                2 => 7,
                3 => 100.min(max / 3),
                4 => 127.min(max / 3),
                5 => 128.min(max / 3),
                6 => (max - 1) / 2,
                _ => max / 2 + rng.below(2),
            };
            // (65535..65537 clusters: ~1.2 s of model time per case, mostly reading the 2 MB input: 1 in 8)
            let tcap = if rng.chance(1, 8) { 65537 } else { 4097 };
            let target = scale_size(rng, tcap) + rng.below(3);
            let mut units: Vec<&str> = vec![];
            while units.len() < target {
                let u = unit(rng, if bytes { 1 } else { 0 });
                let r = scale_size(rng, 65537).min(target - units.len());
                units.extend(std::iter::repeat(u).take(r));
            }
            (cut(&units, max, ctx), max, ctx)
        }
        _ => {
            // one giant cluster (grapheme mode; hundreds to tens of thousands of code points in code-point mode):
            // a letter with 127 / 128 / 150 / 512 / 2048 / 32768 combining marks = 255 / 257 / ... / 65537 bytes, or an
            // emoji ZWJ chain; windows smaller (error "single character ... has more bytes") and larger than it
            let before: String = (0..rng.below(6)).map(|_| unit(rng, 1)).collect();
            let after: String = (0..rng.below(6)).map(|_| unit(rng, 1)).collect();
            let zwj = rng.chance(1, 3);
            let ctx = *rng.pick(&[0usize, 1, 3, 128]);
            let which = rng.below(4);
            let mut cands: Vec<usize> = vec![127, 128, 150, 512, 2048, 32768];
            cands.truncate(rng.range(1, 6));
            loop {
                let marks = cands.pop().unwrap_or(127);
                let giant: String = if zwj {
                    std::iter::once("👩").chain(std::iter::repeat("\u{200d}💻").take(marks.min(2048) / 2)).collect()
                } else {
                    std::iter::once("e").chain(std::iter::repeat("\u{301}").take(marks)).collect()
                };
                let gb = giant.len();
                let max = match which {
                    0 => 2 * ctx + 1 + rng.below(12),
                    1 => gb + ctx + rng.below(2),
                    2 => gb + 2 * ctx + rng.below(2),
                    _ => scale_size(rng, 4097),
                };
                let s = format!("{before}{giant}{after}");
                let lens: Vec<usize> = vh::split_clusters(&s, g).map(str::len).collect();
                if fits(kind, &lens, max, ctx) || cands.is_empty() {
                    return (s, max, ctx);
                }
            }
        }
    }
}


// ---------------------------------------------------------------------------------------------
// the inference loader stream

const INF_DIR: &str = "/tmp/c16-inf";
const BPE_SPECIALS: &[&str] = &["<pad>", "<bos>", "<eos>", "<unk>", "<x>", "[SEP]"];

fn strs_of(v: &Val) -> Option<Vec<String>> {
    v.as_l()?.iter().map(|s| s.to_string_lossy()).collect()
}

/// a BPE configuration as in C02: (tbl maxv toks prefix suffix)
fn gen_bpe_cfg(rng: &mut Rng) -> (Vec<Val>, bpe::Table, Vec<&'static str>) {
    let (table, alpha) = bpe::gen_table(rng);
    let mut toks: Vec<&str> = vec!["<pad>"];
    for _ in 0..rng.below(4) {
        toks.push(*rng.pick(BPE_SPECIALS));
    }
    if rng.chance(1, 40) {
        toks.clear(); // constructor error
    } else if rng.chance(1, 4) {
        rng.shuffle(&mut toks);
    }
    let pick_some = |rng: &mut Rng, toks: &[&str]| -> Vec<String> {
        let mut v = vec![];
        if toks.is_empty() {
            return v;
        }
        let n = match rng.below(6) {
            0..=2 => 0,
            3..=4 => 1,
            _ => 2,
        };
        for _ in 0..n {
            if rng.chance(1, 30) {
                v.push("<nope>".to_string()); // constructor error
            } else {
                v.push(rng.pick(toks).to_string());
            }
        }
        v
    };
    let prefix = pick_some(rng, &toks);
    let suffix = pick_some(rng, &toks);
    let maxv = match rng.below(10) {
        0..=5 => None,
        6 => Some(rng.below(300)),
        _ => Some(256 + toks.len() + rng.below(table.len() + 3)),
    };
    let cfg = vec![
        bpe::table_val(&table),
        Val::opt(maxv, Val::u),
        Val::list(toks.iter(), |s| Val::str(s)),
        Val::list(prefix.iter(), |s| Val::str(s)),
        Val::list(suffix.iter(), |s| Val::str(s)),
    ];
    (cfg, table, alpha)
}

enum InfTok {
    C01(tokc::TokCfg),
    Bpe { table: bpe::Table, maxv: Option<usize>, special: SpecialConfig, g: bool },
}

fn parse_tok(v: &Val) -> Option<InfTok> {
    let l = v.as_l()?;
    match l.first()?.as_i()? {
        0 => {
            let c = tokc::TokCfg::from_vals(&l[1..])?;
            if l.len() != 11 || !c.prefix_free() {
                return None;
            }
            // the alphabet field must be the real one (character tokenizer) / empty (byte tokenizer)
            Some(InfTok::C01(c))
        }
        1 => {
            if l.len() != 6 {
                return None;
            }
            let table = bpe::val_table(&l[1])?;
            let maxv = match l[2].as_l()? {
                [] => None,
                [x] => Some(x.as_usize()?),
                _ => return None,
            };
            let toks = strs_of(&l[3])?;
            let special = SpecialConfig {
                pad: toks.first().cloned().unwrap_or_else(|| "<pad>".to_string()),
                tokens: toks,
                prefix: strs_of(&l[4])?,
                suffix: strs_of(&l[5])?,
            };
            let g = table.len() % 2 == 1;
            Some(InfTok::Bpe { table, maxv, special, g })
        }
        _ => None,
    }
}

/// the end state of the iteration from the message of the error `__next__` returned
fn end_val(msg: Option<&str>) -> Val {
    let Some(msg) = msg else { return Val::L(vec![]) };
    let Some(rest) = msg.strip_prefix("error in inference iterator: ") else {
        return Val::L(vec![Val::I(9)]);
    };
    if let Some(k) = rest.strip_prefix('E').and_then(|k| k.parse::<usize>().ok()) {
        return Val::L(vec![Val::I(0), Val::u(k)]);
    }
    if rest.starts_with("max length must be larger than 2 times the context")
        || rest.starts_with("max bytes must be larger than 2 times the context")
    {
        return Val::L(vec![Val::I(1), Val::I(1), Val::L(vec![])]);
    }
    if rest.starts_with("single character in '") {
        if let Some(info) = wide_info(rest) {
            return Val::L(vec![Val::I(1), Val::I(2), Val::L(info)]);
        }
    }
    Val::L(vec![Val::I(9)])
}

fn quad(q: (usize, usize, usize, usize)) -> Val {
    Val::L(vec![Val::u(q.0), Val::u(q.1), Val::u(q.2), Val::u(q.3)])
}

fn inf_text(rng: &mut Rng, tok: &InfTok, alpha: &[char], bpe_alpha: &[&'static str]) -> String {
    match rng.below(10) {
        0 => String::new(),
        1..=4 => text(rng),
        _ => match tok {
            InfTok::C01(c) => tokc::gen_text(rng, c, 14, alpha),
            InfTok::Bpe { table, .. } => bpe::gen_text(rng, bpe_alpha, table),
        },
    }
}

fn gen_inference(rng: &mut Rng, alpha: &[char]) -> Val {
    // tokenizer
    let (tokv, tok, bpe_alpha): (Val, InfTok, Vec<&'static str>) = match rng.below(20) {
        0..=8 | 9..=15 => {
            let is_char = rng.below(16) >= 9;
            let c = loop {
                let c = tokc::gen_cfg(rng, is_char);
                if c.prefix_free() {
                    break c;
                }
            };
            let mut l = vec![Val::I(0)];
            l.extend(c.to_vals(alpha));
            (Val::L(l), InfTok::C01(c), vec![])
        }
        _ => {
            let (cfg, _table, a) = gen_bpe_cfg(rng);
            let mut l = vec![Val::I(1)];
            l.extend(cfg);
            let v = Val::L(l);
            let t = parse_tok(&v).expect("bpe cfg");
            (v, t, a)
        }
    };
    let ign = matches!(tok, InfTok::Bpe { .. }) || rng.chance(1, 2);
    // windows
    let g = rng.chance(1, 2);
    let kind = match rng.below(20) {
        0..=8 => 0,
        9..=17 => 1,
        _ => 2,
    };
    let (max, ctx) = match rng.below(20) {
        0..=13 => {
            let c = rng.below(4);
            (2 * c + 1 + rng.below(8) + if kind == 1 { 3 * rng.below(4) } else { 0 }, c)
        }
        14..=16 => (rng.below(10), rng.below(5)), // often invalid: max <= 2 * ctx
        17 => {
            let c = rng.below(4);
            (2 * c + rng.below(2), c) // the boundary of validity
        }
        _ => (20 + rng.below(60), rng.below(8)), // one window per text
    };
    // loader
    let threads = match rng.below(10) {
        0..=1 => 0,
        2..=3 => 1,
        4..=6 => 2,
        7..=8 => 3,
        _ => 4,
    };
    let buffer = rng.below(5);
    let padded = rng.chance(1, 2);
    let limit = if padded { *rng.pick(&[0usize, 1, 4, 8, 12, 16, 24, 40]) } else { rng.below(6) };
    let prefetch = if rng.chance(1, 8) { 1000 } else { rng.below(5) };
    let sort = rng.chance(1, 2);
    // texts
    let n = match rng.below(12) {
        0 => 0,
        1 => 1,
        _ => rng.range(2, 8),
    };
    let mut texts: Vec<Option<String>> =
        (0..n).map(|_| if rng.chance(1, 14) { None } else { Some(inf_text(rng, &tok, alpha, &bpe_alpha)) }).collect();
    match rng.below(10) {
        // an Err in the middle of the list with texts after it
        0..=2 if n >= 3 => {
            let k = rng.range(1, n - 2);
            texts[k] = None;
        }
        // several Err entries (as many as there are worker threads, and more)
        3 if n >= 4 => {
            for _ in 0..rng.range(2, 4) {
                let k = rng.below(n);
                texts[k] = None;
            }
        }
        // a character wider than the byte window (an Err RESULT) followed by an Err text (the two recorded errors)
        4 if n >= 3 && kind == 1 => {
            let k = rng.below(n - 1);
            texts[k] = Some(format!("ab{}c", rng.pick(CLUSTER)));
            if rng.chance(1, 2) {
                let j = rng.range(k + 1, n - 1);
                texts[j] = None;
            }
        }
        _ => {}
    }
    Val::L(vec![
        Val::I(10),
        tokv,
        Val::L(vec![Val::b(ign), Val::u(kind), Val::u(max), Val::u(ctx), Val::b(g)]),
        Val::L(vec![Val::u(threads), Val::u(buffer), Val::u(limit), Val::b(padded), Val::u(prefetch), Val::b(sort)]),
        Val::list(texts.iter(), |t| match t {
            Some(s) => Val::L(vec![Val::I(1), Val::str(s)]),
            None => Val::L(vec![Val::I(0)]),
        }),
    ])
}

fn run_inference(l: &[Val], alpha: &[char]) -> Option<(Val, Vec<String>)> {
    if l.len() != 5 {
        return None;
    }
    let tok = parse_tok(&l[1])?;
    if let InfTok::C01(c) = &tok {
        // the alphabet handed to the model must be the real one
        let mut want = vec![Val::I(0)];
        want.extend(c.to_vals(alpha));
        if Val::L(want) != l[1] {
            return None;
        }
    }
    let w = l[2].as_l()?;
    let lo = l[3].as_l()?;
    if w.len() != 5 || lo.len() != 6 {
        return None;
    }
    let ign = w[0].as_bool()?;
    let (kind, max, ctx, g) = (w[1].as_usize()?, w[2].as_usize()?, w[3].as_usize()?, w[4].as_bool()?);
    if kind > 2 || max >= 1 << 20 || ctx >= 1 << 20 {
        return None;
    }
    // the BPE model covers tokenize(_, true) only
    if matches!(tok, InfTok::Bpe { .. }) && !ign {
        return None;
    }
    let (threads, buffer, limit, padded, prefetch, sort) =
        (lo[0].as_usize()?, lo[1].as_usize()?, lo[2].as_usize()?, lo[3].as_bool()?, lo[4].as_usize()?, lo[5].as_bool()?);
    if threads > 8 || buffer > 64 || limit > 4096 || prefetch > 4096 {
        return None;
    }
    let mut texts: Vec<Option<String>> = vec![];
    for t in l[4].as_l()? {
        let t = t.as_l()?;
        match t {
            [Val::I(0)] => texts.push(None),
            [Val::I(1), s] => texts.push(Some(s.to_string_lossy()?)),
            _ => return None,
        }
    }
    if texts.len() > 64 {
        return None;
    }

    let mut merge_path = None;
    let tokenizer = match &tok {
        InfTok::C01(c) => TokenizerConfig {
            tokenize: if c.is_char {
                TokenizeConfig::Character(CharTokenizerConfig { use_graphemes: c.g, unk_token: c.unk.clone() })
            } else {
                TokenizeConfig::Byte(c.byte_cfg(GroupAggregation::Mean))
            },
            special: c.special(),
        },
        InfTok::Bpe { table, maxv, special, g } => {
            let (path, _mf) = bpe::write_merge_file(INF_DIR, table, None).ok()?;
            merge_path = Some(path.clone());
            TokenizerConfig {
                tokenize: TokenizeConfig::BPE(BPETokenizerConfig { merge_file: path, max_vocab_size: *maxv, use_graphemes: *g }),
                special: special.clone(),
            }
        }
    };
    let window = match kind {
        0 => WindowConfig::Character(max, ctx, g),
        1 => WindowConfig::Bytes(max, ctx, g),
        _ => WindowConfig::Full(g),
    };
    let args = InferenceLoaderArgs {
        tokenizer,
        window,
        ignore_special_tokens: ign,
        num_threads: threads as u8,
        buffer_size: buffer,
        batch_limit: limit,
        batch_limit_type: if padded { BatchLimitType::PaddedItemSize } else { BatchLimitType::BatchSize },
        prefetch_factor: prefetch,
        sort,
    };
    let texts2 = texts.clone();
    let out = with_timeout(30000, move || {
        let it = texts2
            .into_iter()
            .enumerate()
            .map(|(k, t)| t.ok_or_else(|| anyhow::anyhow!("E{k}")));
        match inference_loader_batches(it, args, Some(4096), 2) {
            Err(_) => Val::L(vec![Val::I(0)]),
            Ok((batches, end, extra)) => Val::L(vec![
                Val::I(1),
                Val::list(batches.iter(), |b| {
                    Val::L(vec![
                        Val::u(b.len),
                        Val::list(b.sizes.iter(), |s| Val::u(*s)),
                        Val::list(b.token_ids.iter(), |ids| tokc::ids_val(ids)),
                        Val::list(b.indices.iter(), |(i, k)| Val::L(vec![Val::u(*i), Val::u(*k)])),
                        Val::list(b.items.iter(), |x| {
                            Val::L(vec![
                                tokc::ids_val(&x.token_ids),
                                Val::u(x.item_idx),
                                Val::u(x.window_idx),
                                quad(x.window),
                                quad(x.byte_window),
                                Val::u(x.len),
                                Val::u(x.window_bytes),
                                Val::u(x.context_bytes),
                            ])
                        }),
                    ])
                }),
                end_val(end.as_deref()),
                Val::list(extra.iter(), |r| match r {
                    Ok(n) if *n == usize::MAX => Val::L(vec![]),
                    Ok(n) => Val::L(vec![Val::I(7), Val::u(*n)]),
                    Err(m) => end_val(Some(m.as_str())),
                }),
            ]),
        }
    });
    if let Some(p) = merge_path {
        let _ = std::fs::remove_file(p);
    }
    // a threaded Pipe installs a process-wide panic hook that exits the process; the windows cases of this binary
    // rely on catching panics (asserts in sub / char_range_to_byte_range): back to a silent hook once the loader is gone
    let _ = std::panic::take_hook();
    std::panic::set_hook(Box::new(|_| {}));

    let mut tags = vec!["inf".to_string()];
    tags.push(match &tok {
        InfTok::C01(c) if c.is_char => "tok:char".into(),
        InfTok::C01(_) => "tok:byte".into(),
        InfTok::Bpe { .. } => "tok:bpe".into(),
    });
    tags.push(format!("thr:{threads}"));
    tags.push(format!("buf:{buffer}"));
    tags.push(if sort { "sort".into() } else { "plain".into() });
    tags.push(if padded { "ty:padded".into() } else { "ty:count".into() });
    tags.push(["wk:char", "wk:byte", "wk:full"][kind].to_string());
    let first_err = texts.iter().position(|t| t.is_none());
    if let Some(k) = first_err {
        tags.push("err-text".into());
        if texts[k + 1..].iter().any(|t| t.is_some()) {
            tags.push("err-mid".into());
        }
        if texts.iter().filter(|t| t.is_none()).count() >= 2 {
            tags.push("err-many".into());
        }
    }
    if texts.iter().any(|t| matches!(t, Some(s) if s.is_empty())) {
        tags.push("empty-text".into());
    }
    match out.nth(0).and_then(|x| x.as_i()) {
        Some(0) => tags.push("ctor-err".into()),
        Some(1) => {
            let nb = out.nth(1).and_then(|b| b.as_l()).map(|b| b.len()).unwrap_or(0);
            let multi = out
                .nth(1)
                .and_then(|b| b.as_l())
                .map(|bs| bs.iter().any(|b| b.nth(3).and_then(|x| x.as_l()).map(|ix| ix.iter().any(|p| p.nth(1).and_then(|k| k.as_usize()).unwrap_or(0) >= 1)).unwrap_or(false)))
                .unwrap_or(false);
            match out.nth(2).and_then(|e| e.as_l()).map(|e| e.first().and_then(|c| c.as_i())) {
                Some(None) => tags.push("end:ok".into()),
                Some(Some(0)) => tags.push("end:text".into()),
                Some(Some(1)) => tags.push("end:win".into()),
                _ => tags.push("end:other".into()),
            }
            // non-trivial: at least two batches, a text with several windows, worker threads
            if nb >= 2 && multi && threads >= 1 {
                tags.push("nt".into());
            }
        }
        Some(-777) => tags.push("panic".into()),
        Some(-778) => {
            tags.push("hang".into());
            tags.push("timing-verdict".into());
        }
        _ => tags.push("other".into()),
    }
    Some((out, tags))
}

impl Prop for C16 {
    fn gen(&mut self, rng: &mut Rng, _tier: Tier, i: usize, _n: usize) -> Val {
        // one case in six: the inference loader (own generator state, so that the windows stream is what it was)
        if i % 6 == 5 {
            let mut r = rng.fork();
            return gen_inference(&mut r, &self.alpha);
        }
        let g = rng.chance(1, 2);
        let kind = match rng.below(100) {
            0..=34 => 0,
            35..=79 => 1,
            80..=84 => 2,
            85..=91 => 3,
            _ => 4,
        };
        if i == 2 || rng.chance(1, 60) {
            let (s, max, ctx) = gen_scale(rng, kind, g);
            let n = CharString::new(&s, g).len();
            let np = rng.below(4);
            let probes = (0..np)
                .map(|_| {
                    let a = if rng.chance(1, 2) { rng.below(n + 3) } else { (n + 2).saturating_sub(rng.below(300)) };
                    let b = if rng.chance(1, 8) { rng.below(n + 3) } else { a + rng.below(n + 3 - a.min(n + 2)) };
                    (a, b)
                })
                .collect();
            return input(kind, max, ctx, &s, g, probes);
        }
        let stream = rng.below(100);
        let mut s = text(rng);
        let (max, ctx);
        let mut ext = false;
        if stream < 60 {
            // valid configuration, small windows
            let c = rng.below(7);
            ctx = c;
            max = (2 * c + 1 + rng.below(8)).min(14.max(2 * c + 1));
        } else if stream < 85 {
            // arbitrary small configuration
            max = rng.below(15);
            ctx = rng.below(7);
        } else {
            // edge stream
            match rng.below(14) {
                10 => {
                    // EXTREME: both fields from the table
                    max = *rng.pick(EXT);
                    ctx = *rng.pick(EXT);
                    ext = true;
                }
                11 => {
                    // EXTREME maximum, context at its validity boundary
                    max = *rng.pick(EXT);
                    ctx = ext_ctx_of(rng, max);
                    ext = true;
                }
                12 => {
                    // EXTREME context, maximum around (wrapped) 2 * context
                    ctx = *rng.pick(EXT);
                    max = ext_max_of(rng, ctx);
                    ext = true;
                }
                13 => {
                    // EXTREME relative to the text: max - ctx around the number of characters / bytes (the
                    // condition under which a second window exists), with the largest valid contexts
                    let n = if rng.chance(1, 2) { CharString::new(&s, g).len() } else { s.len() };
                    let d = (n + rng.below(3)).saturating_sub(1);
                    ctx = match rng.below(4) {
                        0 => d.saturating_sub(1),
                        1 => d / 2,
                        2 => *rng.pick(EXT),
                        _ => rng.below(4),
                    };
                    max = ctx.saturating_add(d);
                    ext = true;
                }
                0 => {
                    s = String::new();
                    max = rng.below(15);
                    ctx = rng.below(7);
                }
                1 => {
                    s = unit(rng, 0).to_string();
                    max = rng.below(15);
                    ctx = rng.below(7);
                }
                2 => {
                    // boundary of validity
                    ctx = rng.below(7);
                    max = 2 * ctx + rng.below(2);
                }
                3 => {
                    // all characters of one byte length (one run)
                    let u = unit(rng, 0);
                    s = u.repeat(rng.range(1, 16));
                    ctx = rng.below(4);
                    max = 2 * ctx + 1 + rng.below(6);
                }
                4 => {
                    // alternating byte lengths (runs of one)
                    let (u, v) = (unit(rng, 0), unit(rng, 2));
                    s = (0..rng.range(2, 16)).map(|i| if i % 2 == 0 { u } else { v }).collect();
                    ctx = rng.below(4);
                    max = 2 * ctx + 1 + rng.below(6);
                }
                5 => {
                    // huge maximum, small context
                    max = *rng.pick(HUGE);
                    ctx = rng.below(7);
                }
                6 => {
                    // huge context
                    ctx = *rng.pick(HUGE);
                    max = if rng.chance(1, 2) { *rng.pick(HUGE) } else { rng.below(15) };
                }
                7 => {
                    // a character wider than every window in an otherwise narrow text
                    let n = rng.range(1, 10);
                    let pos = rng.below(n);
                    s = (0..n).map(|i| if i == pos { *rng.pick(CLUSTER) } else { *rng.pick(ONE) }).collect();
                    ctx = rng.below(3);
                    max = 2 * ctx + 1 + rng.below(4);
                }
                8 => {
                    // window length 1
                    ctx = rng.below(7);
                    max = 2 * ctx + 1;
                }
                _ => {
                    // context longer than the text
                    ctx = rng.range(5, 40);
                    max = 2 * ctx + 1 + rng.below(5);
                }
            }
        }
        let n = CharString::new(&s, g).len();
        let np = rng.below(4);
        let probes = (0..np)
            .map(|_| {
                if ext && rng.chance(1, 2) {
                    // extreme indices (numbers on the wire stay below 2^62)
                    const PX: &[usize] = &[(1 << 31) - 1, 1 << 31, (1 << 32) - 1, 1 << 32, (1 << 32) + 1, (1 << 62) - 1];
                    let a = if rng.chance(1, 2) { *rng.pick(PX) } else { rng.below(n + 3) };
                    let b = if rng.chance(1, 4) { rng.below(n + 3) } else { *rng.pick(PX) };
                    return (a, b);
                }
                let a = rng.below(n + 3);
                let b = if rng.chance(1, 8) { rng.below(n + 3) } else { a + rng.below(n + 3 - a.min(n + 2)) };
                (a, b)
            })
            .collect();
        input(kind, max, ctx, &s, g, probes)
    }

    fn exhaustive(&mut self, _tier: Tier) -> Vec<Val> {
        // all byte-length vectors of length <= 6 over {1,2,3,4} x max <= 8 x ctx <= 3 x
        // {windows(Character), windows(Bytes)}, Full once per vector, the direct calls on
        // the empty text. Only this process' shard is materialised (placeholders elsewhere,
        // which main_loop filters out by index).
        let args: Vec<String> = std::env::args().collect();
        let arg = |name: &str| args.iter().position(|a| a == name).and_then(|p| args.get(p + 1)).and_then(|s| s.parse::<usize>().ok());
        let (k, m) = (arg("--shard").unwrap_or(0), arg("--shards").unwrap_or(1).max(1));
        let mut out = vec![];
        let mut idx = 0usize;
        let mut push = |out: &mut Vec<Val>, mk: &dyn Fn() -> Val| {
            if idx % m == k {
                out.push(mk());
            } else {
                out.push(Val::I(0));
            }
            idx += 1;
        };
        let mut vecs: Vec<Vec<usize>> = vec![vec![]];
        let mut frontier: Vec<Vec<usize>> = vec![vec![]];
        for _ in 0..6 {
            let mut next = vec![];
            for v in &frontier {
                for b in 1..=4 {
                    let mut w = v.clone();
                    w.push(b);
                    next.push(w);
                }
            }
            vecs.extend(next.iter().cloned());
            frontier = next;
        }
        for (vi, v) in vecs.iter().enumerate() {
            let s: String = v.iter().map(|b| fixed_char(*b)).collect();
            let g = vi % 2 == 0;
            let n = v.len();
            let probes: Vec<(usize, usize)> = if n <= 3 {
                (0..=n + 1).flat_map(|a| (a..=n + 1).map(move |b| (a, b))).collect()
            } else {
                vec![(vi % (n + 1), n), (0, vi % (n + 2))]
            };
            push(&mut out, &|| input(2, 0, 0, &s, g, probes.clone()));
            // EXTREME cross product: every pair of table values for both numeric fields, every entry point,
            // on all texts of length <= 2 and two longer ones
            if n <= 2 || vi == 100 || vi == 1000 {
                for max in EXT {
                    for ctx in EXT {
                        for kind in [0usize, 1, 3, 4] {
                            push(&mut out, &|| input(kind, *max, *ctx, &s, g, vec![]));
                        }
                    }
                }
            }
            for max in 0..=8 {
                for ctx in 0..=3 {
                    let kinds: &[usize] = if v.is_empty() { &[0, 1, 3, 4] } else { &[0, 1] };
                    for kind in kinds {
                        push(&mut out, &|| input(*kind, max, ctx, &s, g, vec![]));
                    }
                }
            }
        }
        out
    }

    fn selfcheck(&mut self) -> Vec<String> {
        // the tie of the two profiles of the machine model: the debug harness must trap overflow, the release one wrap
        let mut out = vec![];
        if cfg!(debug_assertions) != self.checked {
            out.push(format!(
                "SELFCHECK-FAIL overflow behaviour of this binary (checked = {}) does not match its cargo profile (debug = {})",
                self.checked,
                cfg!(debug_assertions)
            ));
        }
        out
    }

    fn run(&mut self, inp: &Val) -> Option<(Val, Vec<String>)> {
        let l = inp.as_l()?;
        if l.first().and_then(|k| k.as_i()) == Some(10) {
            let (out, mut tags) = run_inference(l, &self.alpha)?;
            tags.push(if self.checked { "ovf:checked".into() } else { "ovf:wrapping".into() });
            return Some((out, tags));
        }
        if l.len() != 6 {
            return None;
        }
        let kind = l[0].as_usize()?;
        if kind > 4 {
            return None;
        }
        let max = big(&l[1])?;
        let ctx = big(&l[2])?;
        // canonical number encoding only
        if big_val(max) != l[1] || big_val(ctx) != l[2] {
            return None;
        }
        let g = l[4].as_bool()?;
        let s = l[3].clusters_to_string()?;
        // the cluster list must be what the real segmenter produces
        if Val::clusters(&s, g) != l[3] {
            return None;
        }
        let mut probes = vec![];
        for p in l[5].as_l()? {
            let p = p.as_l()?;
            if p.len() != 2 {
                return None;
            }
            probes.push((p[0].as_usize()?, p[1].as_usize()?));
        }

        // 0. the windows
        let s2 = s.clone();
        // scale cases (long texts) get a longer budget on the shared machine
        // (the base budget was 5 s; on the shared machine, with the busy-waiting Pipe workers of the inference cases running in
        // the neighbouring shards, a call that needs microseconds has been seen to miss it: 20 s, and a verdict that rests on
        // the limit is tagged `timing-verdict` below, so that the runner repeats the case alone with VERIF_PATIENCE before it
        // believes it — the runner recognises a hang by itself only when the WHOLE output is (-778))
        let budget = if s.len() >= 255 { 30000 } else { 20000 };
        let wres = with_timeout(budget, move || {
            let r = match kind {
                0 => windows(&s2, &WindowConfig::Character(max, ctx, g)),
                1 => windows(&s2, &WindowConfig::Bytes(max, ctx, g)),
                2 => windows(&s2, &WindowConfig::Full(g)),
                3 => char(&s2, max, ctx, g),
                _ => byte(&s2, max, ctx, g),
            };
            result_val(&s2, r)
        });

        // 1. the CharString itself
        let s3 = s.clone();
        let csv = guard(move || {
            let cs = CharString::new(&s3, g);
            Val::L(vec![
                rle_of(&cs),
                Val::list(cs.get_char_byte_lengths(), Val::u),
                Val::u(cs.len()),
            ])
        });

        // 2. probes of get / sub
        let mut pv = vec![];
        for (a, b) in probes {
            let s4 = s.clone();
            let gv = guard(move || {
                let cs = CharString::new(&s4, g);
                Val::opt(cs.get(a), |x| range_in(&s4, x))
            });
            let s5 = s.clone();
            let sv = guard(move || {
                let cs = CharString::new(&s5, g);
                range_in(&s5, cs.sub(a, b))
            });
            let flat = |v: Val| if v == Val::panic() { Val::I(-777) } else { v };
            pv.push(Val::L(vec![flat(gv), flat(sv)]));
        }

        // 3. possible_character_substrings (informational: same index arithmetic)
        let s6 = s.clone();
        let pcs = guard(move || {
            let r = possible_character_substrings(&s6, max, g);
            Val::L(vec![
                Val::I(0),
                Val::list(r, |(a, b, c)| Val::L(vec![Val::u(a), Val::u(b), Val::u(c)])),
            ])
        });

        // 4. possible_byte_substrings, compared with its reference model and its machine model (`pbs_agree`); `()` = not
        // run: the models walk the list of byte lengths from the front for every slice and every `get` (quadratic; three
        // model runs per case), the code is quadratic in the text when max is large
        let nclusters = vh::split_clusters(&s, g).count();
        let pbs = if nclusters <= 300 {
            let s8 = s.clone();
            guard(move || {
                let r = possible_byte_substrings(&s8, max, g);
                Val::L(vec![
                    Val::I(0),
                    Val::list(r, |(a, b, c)| Val::L(vec![Val::u(a), Val::u(b), Val::u(c)])),
                ])
            })
        } else {
            Val::L(vec![])
        };

        let mut tags = vec![];
        tags.push(if g { "g".to_string() } else { "cp".to_string() });
        if pbs != Val::L(vec![]) {
            tags.push("pbs-run".into());
        }
        // cluster byte lengths straight from the segmentation (not through the RLE)
        let lens: Vec<usize> = vh::split_clusters(&s, g).map(str::len).collect();
        // informational: possible_byte_substrings shares the offset arithmetic (no model, no clause)
        if max < 64 {
            let s7 = s.clone();
            let l7 = lens.clone();
            let r = std::panic::catch_unwind(move || {
                let mut pre = vec![0usize];
                for b in &l7 {
                    pre.push(pre.last().unwrap() + b);
                }
                possible_byte_substrings(&s7, max, g).into_iter().all(|(sb, eb, n)| {
                    if s7.is_empty() {
                        return (sb, eb, n) == (0, 0, 0);
                    }
                    match pre.iter().position(|p| *p == sb) {
                        Some(a) => n >= 1 && a + n < pre.len() && pre[a + n] == eb && eb - sb <= max,
                        None => false,
                    }
                })
            });
            tags.push(match r {
                Ok(true) => "pbs-ok".into(),
                Ok(false) => "pbs-bad".into(),
                Err(_) => "pbs-panic".into(),
            });
        }
        if kind == 1 || kind == 4 {
            if let Some(widest) = lens.iter().max() {
                if max > ctx.saturating_mul(2) && *widest > max - 2 * ctx && *widest <= max - ctx {
                    tags.push("grey".into());
                }
            }
        }
        // scale tags, derived from the input
        {
            let longest_run = {
                let (mut best, mut cur, mut prev) = (0usize, 0usize, 0usize);
                for b in &lens {
                    cur = if *b == prev { cur + 1 } else { 1 };
                    prev = *b;
                    best = best.max(cur);
                }
                best
            };
            let widest = lens.iter().copied().max().unwrap_or(0);
            let big_win = (255..1usize << 32).contains(&max) && kind != 2;
            if lens.len() >= 255 || longest_run >= 255 || widest >= 255 || (big_win && s.len() >= 255) {
                tags.push("scale".into());
                if lens.len() >= 255 {
                    tags.push("scale-text".into());
                }
                if longest_run >= 255 {
                    tags.push("scale-run".into());
                }
                if widest >= 255 {
                    tags.push("scale-cluster".into());
                }
                if big_win {
                    tags.push("scale-window".into());
                }
            }
        }
        tags.push(["k:char", "k:byte", "k:full", "k:char-direct", "k:byte-direct"][kind].to_string());
        if s.is_empty() {
            tags.push("empty".into());
        }
        if max >= 1 << 62 || ctx >= 1 << 62 {
            tags.push("huge".into());
        }
        if max >= (1 << 31) - 1 || ctx >= (1 << 31) - 1 {
            tags.push("ext".into());
            if EXT.contains(&max) && EXT.contains(&ctx) {
                tags.push("ext-pair".into());
            }
            // the product 2 * ctx does not fit into a usize: where the pinned code overflowed
            if ctx > usize::MAX / 2 {
                tags.push("ext-2ctx-overflows".into());
            }
            if max > ctx.saturating_mul(2) {
                tags.push("ext-valid".into());
            }
        }
        tags.push(if self.checked { "ovf:checked".into() } else { "ovf:wrapping".into() });
        let nwin = wres.nth(1).and_then(|w| w.as_l()).map(|w| w.len());
        match (wres.nth(0).and_then(|x| x.as_i()), wres.nth(1).and_then(|x| x.as_i())) {
            (Some(0), _) => {
                let nw = nwin.unwrap_or(0);
                tags.push(if nw >= 2 { "ok-multi".into() } else { "ok-single".into() });
                // non-trivial: several windows over a text in which byte and character offsets differ
                if nw >= 2 && s.len() != CharString::new(&s, g).len() && kind != 2 {
                    tags.push("nt".into());
                }
            }
            (Some(1), Some(1)) => tags.push("err-config".into()),
            (Some(1), Some(2)) => tags.push("err-wide".into()),
            (Some(-777), _) => tags.push("panic".into()),
            (Some(-778), _) => {
                tags.push("hang".into());
                tags.push("timing-verdict".into());
            }
            _ => tags.push("other".into()),
        }
        Some((Val::L(vec![wres, csv, Val::L(pv), pcs, pbs]), tags))
    }

    fn canon(&mut self, inp: &Val) -> Option<Val> {
        let l = inp.as_l()?;
        if l.first().and_then(|k| k.as_i()) == Some(10) {
            // nothing is derived in an inference case: it is canonical if it parses (run() decides)
            return Some(inp.clone());
        }
        if l.len() != 6 {
            return None;
        }
        let kind = l[0].as_usize()?.min(4);
        let max = big(&l[1])?;
        let ctx = big(&l[2])?;
        let g = l[4].as_bool()?;
        let s = l[3].clusters_to_string()?;
        let mut probes = vec![];
        for p in l[5].as_l()? {
            if let Some(p) = p.as_l() {
                if p.len() == 2 {
                    if let (Some(a), Some(b)) = (p[0].as_usize(), p[1].as_usize()) {
                        probes.push((a, b));
                    }
                }
            }
        }
        Some(input(kind, max, ctx, &s, g, probes))
    }
}

fn main() {
    main_loop(C16 { checked: overflow_checked(), alpha: tokc::alphabet() });
}

//! C13: src/metrics.rs against the model.
//! input  = (fn cfg data raw kf)   see C13_Model.v; `data` is the ORACLE (for the text functions: the cluster
//!          lists of the real normalize(clean(s)) under the requested use_graphemes), `raw` the unprocessed
//!          strings the implementation is called with — the model computes clean + NFKC + segmentation from
//!          them itself and `agree` demands that the result is `data`; `kf` (fn 3/4): per raw text the pair
//!          (kf3_free class): kf3_free by the transliteration below of C13_Model.kf3_free, class with the real
//!          crate — `agree` demands that both are the model's. Older 4-field inputs are canonicalised.
//! output = (0 x) | (1) Err | (-777) panic
//! Every f64 crosses as its bit fields (k s m e): k = 0 zero, 1 finite non-zero (value m * 2^e with the
//! canonical mantissa), 2 infinity, 3 NaN; s = sign bit.  beta in cfg is such a 4-list (older corpus files:
//! a rational (num den)).
use text_utils::metrics::{
    accuracy, binary_f1, mean_edit_distance, mean_normalized_edit_distance, spelling_correction_f1,
    whitespace_correction_f1, F1Info, WhitespaceCorrectionMode,
};
use text_utils::text::clean;
use text_utils::unicode::{normalize, CharString, Normalization};
use text_utils::whitespace::Operation;
use vh::*;

#[path = "../seam.rs"]
mod seam;

struct C13;

/// an f64 as the fields of `to_bits`: (k s m e)
fn f64_val(x: f64) -> Val {
    let bits = x.to_bits();
    let s = (bits >> 63) as i64;
    let exp = ((bits >> 52) & 0x7ff) as i64;
    let frac = (bits & ((1u64 << 52) - 1)) as i64;
    let l = |k: i64, s: i64, m: i64, e: i64| Val::L(vec![Val::I(k), Val::I(s), Val::I(m), Val::I(e)]);
    if exp == 0x7ff {
        if frac == 0 {
            l(2, s, 0, 0)
        } else {
            l(3, 0, 0, 0)
        }
    } else if exp == 0 {
        if frac == 0 {
            l(0, s, 0, 0)
        } else {
            l(1, s, frac, -1074)
        }
    } else {
        l(1, s, frac | (1i64 << 52), exp - 1075)
    }
}

/// the inverse; only canonical encodings are accepted
fn val_f64(v: &Val) -> Option<f64> {
    let l = v.as_l()?;
    if l.len() != 4 {
        return None;
    }
    let (k, s, m, e) = (l[0].as_i()?, l[1].as_i()?, l[2].as_i()?, l[3].as_i()?);
    if s != 0 && s != 1 {
        return None;
    }
    let sign = (s as u64) << 63;
    match k {
        0 if m == 0 && e == 0 => Some(f64::from_bits(sign)),
        1 => {
            let bits = if e == -1074 && m > 0 && m < (1i64 << 52) {
                m as u64
            } else if m >= (1i64 << 52) && m < (1i64 << 53) && (-1074..=971).contains(&e) {
                (((e + 1075) as u64) << 52) | (m as u64 & ((1u64 << 52) - 1))
            } else {
                return None;
            };
            Some(f64::from_bits(bits | sign))
        }
        2 if m == 0 && e == 0 => Some(f64::from_bits(sign | (0x7ffu64 << 52))),
        3 if s == 0 && m == 0 && e == 0 => Some(f64::NAN),
        _ => None,
    }
}

fn fpr_val(x: (f64, f64, f64)) -> Val {
    Val::L(vec![f64_val(x.0), f64_val(x.1), f64_val(x.2)])
}

fn ok(v: Val) -> Val {
    Val::L(vec![Val::I(0), v])
}
fn err() -> Val {
    Val::L(vec![Val::I(1)])
}

/// what the metric functions do to every text before anything else
fn prep(s: &str) -> String {
    normalize(&clean(s, true), Normalization::NFKC, true)
}

fn has_mixed_cluster(s: &str, g: bool) -> bool {
    CharString::split(s, g).any(|c| {
        let ws = c.chars().filter(|c| c.is_whitespace()).count();
        ws > 0 && ws < c.chars().count()
    })
}

/// KF3: normalize(clean(s)) is not whitespace-clean, or has a cluster mixing whitespace and non-whitespace
fn kf3(t: &str, g: bool) -> bool {
    clean(t, g) != t || clean(t, false) != t || has_mixed_cluster(t, g)
}

/// NFKC_Model.nfkc_makes_space: the 52 code points that are not White_Space but whose NFKC contains White_Space
const MAKES_SPACE: &[u32] = &[
    0xA8, 0xAF, 0xB4, 0xB8, 0x2D8, 0x2D9, 0x2DA, 0x2DB, 0x2DC, 0x2DD, 0x37A, 0x384, 0x385, 0x1FBD, 0x1FBF, 0x1FC0,
    0x1FC1, 0x1FCD, 0x1FCE, 0x1FCF, 0x1FDD, 0x1FDE, 0x1FDF, 0x1FED, 0x1FEE, 0x1FFD, 0x1FFE, 0x2017, 0x203E, 0x309B,
    0x309C, 0xFC5E, 0xFC5F, 0xFC60, 0xFC61, 0xFC62, 0xFC63, 0xFDFA, 0xFDFB, 0xFE49, 0xFE4A, 0xFE4B, 0xFE4C, 0xFE70,
    0xFE72, 0xFE74, 0xFE76, 0xFE78, 0xFE7A, 0xFE7C, 0xFE7E, 0xFFE3,
];

/// C13_Model.kf3_free, transliterated: decided on the RAW text alone, no normalisation is run.
/// Not trusted: the flag travels in the input and `agree` compares it with the model's.
fn kf3_free(s: &str, g: bool) -> bool {
    if has_mixed_cluster(s, true) {
        return false;
    }
    if s.chars().any(|c| MAKES_SPACE.contains(&(c as u32))) {
        return false;
    }
    if g {
        let words: Vec<&str> = s.split_whitespace().collect();
        for w in words.windows(2) {
            let (a, b) = (w[0].chars().last().unwrap(), w[1].chars().next().unwrap());
            if seam::is_prepend(a) || seam::ws_joinable(b) {
                return false;
            }
        }
    }
    true
}

const BETAS: &[(i64, i64)] = &[(1, 1), (1, 1), (1, 1), (1, 2), (2, 1), (0, 1), (1, 4), (3, 1), (3, 2)];
/// code points that NFKC turns into SPACE + combining mark (KF3), plus an Arabic ligature with inner spaces
const NFKC_SPACE: &[&str] = &["\u{a8}", "\u{af}", "\u{b4}", "\u{b8}", "\u{2d8}", "\u{2dd}", "\u{37a}", "\u{384}", "\u{1fbd}", "\u{203e}", "\u{fdfa}"];
const LETTERS: &[&str] = &["a", "b", "c", "a", "b", "x", "ä", "é", "e\u{301}", "ﬁ", "②", "中"];
const RAW_WS: &[&str] = &[" ", " ", " ", "  ", "\t", "\n", "\u{a0}", "\u{3000}", "\r\n", "\u{2003}"];

fn gen_word(rng: &mut Rng) -> String {
    let n = rng.range(1, 3);
    (0..n).map(|_| *rng.pick(LETTERS)).collect()
}

fn gen_words(rng: &mut Rng, max: usize) -> Vec<String> {
    let n = rng.below(max + 1);
    // small pool so that words repeat
    let pool: Vec<String> = (0..3).map(|_| gen_word(rng)).collect();
    (0..n).map(|_| if rng.chance(2, 3) { rng.pick(&pool).clone() } else { gen_word(rng) }).collect()
}

fn typo(rng: &mut Rng, w: &str) -> String {
    let mut cs: Vec<String> = CharString::split(w, true).map(|c| c.to_string()).collect();
    match rng.below(4) {
        0 if cs.len() > 1 => {
            let i = rng.below(cs.len());
            cs.remove(i);
        }
        1 => {
            let i = rng.below(cs.len() + 1);
            cs.insert(i, rng.pick(LETTERS).to_string());
        }
        2 if cs.len() > 1 => {
            let i = rng.below(cs.len() - 1);
            cs.swap(i, i + 1);
        }
        _ => {
            let i = rng.below(cs.len().max(1));
            if !cs.is_empty() {
                cs[i] = rng.pick(LETTERS).to_string();
            }
        }
    }
    cs.concat()
}

/// a word-level corruption of a word sequence: typos, splits, merges, drops, additions
fn corrupt_words(rng: &mut Rng, words: &[String], strength: usize) -> Vec<String> {
    let mut out: Vec<String> = vec![];
    let mut i = 0;
    while i < words.len() {
        let w = &words[i];
        let k = rng.below(100);
        if k >= strength {
            out.push(w.clone());
        } else {
            match rng.below(6) {
                0 => out.push(typo(rng, w)),
                1 => {
                    // split the word
                    let cs: Vec<String> = CharString::split(w, true).map(|c| c.to_string()).collect();
                    if cs.len() > 1 {
                        let p = rng.range(1, cs.len() - 1);
                        out.push(cs[..p].concat());
                        out.push(cs[p..].concat());
                    } else {
                        out.push(w.clone());
                    }
                }
                2 if i + 1 < words.len() => {
                    // merge with the next
                    out.push(format!("{}{}", w, words[i + 1]));
                    i += 1;
                }
                3 => {} // drop
                4 => {
                    out.push(w.clone());
                    out.push(gen_word(rng));
                }
                _ => out.push(typo(rng, w)),
            }
        }
        i += 1;
    }
    out
}

fn messy_join(rng: &mut Rng, words: &[String]) -> String {
    let mut s = String::new();
    if rng.chance(1, 5) {
        s.push_str(*rng.pick(RAW_WS));
    }
    for (i, w) in words.iter().enumerate() {
        if i > 0 {
            s.push_str(if rng.chance(1, 4) { *rng.pick(RAW_WS) } else { " " });
        }
        s.push_str(w);
    }
    if rng.chance(1, 5) {
        s.push_str(*rng.pick(RAW_WS));
    }
    s
}

/// a random spacing of the characters of `text` (whitespace removed first)
fn respace(rng: &mut Rng, text: &str, density: usize) -> String {
    let chars: Vec<String> = CharString::split(text, true)
        .filter(|c| !c.chars().all(|c| c.is_whitespace()))
        .map(|c| c.to_string())
        .collect();
    let mut s = String::new();
    for (i, c) in chars.iter().enumerate() {
        if i > 0 && rng.below(10) < density {
            s.push(' ');
        }
        s.push_str(c);
    }
    s
}

/// 2^e * (1 + 52 random fraction bits): the violations of F <= 1 need a beta^2 that is not exact
fn scaled_beta(rng: &mut Rng, e: i32) -> f64 {
    let frac = (rng.next_u64() >> 12) as f64 / (1u64 << 52) as f64;
    (1.0 + frac) * 2f64.powi(e)
}

/// ordinary betas (70%), tiny 2^-30..2^-10 and huge 2^10..2^30 with random mantissas (12% each), negative,
/// far-out but legal (beta^2 underflows / is huge but finite), and the KF4 class (beta or beta^2 not finite)
fn gen_beta(rng: &mut Rng) -> f64 {
    let k = rng.below(100);
    if k < 70 {
        let b = *rng.pick(BETAS);
        b.0 as f64 / b.1 as f64
    } else if k < 82 {
        // half of them where 1 + beta^2 starts to round to 1 (beta^2 about 2^-53)
        let e = -(if rng.chance(1, 2) { rng.range(25, 28) } else { rng.range(10, 30) } as i32);
        if rng.chance(1, 5) { 2f64.powi(e) } else { scaled_beta(rng, e) }
    } else if k < 94 {
        let e = if rng.chance(1, 2) { rng.range(25, 28) } else { rng.range(10, 30) } as i32;
        if rng.chance(1, 5) { 2f64.powi(e) } else { scaled_beta(rng, e) }
    } else if k < 96 {
        let b = *rng.pick(BETAS);
        -(b.0 as f64 / b.1 as f64)
    } else if k < 99 {
        *rng.pick(&[2f64.powi(-600), 2f64.powi(-537), 5e-324, 1e-160, 2f64.powi(500), 1.3e154, 2f64.powi(511), 1e100, -0.0])
    } else {
        *rng.pick(&[f64::NAN, f64::INFINITY, f64::NEG_INFINITY, 1e200, f64::MAX, 1.4e154, -1e300])
    }
}

fn beta_val(b: f64) -> Val {
    f64_val(b)
}

fn strs_val(l: &[String]) -> Val {
    Val::list(l.iter(), |s| Val::str(s))
}
fn derived_val(l: &[String], g: bool) -> Val {
    Val::list(l.iter(), |s| Val::clusters(&prep(s), g))
}

fn val_strs(v: &Val) -> Option<Vec<String>> {
    v.as_l()?.iter().map(|s| s.to_string_lossy()).collect()
}

fn mode_of(k: i64) -> WhitespaceCorrectionMode {
    match k {
        0 => WhitespaceCorrectionMode::Insertions,
        1 => WhitespaceCorrectionMode::Deletions,
        _ => WhitespaceCorrectionMode::InsertionsAndDeletions,
    }
}

fn wop_val(o: &Operation) -> Val {
    Val::I(match o {
        Operation::Keep => 0,
        Operation::Insert => 1,
        Operation::Delete => 2,
    })
}

/// build the input value from the function id, configuration and raw data
fn build(f: i64, cfg: Vec<Val>, raw: Vec<Val>) -> Option<Val> {
    let data = match f {
        0 | 1 => Val::L(raw.clone()),
        2 => {
            let g = cfg.get(1)?.as_bool()?;
            Val::L(raw.iter().map(|l| Some(derived_val(&val_strs(l)?, g))).collect::<Option<Vec<_>>>()?)
        }
        3 => {
            let g = cfg.get(3)?.as_bool()?;
            Val::L(raw.iter().map(|l| Some(derived_val(&val_strs(l)?, g))).collect::<Option<Vec<_>>>()?)
        }
        4 => {
            let g = cfg.get(2)?.as_bool()?;
            Val::L(raw.iter().map(|l| Some(derived_val(&val_strs(l)?, g))).collect::<Option<Vec<_>>>()?)
        }
        _ => return None,
    };
    let kf = if f == 3 || f == 4 {
        let g = cfg.get(if f == 3 { 3 } else { 2 })?.as_bool()?;
        Val::L(
            raw.iter()
                .map(|l| {
                    Some(Val::list(val_strs(l)?.iter(), |s| {
                        Val::L(vec![Val::b(kf3_free(s, g)), Val::b(kf3(&prep(s), g))])
                    }))
                })
                .collect::<Option<Vec<_>>>()?,
        )
    } else {
        Val::L(vec![])
    };
    let raw = if f <= 1 { Val::L(vec![]) } else { Val::L(raw) };
    Some(Val::L(vec![Val::I(f), Val::L(cfg), data, raw, kf]))
}

fn gen_triples(rng: &mut Rng, spelling: bool, kf3_stream: bool) -> (Vec<String>, Vec<String>, Vec<String>) {
    let n = match rng.below(10) {
        0 => 0,
        1..=4 => 1,
        5..=7 => 2,
        8 => 3,
        _ => 4,
    };
    let mut ins = vec![];
    let mut prs = vec![];
    let mut tgs = vec![];
    for _ in 0..n {
        let mut tw = gen_words(rng, 5);
        if kf3_stream && !tw.is_empty() {
            let i = rng.below(tw.len());
            // half of the time any of the 52 code points of the set, else the frequent ones
            let any: String;
            let u: &str = if rng.chance(1, 2) {
                any = char::from_u32(*rng.pick(MAKES_SPACE)).unwrap().to_string();
                &any
            } else {
                *rng.pick(NFKC_SPACE)
            };
            tw[i] = match rng.below(3) {
                0 => u.to_string(),
                1 => format!("{}{}", tw[i], u),
                _ => format!("{}{}", u, tw[i]),
            };
        }
        if !tw.is_empty() && rng.chance(1, 14) {
            // seam stream: a word that begins with an attaching code point (Extend, SpacingMark, ZWJ; also ones
            // whose NFKC differs: U+FF9E -> U+3099, U+0E33 -> U+0E4D U+0E32) or ends in a Prepend — in grapheme mode
            // the U+0020 written by clean joins it (outside kf3_free); a lone mark after a space in the raw text
            // makes a mixed raw cluster
            const SEAM: &[&str] = &["\u{301}", "\u{93e}", "\u{200d}", "\u{600}", "\u{ff9e}", "\u{e33}", "\u{110bd}", "\u{d4e}"];
            let i = rng.below(tw.len());
            let u = *rng.pick(SEAM);
            tw[i] = match rng.below(3) {
                0 => u.to_string(),
                1 => format!("{}{}", tw[i], u),
                _ => format!("{}{}", u, tw[i]),
            };
        }
        let (input, pred, target);
        if spelling {
            let s1 = *rng.pick(&[0usize, 20, 40, 70]);
            let iw = corrupt_words(rng, &tw, s1);
            let pw = match rng.below(10) {
                0 => tw.clone(),                       // perfect
                1 => iw.clone(),                       // unchanged
                2 => vec![],                           // deletes everything
                3 | 4 => corrupt_words(rng, &tw, 30),  // close to the target
                5 | 6 => corrupt_words(rng, &iw, 30),  // close to the input
                7 => {
                    // fixes some words: take the target word where the lengths allow
                    let mut p = iw.clone();
                    for (k, w) in p.iter_mut().enumerate() {
                        if k < tw.len() && rng.chance(1, 2) {
                            *w = tw[k].clone();
                        }
                    }
                    p
                }
                8 => gen_words(rng, 4),
                _ => {
                    let mut p = tw.clone();
                    p.extend(gen_words(rng, 2));
                    p
                }
            };
            input = messy_join(rng, &iw);
            pred = messy_join(rng, &pw);
            target = messy_join(rng, &tw);
        } else {
            let t = tw.join(" ");
            let d1 = rng.below(8);
            let d2 = rng.below(8);
            input = match rng.below(12) {
                0 => t.clone(),
                1 => {
                    let cw = corrupt_words(rng, &tw, 30); // different characters: Err
                    messy_join(rng, &cw)
                }
                _ => {
                    let r = respace(rng, &t, d1);
                    if rng.chance(1, 6) { format!(" {} ", r.replace(' ', "  ")) } else { r }
                }
            };
            pred = match rng.below(6) {
                0 => t.clone(),
                1 => input.clone(),
                _ => respace(rng, &t, d2),
            };
            target = if rng.chance(1, 8) { messy_join(rng, &tw) } else { t };
        }
        ins.push(input);
        prs.push(pred);
        tgs.push(target);
    }
    if spelling && n >= 1 && rng.chance(1, 3) {
        // probe sequence with tp = 1, fp = fn = 0: makes fp/fn of the other sequences visible in micro mode
        ins.push("q".into());
        prs.push("p".into());
        tgs.push("p".into());
    }
    // unequal list lengths (error branch)
    if rng.chance(1, 25) {
        match rng.below(3) {
            0 => ins.push("a".into()),
            1 => prs.push("a".into()),
            _ => {
                tgs.pop();
            }
        }
    }
    (ins, prs, tgs)
}

/// LONG lists (1 case in 20): n in {257, 300, 511, 513, 700, 1000, 3000} items for every list-taking metric. The items
/// repeat a few distinct short pairs / triples; their order is uneven (a long identical prefix then different ones,
/// blocks, or random), so that a mean computed per block and then averaged differs from the mean over all items.
fn gen_long(rng: &mut Rng, beta: f64, g: bool) -> Option<Val> {
    let n = *rng.pick(&[257usize, 257, 300, 300, 511, 513, 513, 700, 1000, 3000]);
    // index pattern over `m` distinct items
    let pattern = |rng: &mut Rng, m: usize| -> Vec<usize> {
        match rng.below(3) {
            0 => (0..n).map(|i| if i < 256 { 0 } else { 1 + (i % (m - 1).max(1)) % m }).collect(),
            1 => {
                let b = *rng.pick(&[64usize, 100, 256, 300]);
                (0..n).map(|i| (i / b) % m).collect()
            }
            _ => {
                let skew = rng.range(1, 6);
                (0..n).map(|_| if rng.chance(skew, 7) { 0 } else { rng.below(m) }).collect()
            }
        }
    };
    match rng.below(6) {
        0 | 1 => {
            // mean (normalised) edit distance: rayon's sum, judged by the rational model for n > 32
            const PAIRS: &[(&str, &str)] = &[("ab", "ab"), ("ab", "xyz"), ("a", "abcd"), ("", "abc"), ("a b", "ab"), ("é", "e\u{301}")];
            let m = rng.range(2, PAIRS.len());
            let idx = pattern(rng, m);
            let a: Vec<String> = idx.iter().map(|i| PAIRS[*i].0.to_string()).collect();
            let b: Vec<String> = idx.iter().map(|i| PAIRS[*i].1.to_string()).collect();
            build(2, vec![Val::b(rng.chance(1, 2)), Val::b(g)], vec![strs_val(&a), strs_val(&b)])
        }
        2 => {
            let idx = pattern(rng, 3);
            let p: Vec<Val> = idx.iter().map(|i| Val::I(*i as i64)).collect();
            let t: Vec<Val> = idx.iter().enumerate().map(|(k, i)| Val::I(if k % 7 == 3 { 2 } else { *i as i64 % 2 })).collect();
            build(1, vec![], vec![Val::L(p), Val::L(t)])
        }
        3 => {
            let idx = pattern(rng, 4);
            let p: Vec<Val> = idx.iter().map(|i| Val::b(i % 2 == 1)).collect();
            let t: Vec<Val> = idx.iter().map(|i| Val::b(*i >= 2)).collect();
            build(0, vec![beta_val(beta)], vec![Val::L(p), Val::L(t)])
        }
        k => {
            // the two F1 functions, micro and sequence-averaged: a few distinct short triples, repeated
            const TRIPLES: &[(&str, &str, &str)] = &[
                ("a b", "a b", "a b"),
                ("ab c", "a b c", "a bc"),
                ("ax b", "a b", "a b"),
                ("a b", "ab", "a b"),
                ("abc", "a b c", "ab c"),
                ("ax bx", "ax b", "a b"),
                ("a", "", "a"),
            ];
            let m = rng.range(2, TRIPLES.len());
            let idx = pattern(rng, m);
            let i: Vec<String> = idx.iter().map(|k| TRIPLES[*k].0.to_string()).collect();
            let p: Vec<String> = idx.iter().map(|k| TRIPLES[*k].1.to_string()).collect();
            let t: Vec<String> = idx.iter().map(|k| TRIPLES[*k].2.to_string()).collect();
            let sa = rng.chance(1, 2);
            if k == 4 {
                build(3, vec![beta_val(beta), Val::b(sa), Val::I(rng.below(3) as i64), Val::b(g)], vec![strs_val(&i), strs_val(&p), strs_val(&t)])
            } else {
                build(4, vec![beta_val(beta), Val::b(sa), Val::b(g)], vec![strs_val(&i), strs_val(&p), strs_val(&t)])
            }
        }
    }
}

impl Prop for C13 {
    fn gen(&mut self, rng: &mut Rng, _tier: Tier, _i: usize, _n: usize) -> Val {
        let k = rng.below(100);
        let beta = gen_beta(rng);
        let g = rng.chance(1, 2);
        if rng.chance(1, 20) {
            return gen_long(rng, beta, g).expect("generator builds valid inputs");
        }
        let v = if k < 4 {
            let n = rng.below(9);
            let m = if rng.chance(1, 8) { rng.below(9) } else { n };
            let bias = rng.range(1, 3);
            let p: Vec<Val> = (0..n).map(|_| Val::b(rng.chance(bias, 4))).collect();
            let t: Vec<Val> = (0..m).map(|_| Val::b(rng.chance(2, 4))).collect();
            build(0, vec![beta_val(beta)], vec![Val::L(p), Val::L(t)])
        } else if k < 10 {
            // counts stream: chosen tp/fp/fn (precision or recall often exactly 1), small to a few thousand
            let big = rng.chance(1, 6);
            let tp = if big { rng.below(3001) } else { rng.below(41) };
            let side = |rng: &mut Rng| -> usize {
                match rng.below(6) {
                    0..=2 => 0,
                    3 => rng.range(1, 3),
                    4 => rng.below(if big { 60 } else { 12 }),
                    _ => rng.below(if big { 3001 } else { 41 }),
                }
            };
            let (fp, fn_) = (side(rng), side(rng));
            // half of this stream: beta^2 near 2^-53 / 2^53, where (1 + beta^2) * p * r rounded above beta^2 * p + r (D11)
            let beta = if rng.chance(1, 2) {
                let e = rng.range(25, 28) as i32;
                let e = if rng.chance(1, 2) { -e } else { e };
                scaled_beta(rng, e)
            } else {
                beta
            };
            let tn = rng.below(4);
            let mut pairs: Vec<(bool, bool)> = vec![];
            pairs.extend(std::iter::repeat((true, true)).take(tp));
            pairs.extend(std::iter::repeat((true, false)).take(fp));
            pairs.extend(std::iter::repeat((false, true)).take(fn_));
            pairs.extend(std::iter::repeat((false, false)).take(tn));
            if rng.chance(1, 2) {
                rng.shuffle(&mut pairs);
            }
            let p: Vec<Val> = pairs.iter().map(|x| Val::b(x.0)).collect();
            let t: Vec<Val> = pairs.iter().map(|x| Val::b(x.1)).collect();
            build(0, vec![beta_val(beta)], vec![Val::L(p), Val::L(t)])
        } else if k < 14 {
            let n = rng.below(7);
            let m = if rng.chance(1, 8) { rng.below(7) } else { n };
            let p: Vec<Val> = (0..n).map(|_| Val::I(rng.below(3) as i64)).collect();
            let t: Vec<Val> = (0..m).map(|_| Val::I(rng.below(3) as i64)).collect();
            build(1, vec![], vec![Val::L(p), Val::L(t)])
        } else if k < 26 {
            let kf = rng.chance(1, 10);
            let (mut a, mut b, _) = gen_triples(rng, true, kf);
            if rng.chance(1, 4) {
                // many sequences: the parallel sum is a balanced tree (exact model for <= 32 sequences)
                let want = rng.range(5, 32);
                while a.len().min(b.len()) < want {
                    let (x, y, _) = gen_triples(rng, true, false);
                    a.extend(x);
                    b.extend(y);
                }
                a.truncate(want);
                b.truncate(want);
            }
            let (a, b) = if rng.chance(1, 6) {
                (vec![String::new(); a.len()], vec![String::new(); b.len()])
            } else if rng.chance(1, 3) {
                // segmentation-sensitive stream: combining sequences, so that code-point and grapheme distances differ
                const COMB: &[&str] = &["e\u{301}", "a\u{308}", "e", "a", "x", " ", "\u{301}"];
                let mut mk = |n: usize| -> Vec<String> {
                    (0..n).map(|_| (0..rng.below(6)).map(|_| *rng.pick(COMB)).collect::<String>()).collect()
                };
                let n = a.len();
                (mk(n), mk(b.len()))
            } else {
                (a, b)
            };
            build(2, vec![Val::b(rng.chance(1, 2)), Val::b(g)], vec![strs_val(&a), strs_val(&b)])
        } else if k < 60 {
            let kf = rng.chance(1, 20);
            let (i, p, t) = gen_triples(rng, false, kf);
            build(
                3,
                vec![beta_val(beta), Val::b(rng.chance(1, 2)), Val::I(rng.below(3) as i64), Val::b(g)],
                vec![strs_val(&i), strs_val(&p), strs_val(&t)],
            )
        } else {
            let kf = rng.chance(1, 12);
            let (i, p, t) = gen_triples(rng, true, kf);
            build(
                4,
                vec![beta_val(beta), Val::b(rng.chance(1, 2)), Val::b(g)],
                vec![strs_val(&i), strs_val(&p), strs_val(&t)],
            )
        };
        v.expect("generator builds valid inputs")
    }

    fn run(&mut self, input: &Val) -> Option<(Val, Vec<String>)> {
        let l = input.as_l()?;
        if l.len() != 5 {
            return None;
        }
        let f = l[0].as_i()?;
        let cfg = l[1].as_l()?.to_vec();
        let raw: Vec<Val> = if f <= 1 { l[2].as_l()?.to_vec() } else { l[3].as_l()?.to_vec() };
        if build(f, cfg.clone(), raw.clone())? != *input {
            return None;
        }
        let mut tags: Vec<String> = vec![];
        let beta_of = |v: &Val| -> Option<f64> {
            let b = v.as_l()?;
            if b.len() == 2 {
                let (n, d) = (b[0].as_i()?, b[1].as_i()?);
                if d <= 0 || (d & (d - 1)) != 0 || n.abs() > 1 << 20 || d > 1 << 20 {
                    return None;
                }
                return Some(n as f64 / d as f64);
            }
            val_f64(v)
        };
        let beta_tags = |beta: f64, tags: &mut Vec<String>| {
            if !beta.is_finite() || !(beta * beta).is_finite() {
                tags.push("class:KF4".into());
            } else if beta != 0.0 && (beta.abs() < 1.0 / 512.0 || beta.abs() > 512.0) {
                tags.push("xbeta".into());
            }
        };
        let out = match f {
            0 => {
                tags.push("binary_f1".into());
                let beta = beta_of(cfg.first()?)?;
                beta_tags(beta, &mut tags);
                let bools = |v: &Val| -> Option<Vec<bool>> {
                    v.as_l()?.iter().map(|b| match b.as_i()? { 0 => Some(false), 1 => Some(true), _ => None }).collect()
                };
                let (p, t) = (bools(raw.first()?)?, bools(raw.get(1)?)?);
                guard(move || match binary_f1(&p, &t, beta) {
                    Ok(x) => ok(fpr_val(x)),
                    Err(_) => err(),
                })
            }
            1 => {
                tags.push("accuracy".into());
                let ints = |v: &Val| -> Option<Vec<i64>> { v.as_l()?.iter().map(|b| b.as_i()).collect() };
                let (p, t) = (ints(raw.first()?)?, ints(raw.get(1)?)?);
                guard(move || match accuracy(&p, &t) {
                    Ok(x) => ok(f64_val(x)),
                    Err(_) => err(),
                })
            }
            2 => {
                tags.push("mean_ed".into());
                let normalized = cfg.first()?.as_bool()?;
                let g = cfg.get(1)?.as_bool()?;
                let (a, b) = (val_strs(raw.first()?)?, val_strs(raw.get(1)?)?);
                guard(move || {
                    let r = if normalized {
                        mean_normalized_edit_distance(&a, &b, g)
                    } else {
                        mean_edit_distance(&a, &b, g)
                    };
                    match r {
                        Ok(x) => ok(f64_val(x)),
                        Err(_) => err(),
                    }
                })
            }
            3 | 4 => {
                let beta = beta_of(cfg.first()?)?;
                beta_tags(beta, &mut tags);
                let seq_avg = cfg.get(1)?.as_bool()?;
                let (mode, g) = if f == 3 {
                    let m = cfg.get(2)?.as_i()?;
                    if !(0..=2).contains(&m) {
                        return None;
                    }
                    (m, cfg.get(3)?.as_bool()?)
                } else {
                    (2, cfg.get(2)?.as_bool()?)
                };
                tags.push(if f == 3 { "ws_f1".into() } else { "sp_f1".into() });
                tags.push(if g { "g".into() } else { "cp".into() });
                tags.push(if seq_avg { "seqavg".into() } else { "micro".into() });
                let (i, p, t) = (val_strs(raw.first()?)?, val_strs(raw.get(1)?)?, val_strs(raw.get(2)?)?);
                // KF3 cross-check. `class` is decided with the real crate on the prepared texts (as before);
                // `free` = C13_Model.kf3_free on the raw texts. Inside the domain of the theorem check_run_n
                // (whitespace F1: every input; spelling F1: every input and every prediction kf3_free) the
                // class tag is WITHHELD, so that a failure there is reported as a violation.
                let class = i.iter().chain(p.iter()).chain(t.iter()).any(|s| kf3(&prep(s), g));
                let free_ip = i.iter().chain(p.iter()).all(|s| kf3_free(s, g));
                let free_all = free_ip && t.iter().all(|s| kf3_free(s, g));
                let domain = f == 3 || free_ip;
                if free_all {
                    tags.push("kf3free".into());
                }
                if domain {
                    tags.push("kf3dom".into());
                }
                if class {
                    tags.push("kf3class".into());
                    if free_all {
                        // excluded by the theorem kf3_free_not_class (and `agree` fails on it)
                        tags.push("kf3free+class".into());
                    }
                    if domain {
                        tags.push("kf3class-withheld".into());
                    } else {
                        tags.push("class:KF3".into());
                    }
                }
                if i.len() > 1 {
                    tags.push("multi".into());
                }
                if i.len() == p.len() && p.len() == t.len() && !i.is_empty() {
                    let pp: Vec<String> = p.iter().map(|s| prep(s)).collect();
                    if pp.iter().zip(t.iter()).all(|(a, b)| *a == prep(b)) {
                        tags.push("pred=target".into());
                    }
                    if pp.iter().zip(i.iter()).all(|(a, b)| *a == prep(b)) {
                        tags.push("pred=input".into());
                    }
                    // the D6 class: exactly one of input / prediction without words
                    if f == 4 && pp.iter().zip(i.iter()).any(|(a, b)| a.is_empty() != prep(b).is_empty()) {
                        tags.push("zero-words".into());
                    }
                }
                let out = guard(move || {
                    if f == 3 {
                        match whitespace_correction_f1(&i, &p, &t, beta, seq_avg, mode_of(mode), g) {
                            Ok((x, infos)) => {
                                let infos = Val::list(infos.iter(), |info| match info {
                                    F1Info::WhitespaceCorrectionInfo((a, b, c)) => {
                                        let l = |x: &Vec<(usize, Operation)>| {
                                            Val::list(x.iter(), |(pos, o)| Val::L(vec![Val::u(*pos), wop_val(o)]))
                                        };
                                        Val::L(vec![l(a), l(b), l(c)])
                                    }
                                    _ => Val::I(-5),
                                });
                                ok(Val::L(vec![fpr_val(x), infos]))
                            }
                            Err(_) => err(),
                        }
                    } else {
                        match spelling_correction_f1(&i, &p, &t, beta, seq_avg, g) {
                            Ok((x, _)) => ok(fpr_val(x)),
                            Err(_) => err(),
                        }
                    }
                });
                // non-trivial: an Ok result with precision or recall strictly between 0 and 1
                let frac = |v: &Val| -> bool {
                    matches!(v.as_l(), Some([Val::I(1), Val::I(0), Val::I(m), Val::I(e)]) if !(*m == 1i64 << 52 && *e == -52))
                };
                if let Some([Val::I(0), x]) = out.as_l() {
                    let fpr = if f == 3 { x.nth(0) } else { Some(x) };
                    if let Some(fpr) = fpr {
                        if fpr.nth(1).map(frac).unwrap_or(false) || fpr.nth(2).map(frac).unwrap_or(false) {
                            tags.push("nt".into());
                        }
                    }
                }
                out
            }
            _ => return None,
        };
        if raw.first().and_then(|l| l.as_l()).map_or(0, |l| l.len()) > 32 {
            tags.push("long".into());
        }
        match out.as_l() {
            Some([Val::I(1)]) => tags.push("err".into()),
            Some([Val::I(-777)]) => tags.push("panic".into()),
            _ => {}
        }
        Some((out, tags))
    }

    fn canon(&mut self, input: &Val) -> Option<Val> {
        let l = input.as_l()?;
        if l.len() < 3 {
            return None;
        }
        let f = l[0].as_i()?;
        let cfg = l[1].as_l()?.to_vec();
        let raw: Vec<Val> = if f <= 1 { l[2].as_l()?.to_vec() } else { l.get(3)?.as_l()?.to_vec() };
        build(f, cfg, raw)
    }

    fn selfcheck(&mut self) -> Vec<String> {
        ws_table_selfcheck()
    }
}

fn main() {
    // rayon's parallel f64 sum in _mean_edit_distance splits by a thread-count budget: pin it so that the
    // reduction tree is the balanced one the model describes on every machine (see notes/C13.md)
    std::env::set_var("RAYON_NUM_THREADS", "16");
    main_loop(C13);
}

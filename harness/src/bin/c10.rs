//! C10: whitespace::operations / whitespace::repair against the model.
//! input  = (sp from to rops g kf1 ss)
//!          from/to as cluster lists from unicode-segmentation (compared with the model's `segment`
//!          by `agree`); kf1 = the known-finding class flag (string-level premise holds, the
//!          non-whitespace cluster lists differ); ss = `seam_safe from && seam_safe to` as evaluated
//!          by harness/src/seam.rs (compared with the model's `seam_safe` by `agree`)
//! output = (ops? repaired? repaired2?)
use text_utils::text::clean;
use text_utils::whitespace::{operations, remove, repair, Operation};
use vh::*;

#[path = "../seam.rs"]
mod seam;

struct C10;

fn op_val(o: &Operation) -> Val {
    Val::I(match o {
        Operation::Keep => 0,
        Operation::Insert => 1,
        Operation::Delete => 2,
    })
}

fn val_op(v: &Val) -> Option<Operation> {
    Some(match v.as_i()? {
        1 => Operation::Insert,
        2 => Operation::Delete,
        _ => Operation::Keep,
    })
}

fn has_mixed_cluster(s: &str, g: bool) -> bool {
    vh::split_clusters(s, g).any(|c| {
        let ws = c.chars().filter(|c| c.is_whitespace()).count();
        ws > 0 && ws < c.chars().count()
    })
}

fn nonws_clusters(s: &str, g: bool) -> Vec<String> {
    vh::split_clusters(s, g)
        .filter(|c| !c.chars().all(|c| c.is_whitespace()))
        .map(|c| c.to_string())
        .collect()
}

/// the dependent fields: (sp, kf1, ss)
///   sp  string-level premise of the property, by the real clean / remove, no mixed cluster
///   kf1 the seam effect of KF1: sp, but the texts differ as lists of non-whitespace clusters
///   ss  grapheme mode and both texts seam-safe (C10_Seam.v; 0 in code-point mode)
fn derived(from: &str, to: &str, g: bool) -> (bool, bool, bool) {
    let sp = clean(from, g) == from
        && clean(to, g) == to
        && remove(from, g) == remove(to, g)
        && !has_mixed_cluster(from, g)
        && !has_mixed_cluster(to, g);
    let kf1 = sp && nonws_clusters(from, g) != nonws_clusters(to, g);
    let ss = g && seam::seam_safe(from) && seam::seam_safe(to);
    (sp, kf1, ss)
}

fn mk_input(from: &str, to: &str, rops: Val, g: bool) -> Val {
    let (sp, kf1, ss) = derived(from, to, g);
    Val::L(vec![
        Val::b(sp),
        Val::clusters(from, g),
        Val::clusters(to, g),
        rops,
        Val::b(g),
        Val::b(kf1),
        Val::b(ss),
    ])
}

fn word(rng: &mut Rng, seam: bool, ascii_only: bool) -> String {
    let n = rng.range(1, 4);
    let mut w = String::new();
    for _ in 0..n {
        let k = rng.below(10);
        let u = if ascii_only {
            *rng.pick(units::ASCII)
        } else if seam && k < 4 {
            *rng.pick(units::SEAM)
        } else if k < 6 {
            *rng.pick(units::ASCII)
        } else if k < 8 {
            *rng.pick(units::MULTI)
        } else if k < 9 {
            *rng.pick(units::COMBINING)
        } else {
            *rng.pick(units::ZW)
        };
        if u.chars().all(|c| c.is_whitespace()) {
            continue;
        }
        w.push_str(u);
    }
    if w.is_empty() {
        w.push('a');
    }
    w
}

/// a random spacing of the character sequence: single spaces, none leading/trailing
fn respace(rng: &mut Rng, chars: &[&str], density: usize) -> String {
    let mut s = String::new();
    for (i, c) in chars.iter().enumerate() {
        if i > 0 && rng.below(10) < density {
            s.push(' ');
        }
        s.push_str(c);
    }
    s
}

fn arbitrary(rng: &mut Rng, seam: bool) -> String {
    let n = rng.below(9);
    let mut s = String::new();
    // one text in five is pure ASCII with line endings (CR LF is a single cluster in grapheme mode)
    let ascii_only = rng.chance(1, 5);
    for _ in 0..n {
        let k = rng.below(10);
        let u = if ascii_only {
            *rng.pick(&["a", "b", "x", " ", " ", "\r\n", "\n", "\r", "\t", "."])
        } else if k < 3 {
            *rng.pick(units::WS)
        } else if seam && k < 5 {
            *rng.pick(units::SEAM)
        } else if k < 7 {
            *rng.pick(units::ASCII)
        } else if k < 9 {
            *rng.pick(units::MULTI)
        } else {
            *rng.pick(units::COMBINING)
        };
        s.push_str(u);
    }
    s
}

impl Prop for C10 {
    fn gen(&mut self, rng: &mut Rng, _tier: Tier, _i: usize, _n: usize) -> Val {
        let g = rng.chance(1, 2);
        let seam = g && rng.chance(1, 4);
        let stream = rng.below(100);
        let (from, to) = if g && stream < 12 {
            // seam probe: a pair of code points of random grapheme categories behind a text that
            // sets up every look-behind state of the segmenter; the two texts differ in the spaces
            // next to the pair (the boundary `seam_ok` decides)
            let (a, b) = seam::seam_pair(rng);
            let (u, v) = (seam::seam_prefix(rng), seam::seam_suffix(rng));
            let glued = format!("{u}{a}{b}{v}");
            let split = format!("{u}{a} {b}{v}");
            let more = match rng.below(3) {
                0 if !u.is_empty() => format!("{u} {a}{b}{v}"),
                1 if !v.is_empty() => format!("{u}{a} {b} {v}"),
                _ => format!("{u}{a}{b}{v}"),
            };
            match rng.below(4) {
                0 => (split, glued),
                1 => (glued, split),
                2 => (split, more),
                _ => (more, split),
            }
        } else if stream < 80 {
            // valid stream: one word sequence, two spacings
            let nw = rng.below(5);
            // one text in five is pure ASCII (the shape on which an `is_ascii()` shortcut would be taken)
            let ascii_only = !seam && rng.chance(1, 5);
            let text: String = (0..nw).map(|_| word(rng, seam, ascii_only)).collect::<Vec<_>>().join("");
            // seam stream: respace between code points even in grapheme mode (KF1 territory)
            let chars: Vec<&str> = vh::split_clusters(&text, g && !seam).collect();
            let d1 = rng.below(8);
            let d2 = rng.below(8);
            (respace(rng, &chars, d1), respace(rng, &chars, d2))
        } else if stream < 90 {
            // near-valid: cleaned arbitrary strings with a small mutation
            let a = arbitrary(rng, seam);
            let b = if rng.chance(1, 2) { a.clone() } else { arbitrary(rng, seam) };
            (clean(&a, g), clean(&b, g))
        } else {
            (arbitrary(rng, seam), arbitrary(rng, seam))
        };
        let nf = text_utils::unicode::CharString::new(&from, g).len();
        let nr = match rng.below(10) {
            0 => nf + 1,
            1 => nf.saturating_sub(1),
            _ => nf,
        };
        let keep_only = rng.chance(1, 6);
        let rops: Vec<Val> = (0..nr)
            .map(|_| Val::I(if keep_only { 0 } else { rng.below(3) as i64 }))
            .collect();
        mk_input(&from, &to, Val::L(rops), g)
    }

    fn run(&mut self, input: &Val) -> Option<(Val, Vec<String>)> {
        let l = input.as_l()?;
        if l.len() != 7 {
            return None;
        }
        let g = l[4].as_bool()?;
        let from = l[1].clusters_to_string()?;
        let to = l[2].clusters_to_string()?;
        // the cluster lists must be what the real segmenter produces
        if Val::clusters(&from, g) != l[1] || Val::clusters(&to, g) != l[2] {
            return None;
        }
        let rops: Vec<Operation> = l[3].as_l()?.iter().map(val_op).collect::<Option<_>>()?;
        let (sp, kf1, ss) = derived(&from, &to, g);
        if sp != l[0].as_bool()? || kf1 != l[5].as_bool()? || ss != l[6].as_bool()? {
            return None;
        }
        let (f2, t2) = (from.clone(), to.clone());
        let out = guard(move || {
            let ops = operations(&f2, &t2, g).ok();
            let rep = ops.as_ref().and_then(|o| repair(&f2, o, g).ok());
            let rep2 = repair(&f2, &rops, g).ok();
            Val::L(vec![
                Val::opt(ops, |o| Val::list(o.iter(), op_val)),
                Val::opt(rep, |s| Val::str(&s)),
                Val::opt(rep2, |s| Val::str(&s)),
            ])
        });
        let mut tags = vec![];
        tags.push(if g { "g".to_string() } else { "cp".to_string() });
        if sp {
            tags.push("premise".into());
        }
        // the seam effect of KF1: equal after remove() as strings, different as cluster lists.
        // Inside the domain of `operations_repair_roundtrip_u` (both texts seam-safe) a failure is
        // NOT a known finding: the class tag is withheld, so it is reported as a violation; `agree`
        // additionally flags every case with kf1 && ss as a disagreement.
        if kf1 {
            tags.push("kf1".into());
        }
        if g && sp && ss {
            tags.push("seamsafe".into());
        }
        if g && sp && !ss {
            tags.push("seamunsafe".into());
        }
        if g && sp && seam::seam_safe_cf(&from) && seam::seam_safe_cf(&to) {
            tags.push("seamsafe-cf".into());
        }
        if kf1 && ss {
            tags.push("seamsafe-kf1".into());
        } else if kf1 {
            tags.push("class:KF1".into());
        }
        if sp && from != to && from.contains(' ') && to.contains(' ') {
            tags.push("nt".into());
        }
        Some((out, tags))
    }

    fn canon(&mut self, input: &Val) -> Option<Val> {
        let l = input.as_l()?;
        if l.len() != 5 && l.len() != 7 {
            return None;
        }
        let g = l[4].as_bool()?;
        let from = l[1].clusters_to_string()?;
        let to = l[2].clusters_to_string()?;
        Some(mk_input(&from, &to, l[3].clone(), g))
    }

    fn selfcheck(&mut self) -> Vec<String> {
        let mut errs = ws_table_selfcheck();
        errs.extend(seam::cats_selfcheck());
        errs
    }
}

fn main() {
    main_loop(C10);
}

//! C03: ids of the real `BPETokenizer::tokenize(s, true)` against the model
//! (repaired heap loop) and the canonical reference (`check_C03`).
//! input  = (tbl text) | (tbl text (keep))   tbl: byte strings in merge-id order, text: code points, keep: the tokenizer
//!          is built with max_vocab_size = 256 + #special + keep, i.e. it keeps the first `keep` merges (C03_Limit.v)
//! output = ((id ...) fb lv)   or () when tokenize / the constructor returns an error;
//!          fb = the bytes of the merge file the crate's `save` wrote and the tokenizer was built from,
//!          lv = ((id key) ...) = the real `MergeOps::load` of that file (the model decodes fb itself)
#[path = "../bpe_common.rs"]
mod bpe;
use bpe::*;
use text_utils::tokenization::{BPETokenizer, Tokenize};
use vh::*;

const DIR: &str = "/tmp/c03";

struct C03 {
    /// generator state: current table / alphabet and how many texts are still to be drawn for it
    cur: Option<(Table, Vec<&'static str>)>,
    left: usize,
    keep: Option<usize>,
    /// tokenizer cache for `run` (table, kept merges)
    cache: Option<((Table, Option<usize>), BPETokenizer, MergeFile)>,
}

impl C03 {
    fn tokenizer(&mut self, table: &Table, keep: Option<usize>) -> Option<(&BPETokenizer, &MergeFile)> {
        let hit = matches!(&self.cache, Some(((t, k), _, _)) if t == table && *k == keep);
        if !hit {
            let special = plain_special();
            let limit = keep.map(|k| 256 + special.tokens.len() + k);
            let (tok, mf) = build_tokenizer_file(DIR, table, None, limit, special, false);
            self.cache = Some(((table.clone(), keep), tok.ok()?, mf));
        }
        self.cache.as_ref().map(|c| (&c.1, &c.2))
    }
}

impl Prop for C03 {
    fn gen(&mut self, rng: &mut Rng, _tier: Tier, _i: usize, _n: usize) -> Val {
        if self.left == 0 || self.cur.is_none() {
            self.cur = Some(gen_table(rng));
            self.left = rng.range(8, 40);
            // one table in three is used under a vocabulary limit that cuts it (0 ..= len + 1 merges kept)
            self.keep = if rng.chance(1, 3) { Some(rng.below(self.cur.as_ref().unwrap().0.len() + 2)) } else { None };
        }
        self.left -= 1;
        let (table, alpha) = self.cur.as_ref().unwrap();
        let text = gen_text(rng, alpha, table);
        match self.keep {
            Some(k) => Val::L(vec![table_val(table), Val::str(&text), Val::L(vec![Val::I(k as i64)])]),
            None => Val::L(vec![table_val(table), Val::str(&text)]),
        }
    }

    fn exhaustive(&mut self, _tier: Tier) -> Vec<Val> {
        // all words of length <= 6 over {a,b,c} for 50 tables over the same letters
        let mut rng = Rng::new(0xC03);
        let mut tables: Vec<Table> = adversarial_tables()
            .into_iter()
            .filter(|t| t.iter().all(|e| e.iter().all(|b| b"abc".contains(b))))
            .collect();
        while tables.len() < 50 {
            let n = rng.range(2, 7);
            let mut t: Table = vec![];
            let mut tries = 0;
            while t.len() < n && tries < 100 {
                tries += 1;
                let pick = |rng: &mut Rng, t: &Table| -> Vec<u8> {
                    if !t.is_empty() && rng.chance(2, 5) {
                        rng.pick(t).clone()
                    } else {
                        vec![b"abc"[rng.below(3)]]
                    }
                };
                let m = [pick(&mut rng, &t), pick(&mut rng, &t)].concat();
                if m.len() <= 6 && !t.contains(&m) {
                    t.push(m);
                }
            }
            if !tables.contains(&t) {
                tables.push(t);
            }
        }
        let mut words: Vec<Vec<u8>> = vec![vec![]];
        let mut all: Vec<Vec<u8>> = vec![];
        for _ in 0..6 {
            let mut next = vec![];
            for w in &words {
                for c in b"abc" {
                    let mut v = w.clone();
                    v.push(*c);
                    next.push(v);
                }
            }
            all.extend(next.iter().cloned());
            words = next;
        }
        let mut out = vec![];
        for t in &tables {
            for w in &all {
                out.push(Val::L(vec![table_val(t), Val::bytes(w)]));
            }
        }
        out
    }

    fn run(&mut self, input: &Val) -> Option<(Val, Vec<String>)> {
        let l = input.as_l()?;
        if l.len() != 2 && l.len() != 3 {
            return None;
        }
        let table = val_table(&l[0])?;
        let text = val_text(&l[1])?;
        let keep = match l.get(2) {
            None => None,
            Some(k) => match &k.as_l()?[..] {
                [Val::I(k)] if *k >= 0 && *k < 100_000 => Some(*k as usize),
                _ => return None,
            },
        };
        let eff: Table = match keep {
            Some(k) => table.iter().take(k).cloned().collect(),
            None => table.clone(),
        };
        let (tok, mf) = self.tokenizer(&table, keep)?;
        let t2 = text.clone();
        let (fb, lv) = (mf.bytes_val(), mf.loaded_val());
        let out = guard(std::panic::AssertUnwindSafe(|| match tok.tokenize(&t2, true) {
            Ok(t) => Val::L(vec![Val::list(t.token_ids.iter(), |i| Val::I(*i as i64)), fb, lv]),
            Err(_) => Val::L(vec![]),
        }));
        let (nwords, merges, stale) = text_stats(&eff, &text);
        let mut tags = vec![];
        if keep.is_some() {
            tags.push(if keep.unwrap() < table.len() { "limit-cuts".to_string() } else { "limit".to_string() });
        }
        if merges > 0 {
            tags.push("merge".to_string());
        }
        if stale > 0 {
            tags.push("stale".to_string());
        }
        if merges >= 3 {
            tags.push("merges3+".to_string());
        }
        if nwords > 1 {
            tags.push("words2+".to_string());
        }
        if merges > 0 && stale > 0 {
            tags.push("nt".into());
        }
        Some((out, tags))
    }

    fn canon(&mut self, input: &Val) -> Option<Val> {
        let l = input.as_l()?;
        if l.len() != 2 && l.len() != 3 {
            return None;
        }
        let mut v = vec![canon_table(&l[0])?, canon_text(&l[1])?];
        if let Some(k) = l.get(2) {
            v.push(k.clone());
        }
        Some(Val::L(v))
    }

    fn selfcheck(&mut self) -> Vec<String> {
        let mut e = ws_table_selfcheck();
        e.extend(regex_ws_selfcheck());
        e
    }
}

fn main() {
    main_loop(C03 { cur: None, left: 0, keep: None, cache: None });
}

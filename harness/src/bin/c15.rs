//! C15: corrupt::edit_word with the real InsertEdits / ReplaceEdits / DeleteEdits /
//! SwapEdits, chained as corrupt_spelling does, against the relational model.
//!
//! input  = (g kinds fd pm itab rtab seed steps xs ps)
//!          kinds = (ins del rep swap)            which Option<&…> arguments are Some
//!          fd    = DeleteEdits::full_delete
//!          pm    = predicate mode: 0 = the predicates of corrupt_spelling
//!                  (alphabetic|punctuation / both alphabetic), 1 = always true
//!          itab  = ((prev cur ((clusters pos weight) ...)) ...)       InsertEdits::insertions
//!          rtab  = ((prev cur next ((clusters pos weight) ...)) ...)  ReplaceEdits::replacements
//!                  weight = the f64 weight as (0 m e) = m * 2^e; pos = weight > 0
//!          seed  = ChaCha8Rng::seed_from_u64: the model computes every draw from it (exact line);
//!                  the relational line does not look at it
//!          steps = ((w ex cd cs) ...) per call of the chain: real clusters of the word,
//!                  exclusion set (sorted), can_delete per position, can_swap per adjacent pair.
//!                  steps[0].w / steps[0].ex are primary, everything else is derived by
//!                  running the real chain (canon re-derives it).
//!          xs    = ((seam ss) ...) per call: seam = the known-finding class flag (the result is explained
//!                  at text level, but by no candidate whose clusters are the real segmentation of the
//!                  returned word); ss = some explaining candidate's cluster list is a chain (every two
//!                  neighbours `glued`, harness/src/seam.rs) -- compared with the model's `step_ss` by `agree`
//!          ps    = `edit_safe` of the first word and the enabled tables as evaluated by seam.rs
//!                  (all clusters of the pool glued in every order); compared by `agree`
//!          All cluster lists (words, table strings, returned words) come from unicode-segmentation and
//!          are compared with the model's `segment` by `agree`.
//! output = ((probe chain) pos)
//!          pos   = (block-hi block-lo offset): get_word_pos of the generator after the last call
//!          probe = for idx in 0..len+1 of the first word: (InsertEdits::get_edits, ReplaceEdits::get_edits)
//!                  each () | (((string pos) ...)); -2 = ReplaceEdits on the empty word (not called)
//!          chain = ((w' ex') ...), w' = real clusters of the returned word; (-777) = panic
//!
//! Second stream (first field 2): the chain inside corrupt_spelling through the public
//! preprocessing(SpellingCorruption(Input, 1.0, false, Artificial(char_p, 2.0, Some(dict)))).
//! input  = (2 (1 1 1 1) 0 0 itab rtab seed () trigrams words info charmode)
//!          trigrams = ((prev cur next freq) ...) written to a dictionary file; itab/rtab = the tables
//!          corrupt_spelling derives from them (re-derived here the same way, so the model gets them);
//!          words = ASCII words of the text; info = ((char alphabetic punctuation) ...);
//!          charmode 0: char_edit_prob 0 (one edit per word), 1: char_edit_prob 1 (len edits per word)
//!          The order of the edit strings inside a table entry is the one corrupt_spelling produces
//!          (falling frequency, ties by dictionary line); weights = freq.powf(1/2).
//! output = (run1 run2): words of the corrupted text | (-777), for two independent runs (fresh closure,
//!          dictionary loaded again) on the same text and seed
//!
//! Third stream (first field 3): the same with arbitrary probabilities, exact line only:
//! input  = (3 (1 1 1 1) fd 0 itab rtab seed () trigrams words info (pw pc)), pw = the corruption probability
//!          (0 < pw <= 1), pc = char_edit_prob, both f64 values (0 m e); fd = allow_full_delete (a word that
//!          became empty is dropped from the text); output = (run1 run2)
//!
//! Fourth stream (first field 4): corrupt_spelling as a function of the TEXT, all three modes; the model
//! computes everything (split_words, clusters, classes, the tables from the dictionary content, every draw):
//! input  = (4 mode fd seed text items miss (prob pc art temp) aux divs)
//!          mode: 0 Artificial(pc, temp, Some(chars)), 1 Realistic(missp), 2 Mixed(art, pc, temp, Some(chars), missp),
//!                3 Artificial(pc, temp, None), 4 Mixed(art, pc, temp, None, missp)
//!          items = ((key freq weight) ...): the lines of the character dictionary file; weight = the f64
//!                  (freq as f64).powf(1.0 / temp) (libm: data for the model); miss = ((word (misspelling ...)) ...)
//!          aux = what the real crate says about the text (text::split_words with Match::start, CharString
//!                clusters, Character::is_alphabetic / is_punctuation): compared with the model's by `agree`
//!          divs = ((a b q) ...): q = (a as f64) / (b as f64) computed here; the model's binary64 division must give the same bits
//! output = (run1 run2): ((code points of the corrupted text)) | (-777), two independent runs
use rand::SeedableRng;
use rand_chacha::ChaCha8Rng;
use std::borrow::Cow;
use std::collections::{HashMap, HashSet};
use std::panic::{catch_unwind, AssertUnwindSafe};
use text_utils::corrupt::{edit_word, DeleteEdits, EditsAndWeights, GetEdits, InsertEdits, ReplaceEdits, SwapEdits};
use text_utils::data::preprocessing::{preprocessing, Part, PreprocessingFnConfig, SpellingCorruptionMode};
use text_utils::data::{TextDataInfo, TrainData};
use text_utils::unicode::{CharString, Character};
use vh::*;

#[path = "../seam.rs"]
mod seam;

/// edit strings of one table entry with their f64 weights (the flag "weight > 0" of the relational
/// model is derived from the weight)
type Edits = Vec<(String, f64)>;

/// f64 weight on the wire: (0 m e) = m * 2^e canonical (-0.0 is sent as zero), (1 0 0) +inf,
/// (2 0 0) NaN, (3 0 0) negative (RNG_Model.v_f64w)
fn f64_val(x: f64) -> Val {
    let t = |k: i64, m: i64, e: i64| Val::L(vec![Val::I(k), Val::I(m), Val::I(e)]);
    if x.is_nan() {
        t(2, 0, 0)
    } else if x == f64::INFINITY {
        t(1, 0, 0)
    } else if x < 0.0 {
        t(3, 0, 0)
    } else {
        let b = x.to_bits() & !(1u64 << 63);
        let (e, f) = ((b >> 52) as i64, (b & ((1u64 << 52) - 1)) as i64);
        if e == 0 {
            t(0, f, -1074)
        } else {
            t(0, f + (1i64 << 52), e - 1075)
        }
    }
}

/// inverse of `f64_val` on canonical finite non-negative values; everything else is outside the domain
fn val_f64(v: &Val) -> Option<f64> {
    let l = v.as_l()?;
    if l.len() != 3 {
        return None;
    }
    let (k, m, e) = (l[0].as_i()?, l[1].as_i()?, l[2].as_i()?);
    if k != 0 {
        return None;
    }
    if (0..1i64 << 52).contains(&m) && e == -1074 {
        Some(f64::from_bits(m as u64))
    } else if (1i64 << 52..1i64 << 53).contains(&m) && (-1074..=971).contains(&e) {
        Some(f64::from_bits((((e + 1075) as u64) << 52) | (m as u64 - (1u64 << 52))))
    } else {
        None
    }
}

/// the weights of the first version of this harness (inputs without a weight field): 1, 2, 3, 1, ... for
/// positive edits, 0 otherwise
fn legacy_weight(i: usize, pos: bool) -> f64 {
    if pos {
        1.0 + (i % 3) as f64
    } else {
        0.0
    }
}

#[derive(Clone, Debug)]
struct Cfg {
    g: bool,
    kinds: [bool; 4],
    fd: bool,
    pm: u8,
    itab: Vec<(String, String, Edits)>,
    rtab: Vec<(String, String, String, Edits)>,
    seed: u64,
}

fn split(s: &str, g: bool) -> Vec<String> {
    vh::split_clusters(s, g).map(|c| c.to_string()).collect()
}

/// the predicates of corrupt_spelling (nested fns there, rebuilt from the public
/// `Character` methods which call the same crate-private functions)
fn can_delete_real(s: &str) -> bool {
    let c = Character { str: s };
    c.is_alphabetic() || c.is_punctuation()
}
fn can_swap_real(a: &str, b: &str) -> bool {
    Character { str: a }.is_alphabetic() && Character { str: b }.is_alphabetic()
}

#[derive(Default)]
struct Cache {
    del: HashMap<String, bool>,
    alpha: HashMap<String, bool>,
}
impl Cache {
    fn can_delete(&mut self, s: &str, pm: u8) -> bool {
        if pm == 1 {
            return true;
        }
        if let Some(b) = self.del.get(s) {
            return *b;
        }
        let b = can_delete_real(s);
        self.del.insert(s.to_string(), b);
        b
    }
    fn can_swap(&mut self, a: &str, b: &str, pm: u8) -> bool {
        if pm == 1 {
            return true;
        }
        let mut al = |s: &str| -> bool {
            if let Some(b) = self.alpha.get(s) {
                return *b;
            }
            let b = Character { str: s }.is_alphabetic();
            self.alpha.insert(s.to_string(), b);
            b
        };
        let r = al(a) && al(b);
        debug_assert_eq!(r, can_swap_real(a, b));
        r
    }
}

fn weights(es: &Edits) -> EditsAndWeights {
    (es.iter().map(|(s, _)| s.clone()).collect(), es.iter().map(|(_, w)| *w).collect())
}

fn build_tables(cfg: &Cfg) -> (InsertEdits<'static>, ReplaceEdits<'static>) {
    let mut insertions = HashMap::new();
    for (p, c, es) in &cfg.itab {
        insertions
            .entry((Cow::Owned(p.clone()), Cow::Owned(c.clone())))
            .or_insert_with(|| weights(es));
    }
    let mut replacements = HashMap::new();
    for (p, c, n, es) in &cfg.rtab {
        replacements
            .entry((Cow::Owned(p.clone()), Cow::Owned(c.clone()), Cow::Owned(n.clone())))
            .or_insert_with(|| weights(es));
    }
    (InsertEdits { insertions }, ReplaceEdits { replacements })
}

fn edits_val(e: Option<&EditsAndWeights>) -> Val {
    Val::opt(e, |(es, ws)| {
        Val::L(es.iter().zip(ws.iter()).map(|(s, w)| Val::L(vec![Val::str(s), Val::b(*w > 0.0)])).collect())
    })
}

fn usize_list(l: &[usize]) -> Val {
    Val::L(l.iter().map(|u| Val::u(*u)).collect())
}

/// model-level result of one candidate edit (mirrors apply_word / apply_excl of C15_Model.v;
/// used only for tags: which kind was observed, and whether re-segmentation moved a seam)
fn candidates(cfg: &Cfg, w: &[String], ex: &[usize]) -> Vec<(&'static str, usize, Vec<String>, HashSet<usize>)> {
    let n = w.len();
    let exs: HashSet<usize> = ex.iter().cloned().collect();
    let mut out = vec![("same", 0usize, w.to_vec(), exs.clone())];
    let g = cfg.g;
    if cfg.kinds[0] {
        for i in 0..=n {
            for (_, _, es) in &cfg.itab {
                for (e, _) in es {
                    let ec = split(e, g);
                    let mut nw = w[..i].to_vec();
                    nw.extend(ec.iter().cloned());
                    nw.extend_from_slice(&w[i..]);
                    let mut ne: HashSet<usize> = ex.iter().map(|&p| if p >= i { p + ec.len() } else { p }).collect();
                    ne.extend(i..i + ec.len());
                    out.push((if ec.is_empty() { "ins0" } else if ec.len() > 1 { "insN" } else { "ins" }, i, nw, ne));
                }
            }
        }
    }
    if cfg.kinds[1] {
        for i in 0..n {
            let mut nw = w[..i].to_vec();
            nw.extend_from_slice(&w[i + 1..]);
            let ne: HashSet<usize> = ex.iter().map(|&p| if p > i { p - 1 } else { p }).collect();
            out.push(("del", i, nw, ne));
        }
    }
    if cfg.kinds[2] {
        for i in 0..n {
            for (_, _, _, es) in &cfg.rtab {
                for (e, _) in es {
                    let ec = split(e, g);
                    let mut nw = w[..i].to_vec();
                    nw.extend(ec.iter().cloned());
                    nw.extend_from_slice(&w[i + 1..]);
                    let mut ne: HashSet<usize> =
                        ex.iter().map(|&p| if p > i { p + ec.len() - 1 } else { p }).collect();
                    ne.extend(i..i + ec.len());
                    out.push((if ec.is_empty() { "rep0" } else if ec.len() > 1 { "repN" } else { "rep" }, i, nw, ne));
                }
            }
        }
    }
    if cfg.kinds[3] && n > 1 {
        for i in 0..n - 1 {
            let mut nw = w.to_vec();
            nw.swap(i, i + 1);
            let mut ne = exs.clone();
            ne.insert(i);
            ne.insert(i + 1);
            out.push(("swap", i, nw, ne));
        }
    }
    out
}

struct Derived {
    steps: Vec<Val>,
    xs: Vec<Val>,
    ps: bool,
    out: Val,
    tags: Vec<String>,
}

/// `chain` of C10_Seam.v on a cluster list
fn chain_rs(w: &[String]) -> bool {
    w.windows(2).all(|p| seam::glued(&p[0], &p[1]))
}

/// `edit_safe` of C15_Seam.v: the clusters of the word and of every positive-weight string of the
/// enabled tables are glued in every order
fn edit_safe_rs(cfg: &Cfg, w0: &str) -> bool {
    if !cfg.g {
        return false;
    }
    let mut pool: Vec<String> = split(w0, true);
    if cfg.kinds[0] {
        for (_, _, es) in &cfg.itab {
            for (e, wt) in es {
                if *wt > 0.0 {
                    pool.extend(split(e, true));
                }
            }
        }
    }
    if cfg.kinds[2] {
        for (_, _, _, es) in &cfg.rtab {
            for (e, wt) in es {
                if *wt > 0.0 {
                    pool.extend(split(e, true));
                }
            }
        }
    }
    pool.iter().all(|a| pool.iter().all(|b| seam::glued(a, b)))
}

fn derive(cfg: &Cfg, w0: &str, ex0: &[usize], k: usize, cache: &mut Cache) -> Derived {
    let g = cfg.g;
    let pm = cfg.pm;
    let (ins, rep) = build_tables(cfg);
    let mut tags: Vec<String> = vec![if g { "g".into() } else { "cp".into() }];
    let mut tagset: HashSet<String> = HashSet::new();

    // provider probe on the first word
    let probe = {
        let (ins, rep, w0) = (&ins, &rep, w0.to_string());
        match catch_unwind(AssertUnwindSafe(move || {
            let cs = CharString::new(&w0, g);
            let n = cs.len();
            let mut hit = (false, false);
            let v = Val::L(
                (0..n + 2)
                    .map(|idx| {
                        let a = ins.get_edits(&cs, &idx);
                        let b = if n == 0 { Val::I(-2) } else { edits_val(rep.get_edits(&cs, &idx)) };
                        if a.is_some() && idx == 0 {
                            hit.0 = true;
                        }
                        if a.is_some() && idx >= n {
                            hit.1 = true;
                        }
                        Val::L(vec![edits_val(a), b])
                    })
                    .collect(),
            );
            (v, hit)
        })) {
            Ok((v, hit)) => {
                if hit.0 {
                    tagset.insert("bow-hit".into());
                }
                if hit.1 {
                    tagset.insert("eow-hit".into());
                }
                v
            }
            Err(_) => Val::panic(),
        }
    };

    let delete = DeleteEdits { full_delete: cfg.fd, can_delete: move |s: &str| pm == 1 || can_delete_real(s) };
    let swap = SwapEdits { can_swap: move |a: &str, b: &str| pm == 1 || can_swap_real(a, b) };
    let mut rng = ChaCha8Rng::seed_from_u64(cfg.seed);
    let mut word = w0.to_string();
    let mut ex: Vec<usize> = ex0.to_vec();
    ex.sort();
    ex.dedup();
    let mut steps = vec![];
    let mut xs = vec![];
    let mut chain = vec![];
    let mut nt = false;
    let mut seam = false;
    let ps = edit_safe_rs(cfg, w0);
    if g {
        tagset.insert(if ps { "edit-safe".into() } else { "edit-unsafe".into() });
    }
    for _ in 0..k {
        let cl = split(&word, g);
        let cd: Vec<bool> = cl.iter().map(|c| cache.can_delete(c, pm)).collect();
        let csw: Vec<bool> = (0..cl.len().saturating_sub(1)).map(|i| cache.can_swap(&cl[i], &cl[i + 1], pm)).collect();
        steps.push(Val::L(vec![
            Val::L(cl.iter().map(|c| Val::str(c)).collect()),
            usize_list(&ex),
            Val::L(cd.iter().map(|b| Val::b(*b)).collect()),
            Val::L(csw.iter().map(|b| Val::b(*b)).collect()),
        ]));
        if ex.iter().any(|&p| p >= cl.len()) {
            tagset.insert("ex-out-of-range".into());
        }
        let exset: HashSet<usize> = ex.iter().cloned().collect();
        let res = catch_unwind(AssertUnwindSafe(|| {
            edit_word(
                &word,
                g,
                &mut rng,
                if cfg.kinds[0] { Some(&ins) } else { None },
                if cfg.kinds[1] { Some(&delete) } else { None },
                if cfg.kinds[2] { Some(&rep) } else { None },
                if cfg.kinds[3] { Some(&swap) } else { None },
                Some(exset),
            )
        }));
        match res {
            Err(_) => {
                chain.push(Val::panic());
                xs.push(Val::L(vec![Val::b(false), Val::b(false)]));
                tagset.insert("panic".into());
                break;
            }
            Ok((nw, nex)) => {
                let mut nexv: Vec<usize> = nex.into_iter().collect();
                nexv.sort();
                let ncl = split(&nw, g);
                // tags: which edit explains the result, and does the real segmentation of the
                // result equal the cluster list the edit produces (no seam moved)?
                let nexset: HashSet<usize> = nexv.iter().cloned().collect();
                let expl: Vec<_> = candidates(cfg, &cl, &ex)
                    .into_iter()
                    .filter(|(_, _, mw, me)| mw.concat() == nw && *me == nexset)
                    .collect();
                if let Some((kind, idx, _, _)) = expl.first() {
                    tagset.insert(format!("obs:{kind}"));
                    if *kind != "same" {
                        // boundary coverage: edits at the first / last position (the <bow>/<eow> contexts)
                        if *idx == 0 {
                            tagset.insert(format!("first:{}", &kind[..3]));
                        }
                        let last = if kind.starts_with("ins") { cl.len() } else if *kind == "swap" { cl.len() - 2 } else { cl.len() - 1 };
                        if *idx == last {
                            tagset.insert(format!("last:{}", &kind[..3]));
                        }
                        if nw.is_empty() {
                            tagset.insert("to-empty".into());
                        }
                        if !ex.is_empty() {
                            nt = true;
                        }
                    }
                    if !expl.iter().any(|(_, _, mw, _)| *mw == ncl) {
                        seam = true;
                    }
                } else {
                    tagset.insert("unexplained".into());
                }
                // the model's side of the class (C15_Seam.v `step_ss`): some explaining candidate's
                // cluster list is a chain; by `kf1_seam_class` that is "not in the class"
                let ss = g && expl.iter().any(|(_, _, mw, _)| chain_rs(mw));
                xs.push(Val::L(vec![Val::b(seam), Val::b(ss)]));
                if g && !expl.is_empty() {
                    tagset.insert(if ss { "step-chain".into() } else { "step-nochain".into() });
                    if ss == seam {
                        // theorem and real segmenter disagree on this step (`agree` reports it too)
                        tagset.insert("seam-mismatch".into());
                    }
                }
                chain.push(Val::L(vec![Val::L(ncl.iter().map(|c| Val::str(c)).collect()), usize_list(&nexv)]));
                word = nw;
                ex = nexv;
                if seam {
                    // grapheme mode only: the edit is explained at text level, but re-segmenting the
                    // result does not give the clusters the edit produced (a neighbour joined or split).
                    // Known-finding class KF1-seam; the chain is cut here so that the class covers
                    // nothing but this last call. Inside the domain of `edit_stable_iff` (an explaining
                    // edit whose seams are glued) the class tag is withheld: a failure there is a violation.
                    tagset.insert("kf1-seam".into());
                    if ps {
                        // `chain_stable_partial`: cannot happen for an edit-safe start
                        tagset.insert("edit-safe-kf1".into());
                    }
                    if !ss && !ps {
                        tagset.insert("class:KF1-seam".into());
                    }
                    break;
                }
            }
        }
    }
    if nt {
        tags.push("nt".into());
    }
    let mut ts: Vec<String> = tagset.into_iter().collect();
    ts.sort();
    tags.extend(ts);
    tags.push(format!("k{}", steps.len()));
    // the position of the generator after the last call: (block-hi block-lo offset) as RNG_Model.get_word_pos
    let wp = rng.get_word_pos();
    let block = (wp / 16) as u64;
    let pos = Val::L(vec![Val::I((block >> 32) as i64), Val::I((block & 0xffff_ffff) as i64), Val::I((wp % 16) as i64)]);
    tags.push(format!("words{}", wp.min(9)));
    Derived { steps, xs, ps, out: Val::L(vec![Val::L(vec![probe, Val::L(chain)]), pos]), tags }
}

// ------------------------------------------------------------------ val <-> cfg
fn edits_to_val(es: &Edits, g: bool) -> Val {
    Val::L(es.iter().map(|(s, w)| Val::L(vec![Val::clusters(s, g), Val::b(*w > 0.0), f64_val(*w)])).collect())
}

fn cfg_to_val(cfg: &Cfg, steps: Vec<Val>, xs: Vec<Val>, ps: bool) -> Val {
    Val::L(vec![
        Val::b(cfg.g),
        Val::L(cfg.kinds.iter().map(|b| Val::b(*b)).collect()),
        Val::b(cfg.fd),
        Val::I(cfg.pm as i64),
        Val::L(
            cfg.itab
                .iter()
                .map(|(p, c, es)| Val::L(vec![Val::str(p), Val::str(c), edits_to_val(es, cfg.g)]))
                .collect(),
        ),
        Val::L(
            cfg.rtab
                .iter()
                .map(|(p, c, n, es)| Val::L(vec![Val::str(p), Val::str(c), Val::str(n), edits_to_val(es, cfg.g)]))
                .collect(),
        ),
        Val::I(cfg.seed as i64),
        Val::L(steps),
        Val::L(xs),
        Val::b(ps),
    ])
}

fn val_edits(v: &Val) -> Option<Edits> {
    let mut es: Edits = vec![];
    for (i, e) in v.as_l()?.iter().enumerate() {
        let s = e.nth(0)?.clusters_to_string()?;
        let p = e.nth(1)?.as_bool()?;
        let w = match e.nth(2) {
            Some(wv) => val_f64(wv)?,
            None => legacy_weight(i, p),
        };
        es.push((s, w));
    }
    // WeightedIndex::new panics on an empty list, an all-zero list or an infinite total: outside the
    // domain. A SUBNORMAL total is outside the domain too: rand's WeightedIndex<f64> then returns
    // zero-weight indices (the sample rounds up to the total; notes/RNG.md), which the relational
    // model excludes.
    let total: f64 = es.iter().map(|(_, w)| *w).sum();
    if es.is_empty() || !total.is_finite() || total < f64::MIN_POSITIVE {
        return None;
    }
    Some(es)
}

/// parse; tables are deduplicated by key (first entry wins, as in the model's lookup)
fn val_cfg(v: &Val) -> Option<(Cfg, String, Vec<usize>, usize)> {
    let l = v.as_l()?;
    if l.len() != 8 && l.len() != 10 {
        return None;
    }
    let g = l[0].as_bool()?;
    let ks = l[1].as_l()?;
    if ks.len() != 4 {
        return None;
    }
    let kinds = [ks[0].as_bool()?, ks[1].as_bool()?, ks[2].as_bool()?, ks[3].as_bool()?];
    let fd = l[2].as_bool()?;
    let pm = match l[3].as_i()? {
        0 => 0u8,
        _ => 1u8,
    };
    let mut itab: Vec<(String, String, Edits)> = vec![];
    for e in l[4].as_l()? {
        let (p, c) = (e.nth(0)?.to_string_lossy()?, e.nth(1)?.to_string_lossy()?);
        let es = val_edits(e.nth(2)?)?;
        if !itab.iter().any(|(p2, c2, _)| *p2 == p && *c2 == c) {
            itab.push((p, c, es));
        }
    }
    let mut rtab: Vec<(String, String, String, Edits)> = vec![];
    for e in l[5].as_l()? {
        let (p, c, n) = (e.nth(0)?.to_string_lossy()?, e.nth(1)?.to_string_lossy()?, e.nth(2)?.to_string_lossy()?);
        let es = val_edits(e.nth(3)?)?;
        if !rtab.iter().any(|(p2, c2, n2, _)| *p2 == p && *c2 == c && *n2 == n) {
            rtab.push((p, c, n, es));
        }
    }
    let seed = u64::try_from(l[6].as_i()?).ok()?;
    let steps = l[7].as_l()?;
    if steps.len() > 12 {
        return None;
    }
    let (w0, ex0) = match steps.first() {
        Some(s) => {
            let w0 = s.nth(0)?.clusters_to_string()?;
            let mut ex0: Vec<usize> = s.nth(1)?.as_l()?.iter().map(|x| x.as_usize()).collect::<Option<_>>()?;
            if ex0.iter().any(|&p| p > 1 << 20) {
                return None;
            }
            ex0.sort();
            ex0.dedup();
            (w0, ex0)
        }
        None => (String::new(), vec![]),
    };
    Some((Cfg { g, kinds, fd, pm, itab, rtab, seed }, w0, ex0, steps.len()))
}


// ------------------------------------------------------------------ corrupt_spelling stream
#[derive(Clone, Debug)]
struct E2e {
    trigrams: Vec<(String, String, String, usize)>,
    words: Vec<String>,
    seed: u64,
    charmode: bool,
    /// third stream: Some((corruption probability, char_edit_prob)); None = second stream
    /// (probability 1.0, char_edit_prob 0.0 / 1.0 by `charmode`)
    probs: Option<(f64, f64)>,
    /// allow_full_delete (third stream only; the second stream keeps it off: "no word lost")
    fd: bool,
}

impl E2e {
    fn pw(&self) -> f64 {
        self.probs.map(|p| p.0).unwrap_or(1.0)
    }
    fn pc(&self) -> f64 {
        self.probs.map(|p| p.1).unwrap_or(if self.charmode { 1.0 } else { 0.0 })
    }
}

/// the tables corrupt_spelling builds from the 3-gram dictionary (src/data/preprocessing.rs):
/// insertions[(prev, next)] = all cur; replacements[(prev, cur, next)] = the other cur of (prev, next)
///
/// The ORDER of the edit strings inside an entry decides which one a `WeightedIndex` sample names:
/// corrupt_spelling pushes them in the order `dict.items().sorted_by_key(..)` yields, i.e. by falling
/// frequency and, among equal frequencies, by the dictionary line ("prev cur next") — the order the
/// exact line of the correspondence checks. Weight = freq.powf(1.0 / temperature), temperature 2.0.
fn e2e_tables(t: &[(String, String, String, usize)]) -> (Vec<(String, String, Edits)>, Vec<(String, String, String, Edits)>) {
    let mut sorted: Vec<&(String, String, String, usize)> = t.iter().collect();
    sorted.sort_by_key(|(p, c, n, f)| (std::cmp::Reverse(*f), format!("{p} {c} {n}")));
    let art_temp: f64 = 2.0;
    let mut itab: Vec<(String, String, Edits)> = vec![];
    for (p, c, n, f) in sorted {
        let w = (*f as f64).powf(1.0 / art_temp);
        match itab.iter_mut().find(|e| e.0 == *p && e.1 == *n) {
            Some(e) => e.2.push((c.clone(), w)),
            None => itab.push((p.clone(), n.clone(), vec![(c.clone(), w)])),
        }
    }
    let mut rtab = vec![];
    for (p, n, es) in &itab {
        for (i, (c, _)) in es.iter().enumerate() {
            let mut others = es.clone();
            others.remove(i);
            if !others.is_empty() {
                rtab.push((p.clone(), c.clone(), n.clone(), others));
            }
        }
    }
    (itab, rtab)
}

fn e2e_info(e: &E2e, _cache: &mut Cache) -> Val {
    let mut chars: Vec<String> = vec![];
    for s in e.words.iter().chain(e.trigrams.iter().map(|t| &t.1)) {
        for c in s.chars() {
            let c = c.to_string();
            if !chars.contains(&c) {
                chars.push(c);
            }
        }
    }
    chars.sort();
    Val::L(
        chars
            .iter()
            .map(|c| {
                let ch = Character { str: c };
                Val::L(vec![Val::str(c), Val::b(ch.is_alphabetic()), Val::b(ch.is_punctuation())])
            })
            .collect(),
    )
}

fn e2e_to_val(e: &E2e, cache: &mut Cache) -> Val {
    let (itab, rtab) = e2e_tables(&e.trigrams);
    let cfg = Cfg { g: false, kinds: [true; 4], fd: e.fd, pm: 0, itab, rtab, seed: e.seed };
    let mut l = match cfg_to_val(&cfg, vec![], vec![], false) {
        Val::L(mut l) => {
            l.truncate(8);
            l
        }
        _ => unreachable!(),
    };
    l[0] = Val::I(if e.probs.is_some() { 3 } else { 2 });
    l.push(Val::L(
        e.trigrams
            .iter()
            .map(|(p, c, n, f)| Val::L(vec![Val::str(p), Val::str(c), Val::str(n), Val::u(*f)]))
            .collect(),
    ));
    l.push(Val::L(e.words.iter().map(|w| Val::str(w)).collect()));
    l.push(e2e_info(e, cache));
    l.push(match e.probs {
        Some((pw, pc)) => Val::L(vec![f64_val(pw), f64_val(pc)]),
        None => Val::b(e.charmode),
    });
    Val::L(l)
}

fn ok_token(s: &str, ctx: bool) -> bool {
    (ctx && (s == "<bow>" || s == "<eow>"))
        || (s.chars().count() == 1 && s.chars().all(|c| c.is_ascii_graphic()))
}

fn val_e2e(v: &Val) -> Option<E2e> {
    let l = v.as_l()?;
    let stream = l.first()?.as_i()?;
    if l.len() != 12 || (stream != 2 && stream != 3) {
        return None;
    }
    let seed = u64::try_from(l[6].as_i()?).ok()?;
    let mut trigrams: Vec<(String, String, String, usize)> = vec![];
    for t in l[8].as_l()? {
        let (p, c, n) = (t.nth(0)?.to_string_lossy()?, t.nth(1)?.to_string_lossy()?, t.nth(2)?.to_string_lossy()?);
        let f = t.nth(3)?.as_usize()?;
        if !ok_token(&p, true) || !ok_token(&c, false) || !ok_token(&n, true) || f == 0 || f > 9 {
            return None;
        }
        if !trigrams.iter().any(|x| x.0 == p && x.1 == c && x.2 == n) {
            trigrams.push((p, c, n, f));
        }
    }
    if trigrams.is_empty() || trigrams.len() > 40 {
        return None; // Dictionary::load of an empty file gives freq_sum 0
    }
    let mut words = vec![];
    for w in l[9].as_l()? {
        let w = w.to_string_lossy()?;
        if w.is_empty() || w.chars().count() > 4 || !w.chars().all(|c| c.is_ascii_graphic()) {
            return None;
        }
        words.push(w);
    }
    if words.len() > 4 {
        return None;
    }
    if stream == 3 {
        let pw = val_f64(l[11].nth(0)?)?;
        let pc = val_f64(l[11].nth(1)?)?;
        // corrupt_spelling clamps the probability to [0, 1] and asserts it is positive
        if !(pw > 0.0 && pw <= 1.0) || l[11].as_l()?.len() != 2 {
            return None;
        }
        return Some(E2e { trigrams, words, seed, charmode: false, probs: Some((pw, pc)), fd: l[2].as_bool()? });
    }
    if l[2].as_bool()? {
        return None;
    }
    Some(E2e { trigrams, words, seed, charmode: l[11].as_bool()?, probs: None, fd: false })
}

fn run_e2e(e: &E2e) -> (Val, Vec<String>) {
    let dir = format!("/tmp/C15/run-{}", std::process::id());
    let _ = std::fs::create_dir_all(&dir);
    let path = format!("{dir}/chars.tsv");
    let body: String = e.trigrams.iter().map(|(p, c, n, f)| format!("{p} {c} {n}\t{f}\n")).collect();
    let _ = std::fs::write(&path, body);
    let text = e.words.join(" ");
    let mut tags = vec![if e.probs.is_some() { "e2e3".to_string() } else { "e2e".to_string() }];
    if e.trigrams.iter().enumerate().any(|(i, a)| e.trigrams[..i].iter().any(|b| a.0 == b.0 && a.2 == b.2 && a.3 == b.3)) {
        // two 3-grams of one (prev, next) context with the same frequency: their order inside the
        // table entry is decided by the tie-break of the sort alone
        tags.push("e2e-tie".into());
    }
    // two independent runs: a fresh closure each (the dictionary is loaded again into a new HashMap),
    // same text, same seed
    let mut outs = vec![];
    for run in 0..2 {
        let (seed, pw, pc, fd, p2, text) = (e.seed, e.pw(), e.pc(), e.fd, path.clone(), text.clone());
        let res = catch_unwind(AssertUnwindSafe(move || {
            let f = preprocessing(PreprocessingFnConfig::SpellingCorruption(
                Part::Input,
                pw,
                fd,
                SpellingCorruptionMode::Artificial(pc, 2.0, Some(p2.into())),
            ));
            let info = TextDataInfo { seed, ..Default::default() };
            f(TrainData::new(text, None), info).ok().map(|(d, _)| d.verif_input().to_string())
        }));
        outs.push(match res {
            Ok(Some(t)) => {
                let ws: Vec<&str> = if t.is_empty() { vec![] } else { t.split(' ').collect() };
                if run == 0 && ws.len() < e.words.len() {
                    // a word was deleted completely and dropped from the text (allow_full_delete)
                    tags.push("e2e3-dropped".into());
                }
                if run == 0 && ws.iter().zip(e.words.iter()).any(|(a, b)| a != b) {
                    tags.push("e2e-changed".into());
                    if e.probs.is_some() && ws.iter().zip(e.words.iter()).any(|(a, b)| a == b) && e.words.len() > 1 {
                        // some words corrupted, some kept: both branches of the per-word draw
                        tags.push("e2e3-mixed".into());
                    }
                    if e.probs.is_none() && e.charmode && e.words.iter().any(|w| w.len() > 1) {
                        tags.push("nt".into());
                        tags.push("e2e-chain".into());
                    }
                }
                Val::L(ws.iter().map(|w| Val::str(w)).collect())
            }
            Ok(None) => Val::L(vec![Val::I(-776)]),
            Err(_) => {
                if run == 0 {
                    tags.push("panic".into());
                }
                Val::panic()
            }
        });
    }
    if outs[0] != outs[1] {
        tags.push("e2e-nondet".into());
    }
    let _ = std::fs::remove_file(&path);
    let _ = std::fs::remove_dir(&dir);
    (Val::L(outs), tags)
}

const E2E_ALPHA: &[&str] = &["a", "b", "a", "b", "c", "0", ".", "-", "$"];

fn gen_e2e(rng: &mut Rng) -> E2e {
    let nw = rng.range(1, 3);
    let words: Vec<String> = (0..nw)
        .map(|_| (0..rng.range(1, 3)).map(|_| *rng.pick(E2E_ALPHA)).collect::<String>())
        .collect();
    let mut trigrams: Vec<(String, String, String, usize)> = vec![];
    let mut push = |p: String, c: String, n: String, f: usize| {
        if !trigrams.iter().any(|x| x.0 == p && x.1 == c && x.2 == n) {
            trigrams.push((p, c, n, f));
        }
    };
    // contexts of the words themselves (insertion contexts (prev,next) and replacement contexts
    // (prev,cur,next) with at least one alternative), then random ones
    for w in &words {
        let cs: Vec<String> = w.chars().map(|c| c.to_string()).collect();
        let at = |i: isize| -> String {
            if i < 0 {
                "<bow>".into()
            } else if i as usize >= cs.len() {
                "<eow>".into()
            } else {
                cs[i as usize].clone()
            }
        };
        for i in 0..=cs.len() as isize {
            if rng.chance(1, 2) {
                push(at(i - 1), rng.pick(E2E_ALPHA).to_string(), at(i), rng.range(1, 5));
            }
            if (i as usize) < cs.len() && rng.chance(1, 2) {
                push(at(i - 1), at(i), at(i + 1), rng.range(1, 5));
                push(at(i - 1), rng.pick(E2E_ALPHA).to_string(), at(i + 1), rng.range(1, 5));
            }
        }
    }
    for _ in 0..rng.range(1, 8) {
        let p = if rng.chance(1, 4) { "<bow>".to_string() } else { rng.pick(E2E_ALPHA).to_string() };
        let n = if rng.chance(1, 4) { "<eow>".to_string() } else { rng.pick(E2E_ALPHA).to_string() };
        push(p, rng.pick(E2E_ALPHA).to_string(), n, rng.range(1, 5));
    }
    // a third of the corrupt_spelling cases: arbitrary probabilities (third stream, exact line only)
    let probs = if rng.chance(1, 3) {
        let p = |rng: &mut Rng| -> f64 {
            match rng.below(6) {
                0 => 1.0,
                1 => 0.5,
                2 => 0.25,
                3 => 0.9,
                _ => (1 + rng.below(1 << 20)) as f64 / (1u64 << 20) as f64 * if rng.chance(1, 2) { 1.0 } else { 0.999_999_999_9 },
            }
        };
        let pw = p(rng);
        let pc = if rng.chance(1, 6) { 0.0 } else { p(rng) };
        Some((pw, pc))
    } else {
        None
    };
    let fd = probs.is_some() && rng.chance(1, 2);
    E2e { trigrams, words, seed: rng.below(1 << 30) as u64, charmode: rng.chance(2, 3), probs, fd }
}

// ------------------------------------------------------------------ fourth stream: corrupt_spelling from the text
#[derive(Clone, Debug)]
struct E4 {
    mode: u8,
    fd: bool,
    seed: u64,
    text: String,
    items: Vec<(String, usize)>,
    miss: Vec<(String, Vec<String>)>,
    prob: f64,
    pc: f64,
    art: f64,
    temp: f64,
    /// division probes (a, b): the model's binary64 division / usize-to-f64 conversion against the hardware
    divs: Vec<(u64, u64)>,
}

fn e4_has_tables(mode: u8) -> bool {
    mode == 0 || mode == 2
}
fn e4_has_miss(mode: u8) -> bool {
    mode == 1 || mode == 2 || mode == 4
}

/// the result of `freq.powf(1.0 / art_temp)` in corrupt_spelling: libm, not modelled, sent as data
fn e4_weight(f: usize, temp: f64) -> f64 {
    (f as f64).powf(1.0 / temp)
}

/// what the real crate says about the text: words, regex parts with their byte offsets, clusters, classes
fn e4_aux(text: &str) -> Val {
    Val::L(
        text_utils::text::split_words(text)
            .into_iter()
            .map(|(w, parts)| {
                let cs = CharString::new(w, true);
                Val::L(vec![
                    Val::str(w),
                    Val::L(parts.unwrap_or_default().iter().map(|(p, start)| Val::L(vec![Val::u(*start), Val::str(p)])).collect()),
                    Val::L(
                        (0..cs.len())
                            .map(|i| {
                                let c = cs.get(i).unwrap();
                                let ch = Character { str: c };
                                Val::L(vec![Val::str(c), Val::b(ch.is_alphabetic()), Val::b(ch.is_punctuation())])
                            })
                            .collect(),
                    ),
                ])
            })
            .collect(),
    )
}

fn e4_to_val(e: &E4) -> Val {
    Val::L(vec![
        Val::I(4),
        Val::I(e.mode as i64),
        Val::b(e.fd),
        Val::I(e.seed as i64),
        Val::str(&e.text),
        Val::L(e.items.iter().map(|(k, f)| Val::L(vec![Val::str(k), Val::u(*f), f64_val(e4_weight(*f, e.temp))])).collect()),
        Val::L(e.miss.iter().map(|(w, rs)| Val::L(vec![Val::str(w), Val::L(rs.iter().map(|r| Val::str(r)).collect())])).collect()),
        Val::L(vec![f64_val(e.prob), f64_val(e.pc), f64_val(e.art), f64_val(e.temp)]),
        e4_aux(&e.text),
        Val::L(e.divs.iter().map(|(a, b)| Val::L(vec![Val::I(*a as i64), Val::I(*b as i64), f64_val((*a as f64) / (*b as f64))])).collect()),
    ])
}

fn val_e4(v: &Val) -> Option<E4> {
    let l = v.as_l()?;
    if (l.len() != 9 && l.len() != 10) || l[0].as_i()? != 4 {
        return None;
    }
    let mode = u8::try_from(l[1].as_i()?).ok()?;
    if mode > 4 {
        return None;
    }
    let fd = l[2].as_bool()?;
    let seed = u64::try_from(l[3].as_i()?).ok()?;
    let text = l[4].to_string_lossy()?;
    if text.chars().count() > 60 {
        return None;
    }
    let mut items: Vec<(String, usize)> = vec![];
    for it in l[5].as_l()? {
        let k = it.nth(0)?.to_string_lossy()?;
        let f = it.nth(1)?.as_usize()?;
        // Dictionary::load: `line.trim().split('\t')`, lines split at '\n' (a trailing '\r' removed)
        if k.is_empty() || k.chars().next()?.is_whitespace() || k.contains(['\t', '\n', '\r']) || f > 1 << 40 {
            return None;
        }
        if !items.iter().any(|x| x.0 == k) {
            items.push((k, f));
        }
    }
    if items.len() > 80 {
        return None;
    }
    let mut miss: Vec<(String, Vec<String>)> = vec![];
    for m in l[6].as_l()? {
        let w = m.nth(0)?.to_string_lossy()?;
        let rs: Vec<String> = m.nth(1)?.as_l()?.iter().map(|r| r.to_string_lossy()).collect::<Option<_>>()?;
        if rs.len() > 6 {
            return None;
        }
        if !miss.iter().any(|x| x.0 == w) {
            miss.push((w, rs));
        }
    }
    if miss.len() > 12 {
        return None;
    }
    let p = l[7].as_l()?;
    if p.len() != 4 {
        return None;
    }
    let (prob, pc, art, temp) = (val_f64(&p[0])?, val_f64(&p[1])?, val_f64(&p[2])?, val_f64(&p[3])?);
    if !(temp > 0.01 && temp < 100.0) {
        return None;
    }
    let mut divs: Vec<(u64, u64)> = vec![];
    if let Some(dv) = l.get(9) {
        for d in dv.as_l()? {
            let (a, b) = (u64::try_from(d.nth(0)?.as_i()?).ok()?, u64::try_from(d.nth(1)?.as_i()?).ok()?);
            if a >= 1 << 62 || b >= 1 << 62 {
                return None;
            }
            divs.push((a, b));
        }
        if divs.len() > 100 {
            return None;
        }
    }
    Some(E4 { mode, fd, seed, text, items, miss, prob, pc, art, temp, divs })
}

fn run_e4(e: &E4) -> (Val, Vec<String>) {
    let dir = format!("/tmp/C15/run4-{}", std::process::id());
    let _ = std::fs::create_dir_all(&dir);
    let cpath = format!("{dir}/chars.tsv");
    let mpath = format!("{dir}/missp.json");
    let body: String = e.items.iter().map(|(k, f)| format!("{k}\t{f}\n")).collect();
    let _ = std::fs::write(&cpath, body);
    let mut map = serde_json::Map::new();
    for (w, rs) in &e.miss {
        map.insert(w.clone(), serde_json::Value::Array(rs.iter().map(|r| serde_json::Value::String(r.clone())).collect()));
    }
    let _ = std::fs::write(&mpath, serde_json::Value::Object(map).to_string());
    let mut tags = vec!["t4".to_string(), format!("t4-mode{}", e.mode)];
    let words: Vec<&str> = e.text.split_whitespace().collect();
    if !e.text.is_ascii() {
        tags.push("t4-nonascii".into());
    }
    if e4_has_tables(e.mode) {
        let total: usize = e.items.iter().map(|x| x.1).sum();
        if e.items.iter().any(|x| (x.1 as f64) / (total as f64) < 1.0 / 10_000.0) {
            tags.push("t4-filtered".into());
        }
        if e.items.iter().enumerate().any(|(i, a)| e.items[..i].iter().any(|b| a.1 == b.1)) {
            tags.push("t4-tie".into());
        }
    }
    let mut outs = vec![];
    for run in 0..2 {
        let (seed, prob, pc, art, temp, fd, mode) = (e.seed, e.prob, e.pc, e.art, e.temp, e.fd, e.mode);
        let (cp, mp, text) = (cpath.clone(), mpath.clone(), e.text.clone());
        let res = catch_unwind(AssertUnwindSafe(move || {
            let m = match mode {
                0 => SpellingCorruptionMode::Artificial(pc, temp, Some(cp.into())),
                1 => SpellingCorruptionMode::Realistic(mp.into()),
                2 => SpellingCorruptionMode::Mixed(art, pc, temp, Some(cp.into()), mp.into()),
                3 => SpellingCorruptionMode::Artificial(pc, temp, None),
                _ => SpellingCorruptionMode::Mixed(art, pc, temp, None, mp.into()),
            };
            let f = preprocessing(PreprocessingFnConfig::SpellingCorruption(Part::Input, prob, fd, m));
            let info = TextDataInfo { seed, ..Default::default() };
            f(TrainData::new(text, None), info).ok().map(|(d, _)| d.verif_input().to_string())
        }));
        outs.push(match res {
            Ok(Some(t)) => {
                if run == 0 {
                    let ows: Vec<&str> = t.split(' ').collect();
                    if t != words.join(" ") {
                        tags.push("t4-changed".into());
                        if e.mode != 0 && e.mode != 3 || words.iter().any(|w| CharString::new(w, true).len() > 1) {
                            tags.push("nt".into());
                        }
                        if ows.iter().any(|o| e.miss.iter().any(|(_, rs)| rs.iter().any(|r| r == o))) && e4_has_miss(e.mode) {
                            tags.push("t4-missp".into());
                        }
                    } else {
                        tags.push("t4-same".into());
                    }
                    if ows.len() < words.len() {
                        tags.push("t4-dropped".into());
                    }
                }
                Val::L(vec![Val::str(&t)])
            }
            Ok(None) => Val::L(vec![Val::I(-776)]),
            Err(_) => {
                if run == 0 {
                    tags.push("t4-panic".into());
                }
                Val::panic()
            }
        });
    }
    if outs[0] != outs[1] {
        tags.push("e2e-nondet".into());
    }
    let _ = std::fs::remove_file(&cpath);
    let _ = std::fs::remove_file(&mpath);
    let _ = std::fs::remove_dir(&dir);
    (Val::L(outs), tags)
}

/// class-rich units: letters (ASCII, Latin-1, precomposed, titlecase, letter number, CJK), base + mark
/// (not alphabetic as a cluster), digits and other numbers, punctuation of several categories, symbols,
/// Join_Control, and a few seam-prone code points
const UNITS4: &[&str] = &[
    "a", "b", "c", "a", "b", "c", "d", "ä", "é", "ß", "Σ", "ª", "ǅ", "ⅷ", "中", "e\u{301}", "n\u{303}", "0", "7", "²", "½", ".", "-", "„",
    "’", "_", "¿", "$", "☺", "😀", "\u{345}",
];
const UNITS4_SEAMY: &[&str] = &["\u{301}", "\u{200d}", "🇩", "🇪", "\u{1100}", "\u{1161}", "क", "\u{94d}", "\u{a7ce}"];
const SEPS4: &[&str] = &[" ", " ", " ", " ", "  ", "\t", "\n", "\u{a0}", "\u{2003}", " \u{3000}"];

fn unit4s(rng: &mut Rng, seamy: bool) -> &'static str {
    if seamy && rng.chance(2, 5) {
        *rng.pick(UNITS4_SEAMY)
    } else {
        unit4(rng)
    }
}

fn unit4(rng: &mut Rng) -> &'static str {
    if rng.chance(1, 12) {
        *rng.pick(UNITS4_SEAMY)
    } else {
        *rng.pick(UNITS4)
    }
}

fn gen_prob(rng: &mut Rng) -> f64 {
    match rng.below(8) {
        0 | 1 => 1.0,
        2 => 0.5,
        3 => 0.25,
        4 => 0.9,
        _ => (1 + rng.below(1 << 20)) as f64 / (1u64 << 20) as f64 * if rng.chance(1, 2) { 1.0 } else { 0.999_999_999_9 },
    }
}

fn gen_e4(rng: &mut Rng) -> E4 {
    let mode = match rng.below(10) {
        0..=3 => 0u8,
        4 | 5 => 1,
        6 | 7 => 2,
        8 => 3,
        _ => 4,
    };
    let nw = rng.range(1, 4);
    let ascii_only = rng.chance(1, 5);
    // one case in six: seam-prone units everywhere and (below) one edit per character, so that re-segmenting the word
    // between the calls of the chain matters
    let seamy = !ascii_only && rng.chance(1, 5);
    let words: Vec<String> = (0..nw)
        .map(|_| {
            (0..rng.range(1, 4))
                .map(|_| if ascii_only { *rng.pick(&["a", "b", "c", "0", ".", "-"]) } else { unit4s(rng, seamy) })
                .collect::<String>()
        })
        .collect();
    let mut text = String::new();
    if rng.chance(1, 8) {
        text.push_str(*rng.pick(SEPS4));
    }
    for (i, w) in words.iter().enumerate() {
        if i > 0 {
            text.push_str(*rng.pick(SEPS4));
        }
        text.push_str(w);
    }
    if rng.chance(1, 8) {
        text.push_str(*rng.pick(SEPS4));
    }
    // the character dictionary: 3-grams around the clusters of the words, then random ones
    let mut items: Vec<(String, usize)> = vec![];
    if e4_has_tables(mode) {
        let sep = |rng: &mut Rng| -> &'static str {
            match rng.below(16) {
                0 => "  ",
                1 => "\u{a0}",
                2 => " \u{2003}",
                _ => " ",
            }
        };
        let mut push = |rng: &mut Rng, p: String, c: String, n: String, f: usize| {
            let k = format!("{p}{}{c}{}{n}", sep(rng), sep(rng));
            if !items.iter().any(|x| x.0 == k) {
                items.push((k, f));
            }
        };
        for w in &words {
            let cs: Vec<String> = split(w, true);
            let at = |i: isize| -> String {
                if i < 0 {
                    "<bow>".into()
                } else if i as usize >= cs.len() {
                    "<eow>".into()
                } else {
                    cs[i as usize].clone()
                }
            };
            for i in 0..=cs.len() as isize {
                if rng.chance(1, 2) {
                    let c = unit4s(rng, seamy).to_string();
                    let f = rng.range(1, 5);
                    push(rng, at(i - 1), c, at(i), f);
                }
                if (i as usize) < cs.len() && rng.chance(1, 2) {
                    let f = rng.range(1, 5);
                    push(rng, at(i - 1), at(i), at(i + 1), f);
                    let c = unit4(rng).to_string();
                    let f = rng.range(1, 5);
                    push(rng, at(i - 1), c, at(i + 1), f);
                }
            }
        }
        for _ in 0..rng.range(0, 8) {
            let p = if rng.chance(1, 4) { "<bow>".to_string() } else { unit4(rng).to_string() };
            let n = if rng.chance(1, 4) { "<eow>".to_string() } else { unit4(rng).to_string() };
            // now and then an edit string of two units, or one that is not a cluster on its own
            let c = if rng.chance(1, 8) { format!("{}{}", unit4(rng), unit4(rng)) } else { unit4(rng).to_string() };
            let f = rng.range(1, 5);
            push(rng, p, c, n, f);
        }
        items.truncate(60);
        match rng.below(24) {
            0 => {
                // a key that is not a 3-gram: panics when it passes the filter
                let k = if rng.chance(1, 2) { "a b".to_string() } else { "a b c d".to_string() };
                items.push((k, rng.range(1, 5)));
            }
            1..=3 => {
                // the relative-frequency filter: one heavy item, so that frequency k sits at the
                // threshold k / total < 1e-4 (total = 10000 k + d)
                let small: usize = items.iter().map(|x| x.1).sum();
                let k = rng.range(1, 5);
                let d = if rng.chance(1, 2) { 0 } else { rng.below(5) as isize - 2 };
                let heavy = (10_000 * k) as isize + d * rng.range(1, 3) as isize - small as isize;
                if heavy > 0 {
                    items.push(("<bow> x <eow>".into(), heavy as usize));
                }
            }
            4 => {
                // a frequency of zero
                if let Some(x) = items.first_mut() {
                    x.1 = 0;
                }
            }
            _ => {}
        }
        rng.shuffle(&mut items);
    }
    // misspellings: of whole words and of their regex parts
    let mut miss: Vec<(String, Vec<String>)> = vec![];
    if e4_has_miss(mode) {
        let repl = |rng: &mut Rng| -> String {
            match rng.below(10) {
                0 => String::new(),
                1 => format!("{} {}", unit4(rng), unit4(rng)),
                _ => (0..rng.range(1, 3)).map(|_| unit4(rng)).collect(),
            }
        };
        let mut add = |rng: &mut Rng, w: String| {
            if !miss.iter().any(|x| x.0 == w) {
                let n = if rng.chance(1, 30) { 0 } else { rng.range(1, 3) };
                let rs = (0..n).map(|_| repl(rng)).collect();
                miss.push((w, rs));
            }
        };
        for (w, parts) in text_utils::text::split_words(&text) {
            if rng.chance(1, 3) {
                add(rng, w.to_string());
            }
            for (p, _) in parts.unwrap_or_default() {
                if rng.chance(1, 2) {
                    add(rng, p.to_string());
                }
            }
        }
        if rng.chance(1, 3) {
            let u = unit4(rng).to_string();
            add(rng, u);
        }
    }
    let prob = if rng.chance(1, 40) { 0.0 } else if rng.chance(1, 30) { 1.5 } else { gen_prob(rng) };
    let pc = if seamy { 1.0 } else if rng.chance(1, 6) { 0.0 } else { gen_prob(rng) };
    let prob = if seamy && prob > 0.0 { 1.0 } else { prob };
    let art = if rng.chance(1, 10) { 0.0 } else if rng.chance(1, 10) { 1.0 } else if rng.chance(1, 20) { 2.5 } else { gen_prob(rng) };
    let temp = *rng.pick(&[2.0, 2.0, 1.0, 3.0, 0.7]);
    // division probes: every (frequency, total) of the dictionary, and operands of all magnitudes (above 2^53 the
    // conversion to f64 rounds), quotients at the filter threshold
    let total: u64 = items.iter().map(|x| x.1 as u64).sum();
    let mut divs: Vec<(u64, u64)> = items.iter().map(|x| (x.1 as u64, total)).collect();
    for _ in 0..4 {
        let big = |rng: &mut Rng| -> u64 {
            let bits = rng.range(1, 62);
            (rng.next_u64() >> (64 - bits)) | if rng.chance(1, 2) { 1u64 << (bits - 1) } else { 0 }
        };
        let (a, b) = match rng.below(5) {
            0 => {
                let k = 1 + rng.below(1000) as u64;
                (k, (10_000 * k as i64 + rng.below(3) as i64 - 1) as u64)
            }
            1 => (big(rng), 0),
            _ => (big(rng), big(rng)),
        };
        divs.push((a, b));
    }
    E4 { mode, fd: rng.chance(1, 2), seed: rng.below(1 << 30) as u64, text, items, miss, prob, pc, art, temp, divs }
}

// ------------------------------------------------------------------ generators
const ALPHA: &[&str] = &["a", "b", "a", "b", "c", "0", ".", "-", "ä", "ª", "²", "_", "ǅ", "„", "$"];
const ALPHA_G: &[&str] = &["a", "b", "a", "b", "0", ".", "ä", "e\u{301}", "😀", "n\u{303}", "ª", "²", "_", "\u{345}", "ⅷ", "+"];
const SEAMY: &[&str] = &["\u{301}", "🇩", "🇪", "\u{1100}", "\u{1161}", "\u{200d}", "क", "\u{94d}", "\r", "\n"];

fn unit(rng: &mut Rng, g: bool, seam: bool) -> &'static str {
    if seam && rng.chance(1, 3) {
        *rng.pick(SEAMY)
    } else if g {
        *rng.pick(ALPHA_G)
    } else {
        *rng.pick(ALPHA)
    }
}

fn gen_word(rng: &mut Rng, g: bool, seam: bool) -> String {
    let n = match rng.below(20) {
        0 => 0,
        1 | 2 => 1,
        3 | 4 => 2,
        _ => rng.range(2, 7),
    };
    // one word in four is pure ASCII (the word on which an `is_ascii()` shortcut would be taken) while the edit
    // strings of the tables keep their multi-code-point clusters
    if rng.chance(1, 4) {
        return (0..n).map(|_| *rng.pick(&["a", "b", "c", "0", ".", "-"])).collect();
    }
    (0..n).map(|_| unit(rng, g, seam)).collect()
}

/// a weight: small integers (as the first version of the harness), square roots of counts (what
/// corrupt_spelling computes with temperature 2), random mantissas over a few binades (cumulative sums
/// then round), and now and then a very small or very large normal number
fn gen_weight(rng: &mut Rng) -> f64 {
    match rng.below(12) {
        0..=3 => rng.range(1, 3) as f64,
        4..=6 => (rng.range(1, 50) as f64).powf(0.5),
        7..=9 => {
            let m = rng.next_u64() & ((1u64 << 52) - 1);
            let e = 1023 - 3 + rng.below(7) as u64;
            f64::from_bits((e << 52) | m)
        }
        10 => 1e-300 * (1.0 + rng.below(9) as f64),
        _ => 1e300 * (1.0 + rng.below(3) as f64) / 4.0,
    }
}

fn gen_edits(rng: &mut Rng, g: bool, seam: bool) -> Edits {
    let n = if rng.chance(1, 5) { rng.range(4, 6) } else { rng.range(1, 3) };
    let mut es: Edits = (0..n)
        .map(|_| {
            let len = match rng.below(10) {
                0 | 1 => 0,
                2..=6 => 1,
                7 | 8 => 2,
                _ => 3,
            };
            let s: String = (0..len).map(|_| unit(rng, g, seam)).collect();
            (s, if rng.chance(1, 6) { 0.0 } else { gen_weight(rng) })
        })
        .collect();
    if !es.iter().any(|(_, w)| *w > 0.0) {
        es[0].1 = gen_weight(rng);
    }
    es
}

/// edits with the weights of the first version of the harness (1, 2, 3, 1, ... / 0)
fn legacy_edits(l: &[(&str, bool)]) -> Edits {
    l.iter().enumerate().map(|(i, (s, p))| (s.to_string(), legacy_weight(i, *p))).collect()
}

fn ctx_of(cl: &[String], i: isize, rng: &mut Rng, g: bool, seam: bool) -> String {
    // a context string for position i of the word: the real neighbour (mostly), else a random unit
    if rng.chance(1, 8) {
        return unit(rng, g, seam).to_string();
    }
    if i < 0 {
        "<bow>".into()
    } else if (i as usize) >= cl.len() {
        "<eow>".into()
    } else {
        cl[i as usize].clone()
    }
}

fn gen_cfg(rng: &mut Rng, w0: &str, g: bool, seam: bool) -> Cfg {
    let cl = split(w0, g);
    let n = cl.len() as isize;
    let mut kinds = [false; 4];
    match rng.below(20) {
        0 => {}
        1..=7 => kinds[rng.below(4)] = true,
        8..=13 => kinds = [true; 4],
        _ => {
            for k in kinds.iter_mut() {
                *k = rng.chance(1, 2);
            }
        }
    }
    let dense = rng.below(5).min(3); // 0: sparse table, 1-2: half of the contexts, 3: every context of the word
    let mut itab = vec![];
    for i in 0..=n {
        if dense == 3 || (dense > 0 && rng.chance(1, 2)) || rng.chance(1, 6) {
            itab.push((ctx_of(&cl, i - 1, rng, g, seam), ctx_of(&cl, i, rng, g, seam), gen_edits(rng, g, seam)));
        }
    }
    let mut rtab = vec![];
    for i in 0..n {
        if dense == 3 || (dense > 0 && rng.chance(1, 2)) || rng.chance(1, 6) {
            rtab.push((
                ctx_of(&cl, i - 1, rng, g, seam),
                ctx_of(&cl, i, rng, g, seam),
                ctx_of(&cl, i + 1, rng, g, seam),
                gen_edits(rng, g, seam),
            ));
        }
    }
    // contexts over the small alphabet so that later steps of a chain still find entries
    for _ in 0..rng.below(6) {
        let p = if rng.chance(1, 4) { "<bow>".to_string() } else { unit(rng, g, false).to_string() };
        let c = if rng.chance(1, 4) { "<eow>".to_string() } else { unit(rng, g, false).to_string() };
        itab.push((p, c, gen_edits(rng, g, seam)));
    }
    for _ in 0..rng.below(6) {
        let p = if rng.chance(1, 4) { "<bow>".to_string() } else { unit(rng, g, false).to_string() };
        let c = unit(rng, g, false).to_string();
        let nx = if rng.chance(1, 4) { "<eow>".to_string() } else { unit(rng, g, false).to_string() };
        rtab.push((p, c, nx, gen_edits(rng, g, seam)));
    }
    // first entry wins
    let mut it2: Vec<(String, String, Edits)> = vec![];
    for e in itab {
        if !it2.iter().any(|x| x.0 == e.0 && x.1 == e.1) {
            it2.push(e);
        }
    }
    let mut rt2: Vec<(String, String, String, Edits)> = vec![];
    for e in rtab {
        if !rt2.iter().any(|x| x.0 == e.0 && x.1 == e.1 && x.2 == e.2) {
            rt2.push(e);
        }
    }
    Cfg {
        g,
        kinds,
        fd: rng.chance(1, 2),
        pm: if rng.chance(3, 10) { 1 } else { 0 },
        itab: it2,
        rtab: rt2,
        seed: rng.below(1 << 30) as u64,
    }
}

fn gen_excl(rng: &mut Rng, n: usize) -> Vec<usize> {
    let mut ex = vec![];
    match rng.below(12) {
        0 | 1 | 2 => {}
        3 => {
            if rng.chance(1, 3) {
                ex.extend(0..n)
            }
        }
        4 => {
            // everything but one position
            if n > 0 {
                let keep = rng.below(n);
                ex.extend((0..n).filter(|&p| p != keep));
            }
        }
        _ => {
            let d = rng.range(1, 5);
            ex.extend((0..n).filter(|_| rng.below(6) < d));
        }
    }
    if rng.chance(1, 12) {
        // outside the premise of the theorems: positions beyond the word
        ex.push(n + rng.below(3));
    }
    ex
}

struct C15 {
    cache: Cache,
}

impl Prop for C15 {
    fn gen(&mut self, rng: &mut Rng, _tier: Tier, _i: usize, _n: usize) -> Val {
        if rng.chance(1, 8) {
            let e = gen_e2e(rng);
            return e2e_to_val(&e, &mut self.cache);
        }
        if rng.chance(1, 6) {
            return e4_to_val(&gen_e4(rng));
        }
        let g = rng.chance(1, 2);
        let probe = g && rng.chance(1, 7);
        let seam = probe || (g && rng.chance(1, 4));
        let w0 = if probe {
            // seam probe: a pair of code points of random grapheme categories (biased to the edge of
            // `cf_break`) behind a text that sets up the look-behind states of the segmenter; deletes,
            // swaps and the seam-prone edit strings of the tables then move the seams
            let (a, b) = seam::seam_pair(rng);
            let (u, v) = (seam::seam_prefix(rng), seam::seam_suffix(rng));
            match rng.below(3) {
                0 => format!("{u}{a}{b}{v}"),
                1 => format!("{u}{a}x{b}{v}"),
                _ => format!("{a}{u}{b}"),
            }
        } else {
            gen_word(rng, g, seam)
        };
        let cfg = gen_cfg(rng, &w0, g, seam);
        let n = CharString::new(&w0, g).len();
        let ex0 = gen_excl(rng, n);
        let k = rng.range(1, 6);
        let d = derive(&cfg, &w0, &ex0, k, &mut self.cache);
        cfg_to_val(&cfg, d.steps, d.xs, d.ps)
    }

    fn exhaustive(&mut self, _tier: Tier) -> Vec<Val> {
        // all words of length <= 3 over {a,b} x all exclusion sets x all kind subsets
        // x full_delete x a few seeds, with a table that has an entry for every context
        let ctxs = ["<bow>", "a", "b", "<eow>"];
        let mut itab = vec![];
        let mut rtab = vec![];
        for (pi, p) in ctxs[..3].iter().enumerate() {
            for (ci, c) in ctxs[1..].iter().enumerate() {
                let es: Edits = match (pi + ci) % 3 {
                    0 => legacy_edits(&[("a", true)]),
                    1 => legacy_edits(&[("ba", true), ("", true)]),
                    _ => legacy_edits(&[("b", true), ("a", false)]),
                };
                itab.push((p.to_string(), c.to_string(), es));
            }
        }
        for (pi, p) in ctxs[..3].iter().enumerate() {
            for (ci, c) in ctxs[1..3].iter().enumerate() {
                for (ni, nx) in ctxs[1..].iter().enumerate() {
                    if (pi + 2 * ci + ni) % 4 == 3 {
                        continue; // some contexts have no entry
                    }
                    let es: Edits = match (pi + ci + ni) % 3 {
                        0 => legacy_edits(&[(if *c == "a" { "b" } else { "a" }, true)]),
                        1 => legacy_edits(&[("", true), ("ab", true)]),
                        _ => legacy_edits(&[("aba", true)]),
                    };
                    rtab.push((p.to_string(), c.to_string(), nx.to_string(), es));
                }
            }
        }
        let nseeds: u64 = std::env::var("C15_EXH_SEEDS").ok().and_then(|s| s.parse().ok()).unwrap_or(12);
        let mut out = vec![];
        for len in 0..=3usize {
            for wbits in 0..(1usize << len) {
                let w0: String = (0..len).map(|i| if wbits >> i & 1 == 1 { 'b' } else { 'a' }).collect();
                for exbits in 0..(1usize << len) {
                    let ex0: Vec<usize> = (0..len).filter(|i| exbits >> i & 1 == 1).collect();
                    for kbits in 0..16usize {
                        for fd in [false, true] {
                            for seed in 0..nseeds {
                                let cfg = Cfg {
                                    g: seed % 2 == 1,
                                    kinds: [kbits & 1 != 0, kbits & 2 != 0, kbits & 4 != 0, kbits & 8 != 0],
                                    fd,
                                    pm: 0,
                                    itab: itab.clone(),
                                    rtab: rtab.clone(),
                                    seed: seed * 7919 + (wbits * 64 + exbits * 8 + kbits) as u64,
                                };
                                let d = derive(&cfg, &w0, &ex0, 2, &mut self.cache);
                                out.push(cfg_to_val(&cfg, d.steps, d.xs, d.ps));
                            }
                        }
                    }
                }
            }
        }
        out
    }

    fn run(&mut self, input: &Val) -> Option<(Val, Vec<String>)> {
        if input.nth(0).and_then(|x| x.as_i()) == Some(4) {
            let e = val_e4(input)?;
            if e4_to_val(&e) != *input {
                return None;
            }
            return Some(run_e4(&e));
        }
        if matches!(input.nth(0).and_then(|x| x.as_i()), Some(2) | Some(3)) {
            let e = val_e2e(input)?;
            if e2e_to_val(&e, &mut self.cache) != *input {
                return None;
            }
            return Some(run_e2e(&e));
        }
        let (cfg, w0, ex0, k) = val_cfg(input)?;
        let d = derive(&cfg, &w0, &ex0, k, &mut self.cache);
        // the input must be the canonical one: tables as parsed, steps as derived from the real chain
        if cfg_to_val(&cfg, d.steps.clone(), d.xs.clone(), d.ps) != *input {
            return None;
        }
        Some((d.out, d.tags))
    }

    fn canon(&mut self, input: &Val) -> Option<Val> {
        if input.nth(0).and_then(|x| x.as_i()) == Some(4) {
            return Some(e4_to_val(&val_e4(input)?));
        }
        if matches!(input.nth(0).and_then(|x| x.as_i()), Some(2) | Some(3)) {
            let e = val_e2e(input)?;
            return Some(e2e_to_val(&e, &mut self.cache));
        }
        let (cfg, w0, ex0, k) = val_cfg(input)?;
        let d = derive(&cfg, &w0, &ex0, k, &mut self.cache);
        Some(cfg_to_val(&cfg, d.steps, d.xs, d.ps))
    }

    fn selfcheck(&mut self) -> Vec<String> {
        let mut errs = seam::cats_selfcheck();
        // the constant of the relative-frequency filter (C15_Tables.min_rel_freq, pinned as min_rel_freq_bits)
        if f64_val(1.0 / 10_000.0).to_sexp() != "(0 7378697629483821 -66)" {
            errs.push("min_rel_freq constant".into());
        }
        // the class tables behind can_delete / can_swap (UCD_Table.v) are what tools/gen_ucd.py translates from the
        // std library and regex-syntax sources, and of the Unicode version of the running std
        let md = env!("CARGO_MANIFEST_DIR");
        for rel in ["..", "../.."] {
            let root = std::path::Path::new(md).join(rel);
            let p = root.join("tools/gen_ucd.py");
            if p.exists() {
                match std::process::Command::new("python3").arg(&p).arg("--check").output() {
                    Ok(o) if o.status.success() => {}
                    Ok(o) => errs.push(format!(
                        "tools/gen_ucd.py --check: {} {}",
                        String::from_utf8_lossy(&o.stdout).trim(),
                        String::from_utf8_lossy(&o.stderr).trim().lines().last().unwrap_or("")
                    )),
                    Err(e) => errs.push(format!("tools/gen_ucd.py --check could not run: {e}")),
                }
                let (x, y, z) = char::UNICODE_VERSION;
                let want = format!("Definition std_unicode_version : N * N * N := ({x}, {y}, {z})%N.");
                match std::fs::read_to_string(root.join("coq/theories/UCD_Table.v")) {
                    Ok(t) if t.contains(&want) => {}
                    Ok(_) => errs.push(format!("UCD_Table.v is not of the Unicode version {x}.{y}.{z} of the running std")),
                    Err(e) => errs.push(format!("UCD_Table.v unreadable: {e}")),
                }
                break;
            }
        }
        // the context strings of the model
        if Val::str("<bow>").to_sexp() != "(60 98 111 119 62)" || Val::str("<eow>").to_sexp() != "(60 101 111 119 62)" {
            errs.push("bow/eow constants".into());
        }
        // Completeness probe: the per-case correspondence is a membership test, which an
        // implementation that loses outcomes would still pass. For the three inputs whose complete
        // outcome sets are pinned in C15_Props.v (outcomes_witness, outcomes_witness_2,
        // outcomes_witness_3: c_ex / c_fd there) the set observed over 800 seeds must be exactly
        // the model's set.
        let e = |s: &str, p: bool| (s.to_string(), if p { 1.0 } else { 0.0 });
        let c_ex = Cfg {
            g: false,
            kinds: [true; 4],
            fd: false,
            pm: 0,
            itab: vec![
                ("<bow>".into(), "a".into(), vec![e("x", true), e("", true)]),
                ("b".into(), "<eow>".into(), vec![e("yz", true), e("q", false)]),
            ],
            rtab: vec![
                ("<bow>".into(), "a".into(), "b".into(), vec![e("q", true)]),
                ("a".into(), "b".into(), "<eow>".into(), vec![e("", true)]),
            ],
            seed: 0,
        };
        let c_fd = Cfg { g: false, kinds: [false, true, false, true], fd: true, pm: 0, itab: vec![], rtab: vec![], seed: 0 };
        type Golden<'a> = (&'a str, &'a Cfg, &'a str, Vec<usize>, Vec<(&'a str, Vec<usize>)>);
        let goldens: Vec<Golden> = vec![
            ("outcomes_witness", &c_ex, "ab", vec![1], vec![("xab", vec![0, 2]), ("ab", vec![1]), ("b", vec![0]), ("qb", vec![0, 1])]),
            (
                "outcomes_witness_2",
                &c_ex,
                "ab",
                vec![],
                vec![
                    ("xab", vec![0]),
                    ("ab", vec![]),
                    ("abyz", vec![2, 3]),
                    ("b", vec![]),
                    ("a", vec![]),
                    ("qb", vec![0]),
                    ("ba", vec![0, 1]),
                ],
            ),
            ("outcomes_witness_3", &c_fd, "a", vec![], vec![("", vec![]), ("a", vec![])]),
        ];
        for (name, cfg, w, ex, expect) in goldens {
            let want: HashSet<(String, Vec<usize>)> = expect.into_iter().map(|(s, e)| (s.to_string(), e)).collect();
            let mut seen: HashSet<(String, Vec<usize>)> = HashSet::new();
            let mut broken = false;
            for seed in 0..800u64 {
                let mut c = cfg.clone();
                c.seed = seed;
                let d = derive(&c, w, &ex, 1, &mut self.cache);
                match d.out.nth(0).and_then(|o| o.nth(1)).and_then(|ch| ch.nth(0)).and_then(|st| Some((st.nth(0)?.clusters_to_string()?, st.nth(1)?.as_l()?.iter().filter_map(|x| x.as_usize()).collect::<Vec<_>>()))) {
                    Some(o) => {
                        seen.insert(o);
                    }
                    None => broken = true,
                }
            }
            if broken {
                errs.push(format!("completeness probe {name}: a call panicked"));
            } else if seen != want {
                let mut missing: Vec<_> = want.difference(&seen).cloned().collect();
                let mut extra: Vec<_> = seen.difference(&want).cloned().collect();
                missing.sort();
                extra.sort();
                errs.push(format!(
                    "completeness probe {name}: observed outcome set differs from the pinned model set; never observed {missing:?}; not in the model {extra:?}"
                ));
            }
        }
        errs
    }
}

fn main() {
    main_loop(C15 { cache: Cache::default() });
}

//! C11: text::clean / text::word_boundaries / whitespace::remove / whitespace::full
//! against the model.
//! input  = (g seg seg2)   seg  = clusters of the text (real CharString),
//!                          seg2 = clusters of the real clean(text) (oracle for idempotence)
//! output = (clean boundaries remove full (clean(clean)))
//! In grapheme mode the model also segments the text and the cleaned text itself
//! (UAX29_Model.v) and the correspondence requires both to equal seg / seg2.
//! Streams that exist for that: `uax29` (segmentation stress strings drawn from every
//! category of the crate's table) and `probe` (a fixed probe set around one code point;
//! random code points in the quick tier, ALL scalar values in `gen --exhaustive`).
use text_utils::text::{clean, word_boundaries};
use text_utils::unicode::CharString;
use text_utils::whitespace::{full, remove};
use vh::*;

#[path = "../uax29_ranges.rs"]
mod uax29_ranges;
use uax29_ranges::{GRAPHEME_CAT_TABLE, INCB_EXTEND_TABLE, INCB_LINKER};

#[derive(Default)]
struct C11 {
    /// texts produced by the segmentation-stress stream (for the tag)
    uax: std::collections::HashMap<String, &'static str>,
    /// ranges of GRAPHEME_CAT_TABLE grouped by category index
    by_cat: Vec<Vec<(u32, u32)>>,
}

// indices into uax29_ranges::CATS
const C_EXTEND: usize = 3;
const C_EXTPICT: usize = 4;
const C_CONSONANT: usize = 5;
const C_L: usize = 6;
const C_LV: usize = 8;
const C_LVT: usize = 9;
const C_PREPEND: usize = 10;
const C_SPACINGMARK: usize = 12;
const C_T: usize = 13;
const C_V: usize = 14;

fn ch(c: u32) -> char {
    // surrogates cannot occur in a &str: move to the nearest scalar value
    char::from_u32(c).unwrap_or(if c < 0xDC00 { '\u{D7FF}' } else { '\u{E000}' })
}

/// The probe strings around code point `c`, separated by U+2028 (category Control and
/// White_Space: GB4/GB5 break on both sides whatever `c` is, so the probes do not interact).
/// Together they distinguish every (grapheme category, InCB class) from every other:
///  L c T, V c V          Hangul L / V / T / LV / LVT, Prepend
///  CR c LF               CR, LF
///  E c ZWJ E, E c E      Extend / ZWJ / SpacingMark / Extended_Pictographic / Control (E = U+1F600)
///  RI c RI               Regional_Indicator
///  K c K, K virama c K   InCB Consonant / Linker / Extend (K = U+0915)
///  SPACE c, c c          what joins a preceding U+0020 (KF1); self-joining categories
fn probe_text(c: u32) -> String {
    let c = ch(c);
    let mut s = String::new();
    let sep = '\u{2028}';
    for (pre, post) in [
        ("\u{1100}", "\u{11A8}"),
        ("\u{1161}", "\u{1161}"),
        ("\r", "\n"),
        ("\u{1F600}", "\u{200D}\u{1F600}"),
        ("\u{1F600}", "\u{1F600}"),
        ("\u{1F1E6}", "\u{1F1E6}"),
        ("\u{915}", "\u{915}"),
        ("\u{915}\u{94D}", "\u{915}"),
        (" ", ""),
    ] {
        s.push_str(pre);
        s.push(c);
        s.push_str(post);
        s.push(sep);
    }
    s.push(c);
    s.push(c);
    s
}

const N_SCALARS: u32 = 0x110000 - 0x800;
/// k-th scalar value (surrogates skipped)
fn scalar(k: u32) -> u32 {
    if k < 0xD800 {
        k
    } else {
        k + 0x800
    }
}

impl C11 {
    fn cats(&mut self) -> &Vec<Vec<(u32, u32)>> {
        if self.by_cat.is_empty() {
            self.by_cat = vec![vec![]; uax29_ranges::CATS.len()];
            for &(lo, hi, k) in GRAPHEME_CAT_TABLE {
                self.by_cat[k as usize].push((lo, hi));
            }
        }
        &self.by_cat
    }

    /// a random code point of category index `k` (random range, random position, ends preferred)
    fn of_cat(&mut self, rng: &mut Rng, k: usize) -> char {
        let rs = &self.cats()[k];
        if rs.is_empty() {
            return 'a';
        }
        let (lo, hi) = *rng.pick(rs);
        ch(in_range(rng, lo, hi))
    }

    /// one unit of a segmentation-stress string
    fn uax_unit(&mut self, rng: &mut Rng, out: &mut String) {
        match rng.below(24) {
            // a code point of a random category of the table
            0..=4 => {
                let k = 1 + rng.below(uax29_ranges::CATS.len() - 1);
                out.push(self.of_cat(rng, k));
            }
            // a code point next to a table range (mostly Any), or anywhere (unassigned planes too)
            5 => {
                let &(lo, hi, _) = rng.pick(GRAPHEME_CAT_TABLE);
                out.push(ch(if rng.chance(1, 2) { lo.saturating_sub(1) } else { hi + 1 }));
            }
            6 => out.push(ch(scalar(rng.below(N_SCALARS as usize) as u32))),
            7 => out.push(*rng.pick(&['a', 'z', ' ', '~', '\u{7f}', '\u{80}', '\u{a0}', '\u{d7ff}', '\u{e000}', '\u{fffd}', '\u{ffff}', '\u{10000}', '\u{10ffff}', '\u{200b}', '\u{200c}'])),
            // U+200D sequences
            8 => {
                for _ in 0..rng.range(1, 2) {
                    out.push('\u{200d}');
                }
            }
            // regional indicator runs of every parity
            9 | 10 => {
                for _ in 0..rng.range(1, 5) {
                    out.push(ch(0x1F1E6 + rng.below(26) as u32));
                }
            }
            // Hangul L / V / T / LV / LVT combinations
            11 | 12 => {
                for _ in 0..rng.range(1, 4) {
                    let k = *rng.pick(&[C_L, C_V, C_T, C_LV, C_LVT]);
                    out.push(self.of_cat(rng, k));
                }
            }
            // Indic: consonant {extend | ZWJ | linker}* consonant
            13 | 14 => {
                out.push(self.of_cat(rng, C_CONSONANT));
                for _ in 0..rng.below(4) {
                    match rng.below(6) {
                        0 | 1 => out.push(ch(*rng.pick(INCB_LINKER))),
                        2 => out.push('\u{200d}'),
                        3 => {
                            let &(lo, hi) = rng.pick(INCB_EXTEND_TABLE);
                            out.push(ch(in_range(rng, lo, hi)));
                        }
                        4 => out.push(self.of_cat(rng, C_EXTEND)),
                        _ => out.push('\u{200c}'),
                    }
                }
                if rng.chance(3, 4) {
                    out.push(self.of_cat(rng, C_CONSONANT));
                }
            }
            // Prepend chains
            15 => {
                for _ in 0..rng.range(1, 3) {
                    out.push(self.of_cat(rng, C_PREPEND));
                }
            }
            // emoji (+ skin tone / extend) (+ ZWJ + emoji)*
            16 | 17 => {
                out.push(self.of_cat(rng, C_EXTPICT));
                for _ in 0..rng.below(3) {
                    if rng.chance(1, 2) {
                        out.push(ch(0x1F3FB + rng.below(5) as u32));
                    }
                    if rng.chance(1, 4) {
                        out.push(self.of_cat(rng, C_EXTEND));
                    }
                    if rng.chance(3, 4) {
                        out.push('\u{200d}');
                    }
                    if rng.chance(3, 4) {
                        out.push(self.of_cat(rng, C_EXTPICT));
                    }
                }
            }
            // CR / LF / CRLF mixes
            18 | 19 => {
                for _ in 0..rng.range(1, 3) {
                    out.push(if rng.chance(1, 2) { '\r' } else { '\n' });
                }
            }
            // whitespace + combining marks
            20 | 21 => {
                out.push_str(*rng.pick(units::WS));
                for _ in 0..rng.below(3) {
                    let k = *rng.pick(&[C_EXTEND, C_SPACINGMARK, C_EXTEND]);
                    out.push(self.of_cat(rng, k));
                }
            }
            _ => out.push_str(*rng.pick(units::ASCII)),
        }
    }

    fn uax_stress(&mut self, rng: &mut Rng) -> String {
        let mut s = String::new();
        for _ in 0..rng.range(1, 7) {
            self.uax_unit(rng, &mut s);
        }
        s
    }
}

fn in_range(rng: &mut Rng, lo: u32, hi: u32) -> u32 {
    match rng.below(4) {
        0 => lo,
        1 => hi,
        _ => lo + rng.below((hi - lo + 1) as usize) as u32,
    }
}

/// units that build clusters mixing whitespace and non-whitespace in grapheme mode
/// (Prepend + space, space + Extend, space + ZWJ) or join across a space
const MIXERS: &[&str] = &["\u{600}", "\u{301}", "\u{200d}", "\u{308}", "\u{94d}", "\u{110bd}"];

fn is_mixed(c: &str) -> bool {
    let ws = c.chars().filter(|c| c.is_whitespace()).count();
    ws > 0 && ws < c.chars().count()
}

fn has_mixed_cluster(s: &str, g: bool) -> bool {
    CharString::split(s, g).any(is_mixed)
}

fn ws_run(rng: &mut Rng) -> String {
    // mostly one separator, sometimes a run; every White_Space code point and CRLF occur
    let n = match rng.below(10) {
        0..=5 => 1,
        6..=8 => 2,
        _ => 3,
    };
    (0..n).map(|_| *rng.pick(units::WS)).collect()
}

fn word(rng: &mut Rng, g: bool, mixers: bool) -> String {
    let n = rng.range(1, 3);
    let mut w = String::new();
    for _ in 0..n {
        let k = rng.below(12);
        let u = if mixers && k < 3 {
            *rng.pick(MIXERS)
        } else if g && k < 4 {
            *rng.pick(units::SEAM)
        } else if k < 7 {
            *rng.pick(units::ASCII)
        } else if k < 9 {
            *rng.pick(units::MULTI)
        } else if k < 10 {
            *rng.pick(units::COMBINING)
        } else {
            *rng.pick(units::ZW)
        };
        if u.chars().all(|c| c.is_whitespace()) {
            continue;
        }
        w.push_str(u);
    }
    if w.is_empty() {
        w.push('a');
    }
    w
}

fn structured(rng: &mut Rng, g: bool, mixers: bool) -> String {
    let nw = rng.below(5);
    let mut s = String::new();
    if rng.chance(1, 3) {
        s.push_str(&ws_run(rng));
    }
    for i in 0..nw {
        if i > 0 {
            s.push_str(&ws_run(rng));
        }
        s.push_str(&word(rng, g, mixers));
    }
    if rng.chance(1, 3) {
        s.push_str(&ws_run(rng));
    }
    s
}

fn soup(rng: &mut Rng, g: bool) -> String {
    let n = rng.below(10);
    let mut s = String::new();
    for _ in 0..n {
        let k = rng.below(10);
        let u = if k < 4 {
            *rng.pick(units::WS)
        } else if k < 5 {
            *rng.pick(MIXERS)
        } else if g && k < 6 {
            *rng.pick(units::SEAM)
        } else if k < 8 {
            *rng.pick(units::ASCII)
        } else if k < 9 {
            *rng.pick(units::MULTI)
        } else {
            *rng.pick(units::ZW)
        };
        s.push_str(u);
    }
    s
}

fn edge(rng: &mut Rng) -> String {
    match rng.below(8) {
        0 => String::new(),
        1 => (*rng.pick(units::WS)).to_string(),
        2 => (0..rng.range(1, 4)).map(|_| *rng.pick(units::WS)).collect(),
        3 => (*rng.pick(units::ASCII)).to_string(),
        4 => format!("{}{}", rng.pick(units::WS), rng.pick(units::ASCII)),
        5 => format!("{}{}", rng.pick(units::ASCII), rng.pick(units::WS)),
        6 => format!("{}{}{}", rng.pick(units::ASCII), rng.pick(units::WS), rng.pick(MIXERS)),
        _ => format!("{}{}{}", rng.pick(MIXERS), rng.pick(units::WS), rng.pick(units::ASCII)),
    }
}

fn mk_input(s: &str, g: bool) -> Val {
    let c = clean(s, g);
    Val::L(vec![Val::b(g), Val::clusters(s, g), Val::clusters(&c, g)])
}

const EXH: &[&str] = &["a", " ", "\r", "\n", "\u{301}", "\u{600}", "\u{3000}"];

impl Prop for C11 {
    fn gen(&mut self, rng: &mut Rng, tier: Tier, _i: usize, _n: usize) -> Val {
        // segmentation streams (grapheme mode only). Quick: 48% probes around a random scalar
        // value (n_quick * 0.48 = 1/64 of all scalar values), 17% stress strings; thorough:
        // no random probes (all scalar values are enumerated by `--exhaustive`), 33% stress.
        let pick = rng.below(100);
        let (n_probe, n_stress) = if tier == Tier::Quick { (48, 65) } else { (0, 33) };
        if pick < n_probe {
            let s = probe_text(scalar(rng.below(N_SCALARS as usize) as u32));
            return mk_input(&s, true);
        }
        if pick < n_stress {
            let s = self.uax_stress(rng);
            self.uax.insert(s.clone(), "uax29");
            return mk_input(&s, true);
        }
        let g = rng.chance(1, 2);
        let stream = rng.below(100);
        let s = if stream < 60 {
            structured(rng, g, false)
        } else if stream < 72 {
            structured(rng, g, true)
        } else if stream < 88 {
            soup(rng, g)
        } else {
            edge(rng)
        };
        mk_input(&s, g)
    }

    fn exhaustive(&mut self, _tier: Tier) -> Vec<Val> {
        // all strings of up to 5 units over a 7-unit alphabet, both modes
        let mut out = vec![];
        let mut level: Vec<String> = vec![String::new()];
        for len in 0..=5 {
            for s in &level {
                out.push(mk_input(s, false));
                out.push(mk_input(s, true));
            }
            if len < 5 {
                level = level
                    .iter()
                    .flat_map(|s| EXH.iter().map(move |u| format!("{s}{u}")))
                    .collect();
            }
        }
        out
    }

    /// the small scope above (shard k of m) plus, for EVERY scalar value c = k mod m,
    /// the probe strings around c
    fn exhaustive_shard(&mut self, tier: Tier, k: usize, m: usize) -> Option<Vec<Val>> {
        let mut out: Vec<Val> =
            self.exhaustive(tier).into_iter().enumerate().filter(|(i, _)| i % m == k).map(|(_, v)| v).collect();
        let mut i = k as u32;
        while i < N_SCALARS {
            let s = probe_text(scalar(i));
            out.push(mk_input(&s, true));
            i += m as u32;
        }
        Some(out)
    }

    fn run(&mut self, input: &Val) -> Option<(Val, Vec<String>)> {
        let l = input.as_l()?;
        if l.len() != 3 {
            return None;
        }
        let g = l[0].as_bool()?;
        let s = l[1].clusters_to_string()?;
        // the cluster lists must be what the real segmenter produces
        if Val::clusters(&s, g) != l[1] {
            return None;
        }
        let s2 = s.clone();
        let cleaned = std::panic::catch_unwind(move || clean(&s2, g)).ok();
        if let Some(c) = &cleaned {
            if Val::clusters(c, g) != l[2] {
                return None;
            }
        }
        let s2 = s.clone();
        let out = guard(move || {
            let c = clean(&s2, g);
            let wb = word_boundaries(&s2, g);
            let rm = remove(&s2, g);
            let fl = full(&s2, g);
            let cc = clean(&c, g);
            Val::L(vec![
                Val::str(&c),
                Val::list(wb.iter(), |(a, b)| Val::L(vec![Val::u(*a), Val::u(*b)])),
                Val::str(&rm),
                Val::str(&fl),
                Val::some(Val::str(&cc)),
            ])
        });
        let mut tags = vec![];
        tags.push(if g { "g".to_string() } else { "cp".to_string() });
        if let Some(t) = self.uax.get(&s) {
            tags.push((*t).to_string());
        }
        if let Some(c) = s.chars().last() {
            // the probe strings around c (random, exhaustive or corpus/C11/uax29_boundaries.case)
            if g && s.len() > 40 && probe_text(c as u32) == s {
                tags.push("probe".into());
            }
        }
        if g && l[1].as_l().map_or(false, |cl| cl.iter().any(|c| c.as_l().map_or(false, |c| c.len() > 1))) {
            // some cluster has more than one code point
            tags.push("multi".into());
        }
        let mixed = has_mixed_cluster(&s, g);
        if mixed {
            tags.push("mixed".into());
        }
        if let Some(c) = &cleaned {
            // seam effect: the text has no mixed cluster but its cleaned form has one,
            // because the U+0020 that replaced a separator joins with a neighbour
            if !mixed && has_mixed_cluster(c, g) {
                tags.push("class:KF1".into());
            }
            let nwords = s.split_whitespace().count();
            if !mixed && nwords >= 2 && *c != s {
                tags.push("nt".into());
            }
        }
        Some((out, tags))
    }

    fn canon(&mut self, input: &Val) -> Option<Val> {
        let l = input.as_l()?;
        if l.len() != 3 {
            return None;
        }
        let g = l[0].as_bool()?;
        let s = l[1].clusters_to_string()?;
        Some(mk_input(&s, g))
    }

    fn selfcheck(&mut self) -> Vec<String> {
        let mut errs = ws_table_selfcheck();
        // str::trim (used per cluster by clean) must use the same table
        for c in 0..=0x10FFFFu32 {
            if let Some(ch) = char::from_u32(c) {
                let s = format!("{ch}x{ch}");
                let trimmed = s.trim() == "x";
                if trimmed != WS_TABLE.contains(&c) {
                    errs.push(format!("str::trim differs from the White_Space table at U+{c:04X}"));
                }
            }
        }
        // the probe separator must be whitespace for the crate (so that the probes are words)
        if !'\u{2028}'.is_whitespace() {
            errs.push("U+2028 is not whitespace".into());
        }
        // the Gallina / Rust tables must be the translation of the locked crate's tables.rs
        let md = env!("CARGO_MANIFEST_DIR");
        for rel in ["../tools/gen_uax29.py", "../../tools/gen_uax29.py"] {
            let p = std::path::Path::new(md).join(rel);
            if p.exists() {
                match std::process::Command::new("python3").arg(&p).arg("--check").output() {
                    Ok(o) if o.status.success() => {}
                    Ok(o) => errs.push(format!(
                        "tools/gen_uax29.py --check: {}",
                        String::from_utf8_lossy(&o.stdout).trim()
                    )),
                    Err(e) => errs.push(format!("tools/gen_uax29.py --check could not run: {e}")),
                }
                break;
            }
        }
        errs
    }
}

fn main() {
    main_loop(C11::default());
}

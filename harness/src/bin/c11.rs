//! C11: text::clean / text::word_boundaries / whitespace::remove / whitespace::full
//! against the model.
//! input  = (g seg seg2)   seg  = clusters of the text (real CharString),
//!                          seg2 = clusters of the real clean(text) (oracle for idempotence)
//! output = (clean boundaries remove full (clean(clean)))
use text_utils::text::{clean, word_boundaries};
use text_utils::unicode::CharString;
use text_utils::whitespace::{full, remove};
use vh::*;

struct C11;

/// units that build clusters mixing whitespace and non-whitespace in grapheme mode
/// (Prepend + space, space + Extend, space + ZWJ) or join across a space
const MIXERS: &[&str] = &["\u{600}", "\u{301}", "\u{200d}", "\u{308}", "\u{94d}", "\u{110bd}"];

fn is_mixed(c: &str) -> bool {
    let ws = c.chars().filter(|c| c.is_whitespace()).count();
    ws > 0 && ws < c.chars().count()
}

fn has_mixed_cluster(s: &str, g: bool) -> bool {
    CharString::split(s, g).any(is_mixed)
}

fn ws_run(rng: &mut Rng) -> String {
    // mostly one separator, sometimes a run; every White_Space code point and CRLF occur
    let n = match rng.below(10) {
        0..=5 => 1,
        6..=8 => 2,
        _ => 3,
    };
    (0..n).map(|_| *rng.pick(units::WS)).collect()
}

fn word(rng: &mut Rng, g: bool, mixers: bool) -> String {
    let n = rng.range(1, 3);
    let mut w = String::new();
    for _ in 0..n {
        let k = rng.below(12);
        let u = if mixers && k < 3 {
            *rng.pick(MIXERS)
        } else if g && k < 4 {
            *rng.pick(units::SEAM)
        } else if k < 7 {
            *rng.pick(units::ASCII)
        } else if k < 9 {
            *rng.pick(units::MULTI)
        } else if k < 10 {
            *rng.pick(units::COMBINING)
        } else {
            *rng.pick(units::ZW)
        };
        if u.chars().all(|c| c.is_whitespace()) {
            continue;
        }
        w.push_str(u);
    }
    if w.is_empty() {
        w.push('a');
    }
    w
}

fn structured(rng: &mut Rng, g: bool, mixers: bool) -> String {
    let nw = rng.below(5);
    let mut s = String::new();
    if rng.chance(1, 3) {
        s.push_str(&ws_run(rng));
    }
    for i in 0..nw {
        if i > 0 {
            s.push_str(&ws_run(rng));
        }
        s.push_str(&word(rng, g, mixers));
    }
    if rng.chance(1, 3) {
        s.push_str(&ws_run(rng));
    }
    s
}

fn soup(rng: &mut Rng, g: bool) -> String {
    let n = rng.below(10);
    let mut s = String::new();
    for _ in 0..n {
        let k = rng.below(10);
        let u = if k < 4 {
            *rng.pick(units::WS)
        } else if k < 5 {
            *rng.pick(MIXERS)
        } else if g && k < 6 {
            *rng.pick(units::SEAM)
        } else if k < 8 {
            *rng.pick(units::ASCII)
        } else if k < 9 {
            *rng.pick(units::MULTI)
        } else {
            *rng.pick(units::ZW)
        };
        s.push_str(u);
    }
    s
}

fn edge(rng: &mut Rng) -> String {
    match rng.below(8) {
        0 => String::new(),
        1 => (*rng.pick(units::WS)).to_string(),
        2 => (0..rng.range(1, 4)).map(|_| *rng.pick(units::WS)).collect(),
        3 => (*rng.pick(units::ASCII)).to_string(),
        4 => format!("{}{}", rng.pick(units::WS), rng.pick(units::ASCII)),
        5 => format!("{}{}", rng.pick(units::ASCII), rng.pick(units::WS)),
        6 => format!("{}{}{}", rng.pick(units::ASCII), rng.pick(units::WS), rng.pick(MIXERS)),
        _ => format!("{}{}{}", rng.pick(MIXERS), rng.pick(units::WS), rng.pick(units::ASCII)),
    }
}

fn mk_input(s: &str, g: bool) -> Val {
    let c = clean(s, g);
    Val::L(vec![Val::b(g), Val::clusters(s, g), Val::clusters(&c, g)])
}

const EXH: &[&str] = &["a", " ", "\r", "\n", "\u{301}", "\u{600}", "\u{3000}"];

impl Prop for C11 {
    fn gen(&mut self, rng: &mut Rng, _tier: Tier, _i: usize, _n: usize) -> Val {
        let g = rng.chance(1, 2);
        let stream = rng.below(100);
        let s = if stream < 60 {
            structured(rng, g, false)
        } else if stream < 72 {
            structured(rng, g, true)
        } else if stream < 88 {
            soup(rng, g)
        } else {
            edge(rng)
        };
        mk_input(&s, g)
    }

    fn exhaustive(&mut self, _tier: Tier) -> Vec<Val> {
        // all strings of up to 5 units over a 7-unit alphabet, both modes
        let mut out = vec![];
        let mut level: Vec<String> = vec![String::new()];
        for len in 0..=5 {
            for s in &level {
                out.push(mk_input(s, false));
                out.push(mk_input(s, true));
            }
            if len < 5 {
                level = level
                    .iter()
                    .flat_map(|s| EXH.iter().map(move |u| format!("{s}{u}")))
                    .collect();
            }
        }
        out
    }

    fn run(&mut self, input: &Val) -> Option<(Val, Vec<String>)> {
        let l = input.as_l()?;
        if l.len() != 3 {
            return None;
        }
        let g = l[0].as_bool()?;
        let s = l[1].clusters_to_string()?;
        // the cluster lists must be what the real segmenter produces
        if Val::clusters(&s, g) != l[1] {
            return None;
        }
        let s2 = s.clone();
        let cleaned = std::panic::catch_unwind(move || clean(&s2, g)).ok();
        if let Some(c) = &cleaned {
            if Val::clusters(c, g) != l[2] {
                return None;
            }
        }
        let s2 = s.clone();
        let out = guard(move || {
            let c = clean(&s2, g);
            let wb = word_boundaries(&s2, g);
            let rm = remove(&s2, g);
            let fl = full(&s2, g);
            let cc = clean(&c, g);
            Val::L(vec![
                Val::str(&c),
                Val::list(wb.iter(), |(a, b)| Val::L(vec![Val::u(*a), Val::u(*b)])),
                Val::str(&rm),
                Val::str(&fl),
                Val::some(Val::str(&cc)),
            ])
        });
        let mut tags = vec![];
        tags.push(if g { "g".to_string() } else { "cp".to_string() });
        let mixed = has_mixed_cluster(&s, g);
        if mixed {
            tags.push("mixed".into());
        }
        if let Some(c) = &cleaned {
            // seam effect: the text has no mixed cluster but its cleaned form has one,
            // because the U+0020 that replaced a separator joins with a neighbour
            if !mixed && has_mixed_cluster(c, g) {
                tags.push("class:KF1".into());
            }
            let nwords = s.split_whitespace().count();
            if !mixed && nwords >= 2 && *c != s {
                tags.push("nt".into());
            }
        }
        Some((out, tags))
    }

    fn canon(&mut self, input: &Val) -> Option<Val> {
        let l = input.as_l()?;
        if l.len() != 3 {
            return None;
        }
        let g = l[0].as_bool()?;
        let s = l[1].clusters_to_string()?;
        Some(mk_input(&s, g))
    }

    fn selfcheck(&mut self) -> Vec<String> {
        let mut errs = ws_table_selfcheck();
        // str::trim (used per cluster by clean) must use the same table
        for c in 0..=0x10FFFFu32 {
            if let Some(ch) = char::from_u32(c) {
                let s = format!("{ch}x{ch}");
                let trimmed = s.trim() == "x";
                if trimmed != WS_TABLE.contains(&c) {
                    errs.push(format!("str::trim differs from the White_Space table at U+{c:04X}"));
                }
            }
        }
        errs
    }
}

fn main() {
    main_loop(C11);
}

//! C08: the real TrainLoader (through the cfg(feature = "verif") driver) against the index-algebra model.
//! One case is a scenario: files + loader configuration; the harness performs several loader runs
//! (this rank / all ranks / single process / resumed / limit-skip split / other thread+buffer
//! settings) and reports the delivered items as global indices.
//! input  = (N oks res lim skip ff rank W k ordered SPEC)
//! SPEC   = (files strategy seed epoch threads buffer threads2 buffer2 sort shuffle prefetch batch_limit limit_type pipeline)
//! files  = list of files, each a list of line kinds (0 plain, 1 malformed json, 2 no "input" key, 3 json-encoded input)
//! output = (A C D E F G H min_items (same_for_other_threads fingerprints_ok))
use std::collections::hash_map::DefaultHasher;
use std::collections::HashMap;
use std::hash::{Hash, Hasher};
use text_utils::data::loading::{
    train_data_generator_from_jsonl, BatchLimitType, GenerationStrategy, MultiTrainDataGenerator,
};
use text_utils::data::postprocessing::PostprocessingFnConfig;
use text_utils::data::preprocessing::{Part, PreprocessingFnConfig, SpellingCorruptionMode};
use text_utils::data::task::TrainTaskConfig;
use text_utils::data::verif_hooks::{train_loader_batches, TrainLoaderArgs};
use text_utils::data::{
    train_pipeline, PostprocessingConfig, PreprocessingConfig, TextDataInfo, TrainItem, TrainPipelineConfig,
};
use text_utils::tokenization::{
    ByteGroups, ByteTokenizerConfig, GroupAggregation, SpecialConfig, TokenizeConfig, TokenizerConfig,
};
use vh::*;

/// stands for "not an item of the input" / "no value": far above every real index (inputs have at most a few
/// dozen items) yet small enough that a model counting in unary answers at once
const UNKNOWN_ITEM: usize = 100_003;

struct C08 {
    dir: std::path::PathBuf,
}

#[derive(Clone)]
struct Spec {
    files: Vec<Vec<i64>>,
    strategy: i64,
    seed: u64,
    epoch: usize,
    threads: u8,
    buffer: usize,
    threads2: u8,
    buffer2: usize,
    sort: bool,
    shuffle: bool,
    prefetch: usize,
    batch_limit: usize,
    limit_type: i64,
    pipeline: i64,
}

impl Spec {
    fn to_val(&self) -> Val {
        Val::L(vec![
            Val::L(self.files.iter().map(|f| Val::L(f.iter().map(|k| Val::I(*k)).collect())).collect()),
            Val::I(self.strategy),
            Val::I(self.seed as i64),
            Val::u(self.epoch),
            Val::u(self.threads as usize),
            Val::u(self.buffer),
            Val::u(self.threads2 as usize),
            Val::u(self.buffer2),
            Val::b(self.sort),
            Val::b(self.shuffle),
            Val::u(self.prefetch),
            Val::u(self.batch_limit),
            Val::I(self.limit_type),
            Val::I(self.pipeline),
        ])
    }
    fn from_val(v: &Val) -> Option<Spec> {
        let l = v.as_l()?;
        if l.len() != 14 {
            return None;
        }
        let files: Vec<Vec<i64>> = l[0]
            .as_l()?
            .iter()
            .map(|f| f.as_l().and_then(|x| x.iter().map(|k| k.as_i()).collect::<Option<Vec<i64>>>()))
            .collect::<Option<_>>()?;
        if files.is_empty() || files.len() > 4 || files.iter().any(|f| f.len() > 40) {
            return None;
        }
        let s = Spec {
            files,
            strategy: l[1].as_i()?,
            seed: u64::try_from(l[2].as_i()?).ok()?,
            epoch: l[3].as_usize()?,
            threads: u8::try_from(l[4].as_usize()?).ok()?,
            buffer: l[5].as_usize()?,
            threads2: u8::try_from(l[6].as_usize()?).ok()?,
            buffer2: l[7].as_usize()?,
            sort: l[8].as_bool()?,
            shuffle: l[9].as_bool()?,
            prefetch: l[10].as_usize()?,
            batch_limit: l[11].as_usize()?,
            limit_type: l[12].as_i()?,
            pipeline: l[13].as_i()?,
        };
        if s.threads > 6 || s.threads2 > 6 || s.buffer > 16 || s.buffer2 > 16 || s.epoch > 1000 || s.seed > 1 << 40 {
            return None;
        }
        if !(0..3).contains(&s.strategy) || !(0..4).contains(&s.pipeline) {
            return None;
        }
        // weighted needs non-empty sources (constructor error otherwise)
        if s.strategy == 2 && s.files.iter().any(|f| f.is_empty()) {
            return None;
        }
        Some(s)
    }
}

fn target_of(file: usize, line: usize) -> String {
    format!("id{} the qu ick brown fox {} jumps", file * 1000 + line, (file * 7 + line * 13) % 97)
}

fn line_json(file: usize, line: usize, kind: i64) -> String {
    let target = target_of(file, line);
    match kind {
        1 => format!("{{\"input\": \"broken {file} {line}"),
        2 => format!("{{\"target\": {}}}", serde_json::to_string(&target).unwrap()),
        3 => {
            // the input text is itself a json string literal (valid for JsonDecode)
            let inner = serde_json::to_string(&target).unwrap();
            format!(
                "{{\"input\": {}, \"target\": {}}}",
                serde_json::to_string(&inner).unwrap(),
                serde_json::to_string(&target).unwrap()
            )
        }
        _ => format!(
            "{{\"input\": {}, \"target\": {}}}",
            serde_json::to_string(&target).unwrap(),
            serde_json::to_string(&target).unwrap()
        ),
    }
}

fn tok_cfg() -> TokenizerConfig {
    TokenizerConfig {
        tokenize: TokenizeConfig::Byte(ByteTokenizerConfig {
            use_graphemes: false,
            pad_to_multiple_of: None,
            groups: ByteGroups::Bytes,
            aggregation: GroupAggregation::Mean,
        }),
        special: SpecialConfig::default(),
    }
}

fn pipeline_cfg(kind: i64) -> TrainPipelineConfig {
    let ws = PreprocessingFnConfig::WhitespaceCorruption(Part::Input, 0.3, 0.4, false);
    let pre = match kind {
        0 => PreprocessingFnConfig::None,
        1 => ws,
        2 => PreprocessingFnConfig::Chain(vec![PreprocessingFnConfig::JsonDecode(Part::Input), ws]),
        _ => PreprocessingFnConfig::Switch(
            vec![
                ws,
                PreprocessingFnConfig::NoWhitespaces(Part::Input, false),
                PreprocessingFnConfig::SpellingCorruption(
                    Part::Input,
                    0.5,
                    true,
                    SpellingCorruptionMode::Artificial(0.3, 2.0, None),
                ),
                PreprocessingFnConfig::None,
            ],
            vec![0.3, 0.2, 0.3, 0.2],
        ),
    };
    let task = if kind == 3 {
        TrainTaskConfig::Generation(false, tok_cfg(), false, Some(" >> ".to_string()))
    } else {
        TrainTaskConfig::WhitespaceCorrection(false, tok_cfg())
    };
    TrainPipelineConfig {
        preprocessing: PreprocessingConfig::Global(pre),
        task,
        postprocessing: PostprocessingConfig::Global(PostprocessingFnConfig::None),
    }
}

fn fingerprint(item: &TrainItem) -> u64 {
    let mut h = DefaultHasher::new();
    format!("{:?}", item).hash(&mut h);
    h.finish()
}

fn reset_panic_hook() {
    let _ = std::panic::take_hook();
    std::panic::set_hook(Box::new(|_| {}));
}

struct World {
    paths: Vec<String>,
    /// per global index: (line parsed, pipeline ok, fingerprint)
    table: Vec<(bool, bool, u64)>,
    /// target text -> global index
    index: HashMap<String, usize>,
}

impl C08 {
    fn build_world(&self, s: &Spec) -> Option<World> {
        std::fs::create_dir_all(&self.dir).ok()?;
        let mut paths = vec![];
        for (fi, f) in s.files.iter().enumerate() {
            let p = self.dir.join(format!("f{fi}.jsonl"));
            let mut text = String::new();
            for (li, k) in f.iter().enumerate() {
                text.push_str(&line_json(fi, li, *k));
                text.push('\n');
            }
            std::fs::write(&p, text).ok()?;
            paths.push(p.to_string_lossy().to_string());
        }
        let strategy = strategy_of(s.strategy);
        let seed = s.seed + s.epoch as u64;
        let gens = paths.iter().map(train_data_generator_from_jsonl).collect::<anyhow::Result<Vec<_>>>().ok()?;
        let gen = MultiTrainDataGenerator::new(gens, strategy, Some(seed)).ok()?;
        let (pipe, _) = train_pipeline(pipeline_cfg(s.pipeline), 512).ok()?;
        let mut table = vec![];
        let mut index = HashMap::new();
        for (i, (data, file_idx)) in gen.enumerate() {
            match data {
                Err(_) => table.push((false, false, 0)),
                Ok(d) => {
                    index.insert(d.verif_target().to_string(), i);
                    let info = TextDataInfo { file_idx, seed: seed + i as u64, ..Default::default() };
                    match pipe((d, info)) {
                        Ok(item) => table.push((true, true, fingerprint(&item))),
                        Err(_) => table.push((true, false, 0)),
                    }
                }
            }
        }
        Some(World { paths, table, index })
    }
}

fn strategy_of(s: i64) -> GenerationStrategy {
    match s {
        0 => GenerationStrategy::Sequential,
        1 => GenerationStrategy::Interleaved,
        _ => GenerationStrategy::Weighted,
    }
}

struct RunOut {
    ids: Vec<usize>,
    /// batches as (fingerprints, tensor views)
    shape: Vec<(Vec<u64>, String)>,
    min_items: Option<usize>,
    fp_ok: bool,
}

#[allow(clippy::too_many_arguments)]
fn loader_run(
    w: &World,
    s: &Spec,
    threads: u8,
    buffer: usize,
    skip: usize,
    limit: Option<usize>,
    dist: Option<(usize, usize)>,
    ff: usize,
) -> Option<RunOut> {
    let args = TrainLoaderArgs {
        files: w.paths.clone(),
        pipeline: pipeline_cfg(s.pipeline),
        strategy: strategy_of(s.strategy),
        num_threads: threads,
        buffer_size: buffer,
        batch_limit: s.batch_limit,
        batch_limit_type: if s.limit_type == 0 { BatchLimitType::BatchSize } else { BatchLimitType::PaddedItemSize },
        max_length: 512,
        shuffle: s.shuffle,
        prefetch_factor: s.prefetch,
        sort: s.sort,
        seed: Some(s.seed),
        skip,
        limit,
        distributed: dist,
        epoch: s.epoch,
        fast_forward: ff,
    };
    let r = train_loader_batches(args, None);
    reset_panic_hook();
    let (min_items, batches) = r.ok()?;
    let mut out = RunOut { ids: vec![], shape: vec![], min_items, fp_ok: true };
    for (items, tensors) in batches {
        let mut fps = vec![];
        for it in &items {
            let fp = fingerprint(it);
            fps.push(fp);
            match w.index.get(it.data.verif_target()) {
                Some(i) => {
                    out.ids.push(*i);
                    if w.table[*i].2 != fp {
                        out.fp_ok = false;
                    }
                }
                None => {
                    out.ids.push(UNKNOWN_ITEM);
                    out.fp_ok = false;
                }
            }
        }
        out.shape.push((fps, format!("{:?}", tensors)));
    }
    Some(out)
}

fn ids_val(ids: &[usize]) -> Val {
    Val::L(ids.iter().map(|i| Val::u(*i)).collect())
}

impl Prop for C08 {
    fn gen(&mut self, rng: &mut Rng, _tier: Tier, _i: usize, _n: usize) -> Val {
        let nfiles = rng.range(1, 3);
        let strategy = rng.below(3) as i64;
        let pipeline = rng.below(4) as i64;
        let files: Vec<Vec<i64>> = (0..nfiles)
            .map(|_| {
                let n = if strategy == 2 { rng.range(1, 12) } else { rng.range(0, 12) };
                (0..n)
                    .map(|_| {
                        let k = rng.below(20);
                        if k == 0 {
                            1
                        } else if k == 1 {
                            2
                        } else if pipeline == 2 && k < 14 {
                            3
                        } else {
                            0
                        }
                    })
                    .collect()
            })
            .collect();
        let total: usize = files.iter().map(|f| f.len()).sum();
        let shuffle = rng.chance(1, 3);
        let sort = rng.chance(1, 4);
        let world = rng.range(1, 4);
        let spec = Spec {
            files,
            strategy,
            seed: rng.below(1000) as u64,
            epoch: rng.below(3),
            threads: rng.below(5) as u8,
            buffer: rng.below(5),
            threads2: rng.below(5) as u8,
            buffer2: rng.below(5),
            sort,
            shuffle,
            prefetch: rng.below(4),
            batch_limit: if rng.chance(1, 2) { rng.range(0, 6) } else { rng.range(20, 400) },
            limit_type: rng.below(2) as i64,
            pipeline,
        };
        let lim: i64 = if rng.chance(1, 3) { -1 } else { rng.range(0, total + 2) as i64 };
        let skip = if rng.chance(1, 2) { 0 } else { rng.range(0, total / 2 + 1) };
        let ff = if rng.chance(1, 3) { 0 } else { rng.range(0, total / 2 + 1) };
        let rank = rng.below(world);
        let k = rng.range(0, total + 1);
        let pre = Val::L(vec![
            Val::u(0),
            Val::L(vec![]),
            Val::L(vec![]),
            Val::I(lim),
            Val::u(skip),
            Val::u(ff),
            Val::u(rank),
            Val::u(world),
            Val::u(k),
            Val::b(!shuffle && !sort),
            spec.to_val(),
        ]);
        self.canon(&pre).unwrap_or(pre)
    }

    fn canon(&mut self, input: &Val) -> Option<Val> {
        let l = input.as_l()?;
        if l.len() != 11 {
            return None;
        }
        let spec = Spec::from_val(&l[10])?;
        let w = self.build_world(&spec)?;
        let world = l[7].as_usize()?.clamp(1, 6);
        let rank = l[6].as_usize()?.min(world - 1);
        Some(Val::L(vec![
            Val::u(w.table.len()),
            Val::L(w.table.iter().map(|t| Val::b(t.0)).collect()),
            Val::L(w.table.iter().map(|t| Val::b(t.1)).collect()),
            l[3].clone(),
            l[4].clone(),
            l[5].clone(),
            Val::u(rank),
            Val::u(world),
            l[8].clone(),
            Val::b(!spec.shuffle && !spec.sort),
            spec.to_val(),
        ]))
    }

    fn run(&mut self, input: &Val) -> Option<(Val, Vec<String>)> {
        let l = input.as_l()?;
        if l.len() != 11 {
            return None;
        }
        let spec = Spec::from_val(&l[10])?;
        let w = self.build_world(&spec)?;
        // the oracle part of the input must be what the crate says now
        if l[0].as_usize()? != w.table.len()
            || l[1] != Val::L(w.table.iter().map(|t| Val::b(t.0)).collect())
            || l[2] != Val::L(w.table.iter().map(|t| Val::b(t.1)).collect())
            || l[9].as_bool()? != (!spec.shuffle && !spec.sort)
        {
            return None;
        }
        let lim_i = l[3].as_i()?;
        let limit = if lim_i < 0 { None } else { Some(lim_i as usize) };
        let skip = l[4].as_usize()?;
        let ff = l[5].as_usize()?;
        let rank = l[6].as_usize()?;
        let world = l[7].as_usize()?;
        let k = l[8].as_usize()?;
        if world == 0 || world > 6 || rank >= world || skip > 10_000 || ff > 10_000 || k > 10_000 {
            return None;
        }
        let (s2, w2) = (spec.clone(), ());
        let _ = w2;
        let out = with_timeout(20_000, move || {
            let s = &s2;
            let run = |threads, buffer, skip, limit, dist, ff| loader_run(&w, s, threads, buffer, skip, limit, dist, ff);
            let a = run(s.threads, s.buffer, skip, limit, Some((rank, world)), ff);
            let b = run(s.threads2, s.buffer2, skip, limit, Some((rank, world)), ff);
            let cs: Vec<Option<RunOut>> = (0..world).map(|r| run(0, 0, skip, limit, Some((r, world)), 0)).collect();
            let d = run(s.threads, s.buffer2, skip, limit, None, 0);
            let e = run(s.threads2, s.buffer, skip, limit, None, k);
            let f = run(0, 1, 0, Some(k), None, 0);
            let g = run(1, 0, k, None, None, 0);
            let h = run(0, 0, 0, None, None, 0);
            let (Some(a), Some(b), Some(d), Some(e), Some(f), Some(g), Some(h)) = (a, b, d, e, f, g, h) else {
                return Val::L(vec![Val::I(-1)]);
            };
            let Some(cs) = cs.into_iter().collect::<Option<Vec<RunOut>>>() else {
                return Val::L(vec![Val::I(-1)]);
            };
            let same = a.shape == b.shape && a.min_items == b.min_items;
            let fp_ok = a.fp_ok
                && b.fp_ok
                && d.fp_ok
                && e.fp_ok
                && f.fp_ok
                && g.fp_ok
                && h.fp_ok
                && cs.iter().all(|c| c.fp_ok);
            Val::L(vec![
                ids_val(&a.ids),
                Val::L(cs.iter().map(|c| ids_val(&c.ids)).collect()),
                ids_val(&d.ids),
                ids_val(&e.ids),
                ids_val(&f.ids),
                ids_val(&g.ids),
                ids_val(&h.ids),
                Val::u(a.min_items.unwrap_or(UNKNOWN_ITEM)),
                Val::L(vec![Val::b(same), Val::b(fp_ok)]),
            ])
        });
        let mut tags = vec![
            format!("strategy{}", spec.strategy),
            format!("pipeline{}", spec.pipeline),
            format!("world{world}"),
        ];
        if spec.shuffle {
            tags.push("shuffle".into());
        }
        if spec.sort {
            tags.push("sort".into());
        }
        if spec.threads > 0 || spec.threads2 > 0 {
            tags.push("threaded".into());
        }
        let n_a = out.nth(0).and_then(|v| v.as_l()).map(|l| l.len()).unwrap_or(0);
        if n_a >= 2 && world >= 2 && (spec.threads > 0 || spec.threads2 > 0) {
            tags.push("nt".into());
        }
        Some((out, tags))
    }
}

fn main() {
    let dir = std::env::temp_dir().join(format!("verif-c08-{}", std::process::id()));
    let c = C08 { dir: dir.clone() };
    main_loop(c);
    let _ = std::fs::remove_dir_all(dir);
}

//! C08: the real TrainLoader (through the cfg(feature = "verif") driver) against the index-algebra model.
//! One case is a scenario: files + loader configuration; the harness performs several loader runs
//! (this rank / all ranks / single process / resumed / limit-skip split / other thread+buffer
//! settings) and reports the delivered items as global indices.
//! input  = (N oks res lim skip ff rank W k ordered SPEC)
//! SPEC   = (files strategy seed epoch threads buffer threads2 buffer2 sort shuffle prefetch batch_limit limit_type pipeline)
//! files  = list of files, each a list of line kinds (0 plain, 1 malformed json, 2 no "input" key, 3 json-encoded input)
//! output = (A C D E F G H min_items (same_for_other_threads fingerprints_ok))
//!
//! Two further kinds of case (first field negative), for pipelines whose configuration is modelled in
//! coq/theories/Pipeline_Model.v:
//! direct: input = (-1 cfg input target (seed-hi seed-lo) file marks): `preprocessing(cfg)` applied to one item;
//!         output = (0) constructor panics | (1 input target marks rep) | (2 rep) Err | (-777) the call panics
//! cfg encoding: see Pipeline_Model.v_cfg
//! exact:  input = (-2 files strategy (seed-hi seed-lo) epoch pcfg (g tokenizer) lim skip ff rank W sort shuffle prefetch
//!                  blim ty threads buffer threads2 buffer2): one real loader run (+ a second one with threads2/buffer2);
//!         files = lists of lines, a line = () (no valid item) | (input target); pcfg = (0 cfg) | (1 (cfg ..));
//!         tokenizer = (tokens pad prefix suffix padto?)
//!         output = (1 min_items batches same table_ok) | (0) init fails;  batches = lists of items (input target token_ids labels)
//! bytes:  input = (-3 files strategy (seed-hi seed-lo) epoch pcfg task qpcfg maxlen lim skip ff rank W sort shuffle prefetch blim ty
//!                  threads buffer threads2 buffer2): as `exact`, but files = the raw BYTES of every jsonl file (the harness writes
//!         them verbatim; which lines are items is computed by the model: Lines_Model / JSON_Model / C07_Files), every task
//!         (task = (0 g tok) | (1 mask tok ign sep?) | (2 tok ign tok ign) | (3 tok ign (class ..))) and the modelled postprocessing
//!         (qpcfg = (0 q) | (1 (q ..)); q = (0) | (1 (q ..)) | (2 (q ..) (prob ..)) | (3 key value (q ..)) | (4 key (value ..) (q ..)) | (5));
//!         batches = lists of items (input target tinput), tinput = (0 ids pad label) | (1 ids pad labels) | (2 ids pad labels)
//!         | (3 ids pad target_ids target_pad labels)
//! item:   input = (-4 pcfg task qpcfg maxlen input target (seed-hi seed-lo) file marks): the closure `train_pipeline` returns,
//!         applied to one (TrainData, TextDataInfo); output = (0) a constructor panics | (1 input target tinput rep) | (2 rep) | (-777)
//! In these two lines a preprocessing stage (14 0) / (14 1) is JsonDecode(Input) / JsonDecode(Target).
//! xitem:  input = (-5 pcfg task qpcfg maxlen input target (seed-hi seed-lo) file marks stages qstages): the item line with two
//!         tables of stages given with their real parameters (SpellingCorruption in all modes with the content of its files,
//!         JsonDecode, ChatDecode; TokenMasking): (14 k) in pcfg / (6 k) in qpcfg refer to entry k (see "topic N" below)
//! xbytes: input = (-6 <the 22 fields of bytes> stages qstages): the byte loader line with the same tables
//! mask:   input = (-7 qstage kind ids (seed-hi seed-lo)): the TokenMasking function alone on a synthetic item (kind = variant of
//!         TrainTaskInput) — the known answers for rand_distr::Geometric; output = (0) | (1 ids rep) | (-777)
//! kitem:  input = (-8 <the fields of xitem>), kbytes: input = (-9 <the fields of xbytes>): the same two lines with EVERY
//!         tokenizer kind in the task (topic Q; model: Pipeline_Toks.v): a tokenizer is
//!         (tokens pad prefix suffix padto?) byte | (1 tokens pad prefix suffix unk g alphabet) character (the alphabet is read from
//!         the real tokenizer) | (2 tokens pad prefix suffix table maxv? file?) BPE (file? = () | ((byte ..)) a hand-made merge file)
#[path = "../bpe_common.rs"]
mod bpec;
#[path = "../tok_common.rs"]
mod tokc;
use std::collections::hash_map::DefaultHasher;
use std::collections::HashMap;
use std::hash::{Hash, Hasher};
use text_utils::data::loading::{
    train_data_generator_from_jsonl, BatchLimitType, GenerationStrategy, MultiTrainDataGenerator,
};
use text_utils::data::postprocessing::PostprocessingFnConfig;
use text_utils::data::preprocessing::{preprocessing, Part, PreprocessingFnConfig, SpellingCorruptionMode};
use text_utils::unicode::Normalization;
use text_utils::data::task::TrainTaskConfig;
use text_utils::data::verif_hooks::{train_loader_batches, TrainLoaderArgs};
use text_utils::data::{
    train_pipeline, PostprocessingConfig, PreprocessingConfig, TextDataInfo, TrainItem, TrainPipelineConfig,
};
use text_utils::tokenization::{
    BPETokenizerConfig, ByteGroups, ByteTokenizerConfig, CharTokenizerConfig, GroupAggregation, SpecialConfig, TokenizeConfig,
    TokenizerConfig,
};
use vh::*;

/// stands for "not an item of the input" / "no value": far above every real index (inputs have at most a few
/// dozen items) yet small enough that a model counting in unary answers at once
const UNKNOWN_ITEM: usize = 100_003;

struct C08 {
    dir: std::path::PathBuf,
}

#[derive(Clone)]
struct Spec {
    files: Vec<Vec<i64>>,
    strategy: i64,
    seed: u64,
    epoch: usize,
    threads: u8,
    buffer: usize,
    threads2: u8,
    buffer2: usize,
    sort: bool,
    shuffle: bool,
    prefetch: usize,
    batch_limit: usize,
    limit_type: i64,
    pipeline: i64,
}

impl Spec {
    fn to_val(&self) -> Val {
        Val::L(vec![
            Val::L(self.files.iter().map(|f| Val::L(f.iter().map(|k| Val::I(*k)).collect())).collect()),
            Val::I(self.strategy),
            if self.seed == NO_SEED { Val::L(vec![]) } else { Val::I(self.seed as i64) },
            Val::u(self.epoch),
            Val::u(self.threads as usize),
            Val::u(self.buffer),
            Val::u(self.threads2 as usize),
            Val::u(self.buffer2),
            Val::b(self.sort),
            Val::b(self.shuffle),
            Val::u(self.prefetch),
            Val::u(self.batch_limit),
            Val::I(self.limit_type),
            Val::I(self.pipeline),
        ])
    }
    fn from_val(v: &Val) -> Option<Spec> {
        let l = v.as_l()?;
        if l.len() != 14 {
            return None;
        }
        let files: Vec<Vec<i64>> = l[0]
            .as_l()?
            .iter()
            .map(|f| f.as_l().and_then(|x| x.iter().map(|k| k.as_i()).collect::<Option<Vec<i64>>>()))
            .collect::<Option<_>>()?;
        if files.is_empty() || files.len() > 4 || files.iter().any(|f| f.len() > 40) {
            return None;
        }
        let s = Spec {
            files,
            strategy: l[1].as_i()?,
            seed: if l[2].as_l().map(|x| x.is_empty()).unwrap_or(false) { NO_SEED } else { u64::try_from(l[2].as_i()?).ok()? },
            epoch: l[3].as_usize()?,
            threads: u8::try_from(l[4].as_usize()?).ok()?,
            buffer: l[5].as_usize()?,
            threads2: u8::try_from(l[6].as_usize()?).ok()?,
            buffer2: l[7].as_usize()?,
            sort: l[8].as_bool()?,
            shuffle: l[9].as_bool()?,
            prefetch: l[10].as_usize()?,
            batch_limit: l[11].as_usize()?,
            limit_type: l[12].as_i()?,
            pipeline: l[13].as_i()?,
        };
        if s.threads > 6 || s.threads2 > 6 || s.buffer > 16 || s.buffer2 > 16 || s.epoch > 1000 || eff_seed(s.seed) > 1 << 40 {
            return None;
        }
        // `from_files` refuses shuffle without a seed
        if s.seed == NO_SEED && s.shuffle {
            return None;
        }
        if !(0..3).contains(&s.strategy) || !(0..5).contains(&s.pipeline) {
            return None;
        }
        // weighted needs non-empty sources (constructor error otherwise)
        if s.strategy == 2 && s.files.iter().any(|f| f.is_empty()) {
            return None;
        }
        Some(s)
    }
}

fn target_of(file: usize, line: usize) -> String {
    format!("id{} the qu ick brown fox {} jumps", file * 1000 + line, (file * 7 + line * 13) % 97)
}

fn line_json(file: usize, line: usize, kind: i64) -> String {
    let target = target_of(file, line);
    match kind {
        1 => format!("{{\"input\": \"broken {file} {line}"),
        2 => format!("{{\"target\": {}}}", serde_json::to_string(&target).unwrap()),
        3 => {
            // the input text is itself a json string literal (valid for JsonDecode)
            let inner = serde_json::to_string(&target).unwrap();
            format!(
                "{{\"input\": {}, \"target\": {}}}",
                serde_json::to_string(&inner).unwrap(),
                serde_json::to_string(&target).unwrap()
            )
        }
        _ => format!(
            "{{\"input\": {}, \"target\": {}}}",
            serde_json::to_string(&target).unwrap(),
            serde_json::to_string(&target).unwrap()
        ),
    }
}

fn tok_cfg() -> TokenizerConfig {
    TokenizerConfig {
        tokenize: TokenizeConfig::Byte(ByteTokenizerConfig {
            use_graphemes: false,
            pad_to_multiple_of: None,
            groups: ByteGroups::Bytes,
            aggregation: GroupAggregation::Mean,
        }),
        special: SpecialConfig::default(),
    }
}

fn pipeline_cfg(kind: i64) -> TrainPipelineConfig {
    let ws = PreprocessingFnConfig::WhitespaceCorruption(Part::Input, 0.3, 0.4, false);
    let pre = match kind {
        0 => PreprocessingFnConfig::None,
        1 => ws,
        2 => PreprocessingFnConfig::Chain(vec![PreprocessingFnConfig::JsonDecode(Part::Input), ws]),
        _ => PreprocessingFnConfig::Switch(
            vec![
                ws,
                PreprocessingFnConfig::NoWhitespaces(Part::Input, false),
                PreprocessingFnConfig::SpellingCorruption(
                    Part::Input,
                    0.5,
                    true,
                    SpellingCorruptionMode::Artificial(0.3, 2.0, None),
                ),
                PreprocessingFnConfig::None,
            ],
            vec![0.3, 0.2, 0.3, 0.2],
        ),
    };
    let task = if kind == 3 || kind == 4 {
        TrainTaskConfig::Generation(kind == 4, tok_cfg(), false, Some(" >> ".to_string()))
    } else {
        TrainTaskConfig::WhitespaceCorrection(false, tok_cfg())
    };
    // kind 4: the postprocessing stage the model does not have (TokenMasking draws from rand_distr::Geometric), followed
    // by the length clipping: covered by this line only, under the purity assumption
    let post = if kind == 4 {
        PostprocessingFnConfig::Chain(vec![
            PostprocessingFnConfig::TokenMasking(tok_cfg(), 0.4, 1, 0.5, "<unk>".to_string()),
            PostprocessingFnConfig::ClipLength,
        ])
    } else {
        PostprocessingFnConfig::None
    };
    TrainPipelineConfig {
        preprocessing: PreprocessingConfig::Global(pre),
        task,
        postprocessing: PostprocessingConfig::Global(post),
    }
}

fn fingerprint(item: &TrainItem) -> u64 {
    let mut h = DefaultHasher::new();
    format!("{:?}", item).hash(&mut h);
    h.finish()
}

fn reset_panic_hook() {
    let _ = std::panic::take_hook();
    std::panic::set_hook(Box::new(|_| {}));
}

struct World {
    paths: Vec<String>,
    /// per global index: (line parsed, pipeline ok, fingerprint)
    table: Vec<(bool, bool, u64)>,
    /// target text -> global index
    index: HashMap<String, usize>,
}

impl C08 {
    fn build_world(&self, s: &Spec) -> Option<World> {
        std::fs::create_dir_all(&self.dir).ok()?;
        let mut paths = vec![];
        for (fi, f) in s.files.iter().enumerate() {
            let p = self.dir.join(format!("f{fi}.jsonl"));
            let mut text = String::new();
            for (li, k) in f.iter().enumerate() {
                text.push_str(&line_json(fi, li, *k));
                text.push('\n');
            }
            std::fs::write(&p, text).ok()?;
            paths.push(p.to_string_lossy().to_string());
        }
        let strategy = strategy_of(s.strategy);
        let seed = eff_seed(s.seed) + s.epoch as u64;
        let gens = paths.iter().map(train_data_generator_from_jsonl).collect::<anyhow::Result<Vec<_>>>().ok()?;
        let gen = MultiTrainDataGenerator::new(gens, strategy, Some(seed)).ok()?;
        let (pipe, _) = train_pipeline(pipeline_cfg(s.pipeline), if s.pipeline == 4 { 40 } else { 512 }).ok()?;
        let mut table = vec![];
        let mut index = HashMap::new();
        for (i, (data, file_idx)) in gen.enumerate() {
            match data {
                Err(_) => table.push((false, false, 0)),
                Ok(d) => {
                    index.insert(d.verif_target().to_string(), i);
                    let info = TextDataInfo { file_idx, seed: seed + i as u64, ..Default::default() };
                    match pipe((d, info)) {
                        Ok(item) => table.push((true, true, fingerprint(&item))),
                        Err(_) => table.push((true, false, 0)),
                    }
                }
            }
        }
        Some(World { paths, table, index })
    }
}

fn strategy_of(s: i64) -> GenerationStrategy {
    match s {
        0 => GenerationStrategy::Sequential,
        1 => GenerationStrategy::Interleaved,
        _ => GenerationStrategy::Weighted,
    }
}

struct RunOut {
    ids: Vec<usize>,
    /// batches as (fingerprints, tensor views)
    shape: Vec<(Vec<u64>, String)>,
    min_items: Option<usize>,
    fp_ok: bool,
}

#[allow(clippy::too_many_arguments)]
fn loader_run(
    w: &World,
    s: &Spec,
    threads: u8,
    buffer: usize,
    skip: usize,
    limit: Option<usize>,
    dist: Option<(usize, usize)>,
    ff: usize,
) -> Option<RunOut> {
    let args = TrainLoaderArgs {
        files: w.paths.clone(),
        pipeline: pipeline_cfg(s.pipeline),
        strategy: strategy_of(s.strategy),
        num_threads: threads,
        buffer_size: buffer,
        batch_limit: s.batch_limit,
        batch_limit_type: if s.limit_type == 0 { BatchLimitType::BatchSize } else { BatchLimitType::PaddedItemSize },
        max_length: if s.pipeline == 4 { 40 } else { 512 },
        shuffle: s.shuffle,
        prefetch_factor: s.prefetch,
        sort: s.sort,
        seed: opt_seed(s.seed),
        skip,
        limit,
        distributed: dist,
        epoch: s.epoch,
        fast_forward: ff,
    };
    let r = train_loader_batches(args, None);
    reset_panic_hook();
    let (min_items, batches) = r.ok()?;
    let mut out = RunOut { ids: vec![], shape: vec![], min_items, fp_ok: true };
    for (items, tensors) in batches {
        let mut fps = vec![];
        for it in &items {
            let fp = fingerprint(it);
            fps.push(fp);
            match w.index.get(it.data.verif_target()) {
                Some(i) => {
                    out.ids.push(*i);
                    if w.table[*i].2 != fp {
                        out.fp_ok = false;
                    }
                }
                None => {
                    out.ids.push(UNKNOWN_ITEM);
                    out.fp_ok = false;
                }
            }
        }
        out.shape.push((fps, format!("{:?}", tensors)));
    }
    Some(out)
}

fn ids_val(ids: &[usize]) -> Val {
    Val::L(ids.iter().map(|i| Val::u(*i)).collect())
}


// ---------------------------------------------------------------------------------------------
// modelled pipeline configurations (Pipeline_Model.v)
// ---------------------------------------------------------------------------------------------

#[derive(Clone, Debug, PartialEq)]
enum MCfg {
    None,
    Chain(Vec<MCfg>),
    Clean(bool, bool),
    Normalize(bool, u8, bool),
    Overwrite(bool),
    Switch(Vec<MCfg>, Vec<f64>),
    NoWs(bool, bool),
    FullWs(bool, bool),
    WsCorrupt(bool, f64, f64, bool),
    CharSub(usize, bool),
    ByteSub(usize, bool),
    Mark(String, String),
    Prefix(bool, String),
    Suffix(bool, String),
    /// only in the item / bytes lines (the model of the older lines has it as an opaque stage)
    JsonDecode(bool),
    /// SpellingCorruption(part, PW[pw], allow_full_delete, Artificial(PC[pc], 2.0, None)): (target?, full_delete, pw, pc);
    /// only in the item / bytes lines; on the wire (14 id), id = 2 + part + 2 fd + 4 pw + 32 pc (Pipeline_Spell.v)
    Spell(bool, bool, u8, u8),
    /// a reference to entry k of the stage table of the lines -5 / -6 (topic N); on the wire (14 k)
    Stage(usize),
}

/// the probability menus of Pipeline_Spell.v (the same binary64 values)
const SPELL_PW: [f64; 8] = [1.0, 0.5, 0.25, 0.75, 0.9, 0.3, 0.1, 0.6];
const SPELL_PC: [f64; 8] = [0.0, 1.0, 0.5, 0.25, 0.3, 0.1, 0.75, 0.9];

/// f64 on the wire: (0 m e) = m * 2^e canonical (-0.0 is sent as zero), (1 0 0) +inf, (2 0 0) NaN, (3 0 0) negative
fn f64_val(x: f64) -> Val {
    let t = |k: i64, m: i64, e: i64| Val::L(vec![Val::I(k), Val::I(m), Val::I(e)]);
    if x.is_nan() {
        t(2, 0, 0)
    } else if x == f64::INFINITY {
        t(1, 0, 0)
    } else if x < 0.0 {
        t(3, 0, 0)
    } else {
        let b = x.to_bits() & !(1u64 << 63);
        let (e, f) = ((b >> 52) as i64, (b & ((1u64 << 52) - 1)) as i64);
        if e == 0 {
            t(0, f, -1074)
        } else {
            t(0, f + (1i64 << 52), e - 1075)
        }
    }
}

/// inverse of `f64_val`; `None` unless canonical. A negative value has no magnitude on the wire: -1.0.
fn val_f64(v: &Val) -> Option<f64> {
    let l = v.as_l()?;
    if l.len() != 3 {
        return None;
    }
    let (k, m, e) = (l[0].as_i()?, l[1].as_i()?, l[2].as_i()?);
    match k {
        1 if m == 0 && e == 0 => Some(f64::INFINITY),
        2 if m == 0 && e == 0 => Some(f64::NAN),
        3 if m == 0 && e == 0 => Some(-1.0),
        0 => {
            if (0..1i64 << 52).contains(&m) && e == -1074 {
                Some(f64::from_bits(m as u64))
            } else if (1i64 << 52..1i64 << 53).contains(&m) && (-1074..=971).contains(&e) {
                Some(f64::from_bits((((e + 1075) as u64) << 52) | (m as u64 - (1u64 << 52))))
            } else {
                None
            }
        }
        _ => None,
    }
}

/// `seed = None` of the loader (the Python default): on the wire `()` in the seed slot; the code turns it into 0
/// (`self.seed.unwrap_or_default() + epoch`), and so does the model (`v_hl ()` = 0)
const NO_SEED: u64 = u64::MAX;
fn seed_val(s: u64) -> Val {
    if s == NO_SEED {
        Val::L(vec![])
    } else {
        hl(s)
    }
}
fn val_seed(v: &Val) -> Option<u64> {
    if v.as_l()?.is_empty() {
        Some(NO_SEED)
    } else {
        un_hl(v)
    }
}
fn eff_seed(s: u64) -> u64 {
    if s == NO_SEED {
        0
    } else {
        s
    }
}
fn opt_seed(s: u64) -> Option<u64> {
    if s == NO_SEED {
        None
    } else {
        Some(s)
    }
}

/// the loader lines: `seed = None` in one case in five without shuffle, and now and then with shuffle (`from_files` fails)
fn no_seed_now_and_then(rng: &mut Rng, seed: &mut u64, shuffle: bool) {
    if (!shuffle && rng.chance(1, 5)) || (shuffle && rng.chance(1, 40)) {
        *seed = NO_SEED;
    }
}

fn hl(x: u64) -> Val {
    Val::L(vec![Val::I((x >> 32) as i64), Val::I((x & 0xffff_ffff) as i64)])
}

fn un_hl(v: &Val) -> Option<u64> {
    let l = v.as_l()?;
    if l.len() != 2 {
        return None;
    }
    let (h, lo) = (l[0].as_i()?, l[1].as_i()?);
    if !(0..1i64 << 32).contains(&h) || !(0..1i64 << 32).contains(&lo) {
        return None;
    }
    Some(((h as u64) << 32) | lo as u64)
}

fn part_of(target: bool) -> Part {
    if target {
        Part::Target
    } else {
        Part::Input
    }
}

fn norm_of(k: u8) -> Normalization {
    match k {
        1 => Normalization::NFC,
        2 => Normalization::NFD,
        3 => Normalization::NFKC,
        _ => Normalization::NFKD,
    }
}

impl MCfg {
    fn to_val(&self) -> Val {
        let t = |tag: i64, mut rest: Vec<Val>| {
            let mut v = vec![Val::I(tag)];
            v.append(&mut rest);
            Val::L(v)
        };
        match self {
            MCfg::None => t(0, vec![]),
            MCfg::Chain(l) => t(1, vec![Val::L(l.iter().map(|c| c.to_val()).collect())]),
            MCfg::Clean(p, g) => t(2, vec![Val::b(*p), Val::b(*g)]),
            MCfg::Normalize(p, f, g) => t(3, vec![Val::b(*p), Val::u(*f as usize), Val::b(*g)]),
            MCfg::Overwrite(p) => t(4, vec![Val::b(*p)]),
            MCfg::Switch(l, ps) => t(
                5,
                vec![Val::L(l.iter().map(|c| c.to_val()).collect()), Val::L(ps.iter().map(|p| f64_val(*p)).collect())],
            ),
            MCfg::NoWs(p, g) => t(6, vec![Val::b(*p), Val::b(*g)]),
            MCfg::FullWs(p, g) => t(7, vec![Val::b(*p), Val::b(*g)]),
            MCfg::WsCorrupt(p, iw, dw, g) => t(8, vec![Val::b(*p), f64_val(*iw), f64_val(*dw), Val::b(*g)]),
            MCfg::CharSub(n, g) => t(9, vec![Val::u(*n), Val::b(*g)]),
            MCfg::ByteSub(n, g) => t(10, vec![Val::u(*n), Val::b(*g)]),
            MCfg::Mark(k, v) => t(11, vec![Val::str(k), Val::str(v)]),
            MCfg::Prefix(p, s) => t(12, vec![Val::b(*p), Val::str(s)]),
            MCfg::Suffix(p, s) => t(13, vec![Val::b(*p), Val::str(s)]),
            MCfg::JsonDecode(p) => t(14, vec![Val::b(*p)]),
            MCfg::Spell(p, fd, pw, pc) => {
                t(14, vec![Val::u(2 + *p as usize + 2 * (*fd as usize) + 4 * (*pw as usize) + 32 * (*pc as usize))])
            }
            MCfg::Stage(k) => t(14, vec![Val::u(*k)]),
        }
    }

    /// a stage that only the item / bytes lines interpret
    fn has_json(&self) -> bool {
        match self {
            MCfg::Chain(l) | MCfg::Switch(l, _) => l.iter().any(|c| c.has_json()),
            MCfg::JsonDecode(_) | MCfg::Spell(..) => true,
            _ => false,
        }
    }

    fn from_val(v: &Val, depth: usize) -> Option<MCfg> {
        if depth > 6 {
            return None;
        }
        let l = v.as_l()?;
        let tag = l.first()?.as_i()?;
        let a = |k: usize| l.get(k + 1);
        let list = |v: &Val| -> Option<Vec<MCfg>> {
            let l = v.as_l()?;
            if l.len() > 6 {
                return None;
            }
            l.iter().map(|c| MCfg::from_val(c, depth + 1)).collect()
        };
        let n = l.len() - 1;
        Some(match (tag, n) {
            (0, 0) => MCfg::None,
            (1, 1) => MCfg::Chain(list(a(0)?)?),
            (2, 2) => MCfg::Clean(a(0)?.as_bool()?, a(1)?.as_bool()?),
            (3, 3) => {
                let f = a(1)?.as_usize()?;
                if !(1..=4).contains(&f) {
                    return None;
                }
                MCfg::Normalize(a(0)?.as_bool()?, f as u8, a(2)?.as_bool()?)
            }
            (4, 1) => MCfg::Overwrite(a(0)?.as_bool()?),
            (5, 2) => {
                let ps = a(1)?.as_l()?;
                if ps.len() > 8 {
                    return None;
                }
                MCfg::Switch(list(a(0)?)?, ps.iter().map(val_f64).collect::<Option<Vec<f64>>>()?)
            }
            (6, 2) => MCfg::NoWs(a(0)?.as_bool()?, a(1)?.as_bool()?),
            (7, 2) => MCfg::FullWs(a(0)?.as_bool()?, a(1)?.as_bool()?),
            (8, 4) => MCfg::WsCorrupt(a(0)?.as_bool()?, val_f64(a(1)?)?, val_f64(a(2)?)?, a(3)?.as_bool()?),
            (9, 2) => MCfg::CharSub(a(0)?.as_usize()?, a(1)?.as_bool()?),
            (10, 2) => MCfg::ByteSub(a(0)?.as_usize()?, a(1)?.as_bool()?),
            (11, 2) => MCfg::Mark(a(0)?.to_string_lossy()?, a(1)?.to_string_lossy()?),
            (12, 2) => MCfg::Prefix(a(0)?.as_bool()?, a(1)?.to_string_lossy()?),
            (13, 2) => MCfg::Suffix(a(0)?.as_bool()?, a(1)?.to_string_lossy()?),
            (14, 1) => {
                let id = a(0)?.as_usize()?;
                match id {
                    0 | 1 => MCfg::JsonDecode(id == 1),
                    2..=257 => {
                        let k = id - 2;
                        MCfg::Spell(k % 2 == 1, (k / 2) % 2 == 1, ((k / 4) % 8) as u8, ((k / 32) % 8) as u8)
                    }
                    _ => return None,
                }
            }
            _ => return None,
        })
    }

    fn to_real(&self) -> PreprocessingFnConfig {
        use PreprocessingFnConfig as P;
        match self {
            MCfg::None => P::None,
            MCfg::Chain(l) => P::Chain(l.iter().map(|c| c.to_real()).collect()),
            MCfg::Clean(p, g) => P::Clean(part_of(*p), *g),
            MCfg::Normalize(p, f, g) => P::Normalize(part_of(*p), norm_of(*f), *g),
            MCfg::Overwrite(p) => P::Overwrite(part_of(*p)),
            MCfg::Switch(l, ps) => P::Switch(l.iter().map(|c| c.to_real()).collect(), ps.clone()),
            MCfg::NoWs(p, g) => P::NoWhitespaces(part_of(*p), *g),
            MCfg::FullWs(p, g) => P::FullWhitespaces(part_of(*p), *g),
            MCfg::WsCorrupt(p, iw, dw, g) => P::WhitespaceCorruption(part_of(*p), *iw, *dw, *g),
            MCfg::CharSub(n, g) => P::CharSubstring(*n, *g),
            MCfg::ByteSub(n, g) => P::ByteSubstring(*n, *g),
            MCfg::Mark(k, v) => P::Mark(k.clone(), v.clone()),
            MCfg::Prefix(p, s) => P::Prefix(part_of(*p), s.clone()),
            MCfg::Suffix(p, s) => P::Suffix(part_of(*p), s.clone()),
            MCfg::JsonDecode(p) => P::JsonDecode(part_of(*p)),
            MCfg::Spell(p, fd, pw, pc) => P::SpellingCorruption(
                part_of(*p),
                SPELL_PW[*pw as usize],
                *fd,
                SpellingCorruptionMode::Artificial(SPELL_PC[*pc as usize], 2.0, None),
            ),
            MCfg::Stage(_) => unreachable!("stage references are resolved by x_mcfg_to_real"),
        }
    }

    fn nodes(&self) -> usize {
        match self {
            MCfg::Chain(l) | MCfg::Switch(l, _) => 1 + l.iter().map(|c| c.nodes()).sum::<usize>(),
            _ => 1,
        }
    }

    fn names(&self, out: &mut Vec<&'static str>) {
        let n = match self {
            MCfg::None => "none",
            MCfg::Chain(l) => {
                l.iter().for_each(|c| c.names(out));
                "chain"
            }
            MCfg::Clean(..) => "clean",
            MCfg::Normalize(..) => "normalize",
            MCfg::Overwrite(..) => "overwrite",
            MCfg::Switch(l, _) => {
                l.iter().for_each(|c| c.names(out));
                "switch"
            }
            MCfg::NoWs(..) => "nows",
            MCfg::FullWs(..) => "fullws",
            MCfg::WsCorrupt(..) => "wscorrupt",
            MCfg::CharSub(..) => "charsub",
            MCfg::ByteSub(..) => "bytesub",
            MCfg::Mark(..) => "mark",
            MCfg::Prefix(..) => "prefix",
            MCfg::Suffix(..) => "suffix",
            MCfg::JsonDecode(..) => "jsondecode",
            MCfg::Spell(..) => "spell",
            MCfg::Stage(..) => "stage",
        };
        if !out.contains(&n) {
            out.push(n);
        }
    }
}

fn gen_prob(rng: &mut Rng) -> f64 {
    match rng.below(14) {
        0 => 0.0,
        1 => 1.0,
        2 => 0.5,
        3 => 0.3,
        4 => 0.4,
        5 => 0.1,
        6 => 1e-9,
        7 => 2.0,
        8 => -1.0,
        9 => *rng.pick(&[f64::NAN, f64::INFINITY, 5e-324, 1.0 - f64::EPSILON / 2.0]),
        // an arbitrary binary64 value in [0, 1)
        10 | 11 => (rng.next_u64() >> 11) as f64 / (1u64 << 53) as f64,
        // a multiple of 2^-53 just around one of the values the generator will draw is as good as any; small values
        12 => (rng.next_u64() >> 40) as f64 / (1u64 << 53) as f64,
        _ => 0.25,
    }
}

fn gen_switch_probs(rng: &mut Rng, n: usize) -> Vec<f64> {
    let mut ps: Vec<f64> = match (rng.below(10), n) {
        (0..=3, _) => {
            // random positive weights normalised (the f64 sum is then 1 within a few ulps)
            let w: Vec<f64> = (0..n).map(|_| rng.range(1, 9) as f64).collect();
            let t: f64 = w.iter().sum();
            w.iter().map(|x| x / t).collect()
        }
        (4, 4) => vec![0.3, 0.2, 0.3, 0.2],
        (4 | 5, _) => {
            // one alternative takes everything, the others have probability 0
            let k = rng.below(n);
            (0..n).map(|i| if i == k { 1.0 } else { 0.0 }).collect()
        }
        (6, _) => (0..n).map(|_| 1.0 / n as f64).collect(),
        (7, _) => {
            // sums near the tolerance of the assertion: 1 +- 1e-5 (+- a little)
            let d = *rng.pick(&[1e-5, 0.99999e-5, 1.00001e-5, 9e-6, 1.1e-5, 1e-7]);
            let s = if rng.chance(1, 2) { 1.0 + d } else { 1.0 - d };
            let mut v: Vec<f64> = (0..n).map(|_| s / n as f64).collect();
            if n == 1 {
                v[0] = s;
            }
            v
        }
        // arbitrary values (a negative one has no magnitude on the wire and is outside the model: 0 instead)
        (8, _) => (0..n).map(|_| gen_prob(rng)).map(|p| if p < 0.0 { 0.0 } else { p }).collect(),
        _ => (0..n).map(|_| 1.0 / n as f64).collect(),
    };
    // now and then the wrong number of probabilities
    if rng.chance(1, 25) {
        if rng.chance(1, 2) {
            ps.pop();
        } else {
            ps.push(0.0);
        }
    }
    ps
}

const PIECES: &[&str] = &[
    "a", "b", "c", "x", "ab", " ", " ", " ", "  ", "\t", "\n", "\u{a0}", "\u{3000}", "é", "e\u{301}", "ﬁ", "ä", "中", "😀",
    "🇩", "🇪", "\u{1100}", "\u{1161}", "\u{301}", "¨", "Å", "ｶ", "\u{200b}", ".", "\r\n", "²",
];

fn gen_text(rng: &mut Rng, max: usize) -> String {
    let n = match rng.below(10) {
        0 => 0,
        1 => 1,
        _ => rng.range(2, max),
    };
    let ascii_only = rng.chance(1, 3);
    let mut s = String::new();
    for _ in 0..n {
        if ascii_only {
            s.push_str(*rng.pick::<&str>(&["a", "b", "c", " ", " ", "xy"]));
        } else {
            s.push_str(*rng.pick::<&str>(PIECES));
        }
    }
    s
}

fn gen_leaf(rng: &mut Rng) -> MCfg {
    let p = rng.chance(1, 3);
    let g = rng.chance(1, 2);
    match rng.below(15) {
        0 => MCfg::None,
        1 => MCfg::Clean(p, g),
        2 => MCfg::Normalize(p, rng.range(1, 4) as u8, g),
        3 => MCfg::Overwrite(p),
        4 => MCfg::NoWs(p, g),
        5 => MCfg::FullWs(p, g),
        6 | 7 | 8 => {
            let (mut iw, dw) = (gen_prob(rng), gen_prob(rng));
            // mostly acceptable configurations
            if !(iw > 0.0) && !(dw > 0.0) && rng.chance(3, 4) {
                iw = 0.5;
            }
            MCfg::WsCorrupt(p, iw, dw, g)
        }
        9 => MCfg::CharSub(if rng.chance(1, 8) { *rng.pick(&[0, 1000]) } else { rng.range(1, 6) }, g),
        10 => MCfg::ByteSub(if rng.chance(1, 8) { *rng.pick(&[0, 1, 1000]) } else { rng.range(2, 9) }, g),
        11 => MCfg::Mark(rng.pick(&["k", "m", ""]).to_string(), rng.pick(&["v", "w", "é"]).to_string()),
        12 => MCfg::Prefix(p, rng.pick(&["", "p", "> ", " ", "é "]).to_string()),
        13 => MCfg::Suffix(p, rng.pick(&["", "s", " <", " ", "\u{301}"]).to_string()),
        _ => MCfg::Clean(false, g),
    }
}

fn gen_cfg(rng: &mut Rng, depth: usize) -> MCfg {
    if depth == 0 || rng.chance(2, 5) {
        return gen_leaf(rng);
    }
    if rng.chance(1, 2) {
        let n = rng.below(4);
        MCfg::Chain((0..n).map(|_| gen_cfg(rng, depth - 1)).collect())
    } else {
        let n = if rng.chance(1, 20) { 0 } else { rng.range(1, 4) };
        let l: Vec<MCfg> = (0..n).map(|_| gen_cfg(rng, depth - 1)).collect();
        let ps = gen_switch_probs(rng, n.max(1));
        let ps = if n == 0 { vec![] } else { ps };
        MCfg::Switch(l, ps)
    }
}

fn marks_val(m: &HashMap<String, String>) -> Val {
    let mut kv: Vec<(&String, &String)> = m.iter().collect();
    kv.sort_by(|a, b| a.0.chars().cmp(b.0.chars()));
    Val::L(kv.iter().map(|(k, v)| Val::L(vec![Val::str(k), Val::str(v)])).collect())
}

fn val_marks(v: &Val) -> Option<HashMap<String, String>> {
    let mut m = HashMap::new();
    for kv in v.as_l()? {
        let kv = kv.as_l()?;
        if kv.len() != 2 {
            return None;
        }
        // the model keeps an association list without duplicate keys
        if m.insert(kv[0].to_string_lossy()?, kv[1].to_string_lossy()?).is_some() {
            return None;
        }
    }
    Some(m)
}

/// one application of `preprocessing(cfg)`: (1 input target marks) | (2) | (-777)
fn apply_once(f: &text_utils::data::preprocessing::PreprocessingFn, input: &str, target: &str, info: &TextDataInfo) -> Vec<Val> {
    let data = text_utils::data::TrainData::new(input.to_string(), Some(target.to_string()));
    let info = info.clone();
    match std::panic::catch_unwind(std::panic::AssertUnwindSafe(|| f(data, info))) {
        Err(_) => vec![Val::I(-777)],
        Ok(Err(_)) => vec![Val::I(2)],
        Ok(Ok((d, i))) => vec![Val::I(1), Val::str(d.verif_input()), Val::str(d.verif_target()), marks_val(&i.marks)],
    }
}

/// configurations whose probabilities sit exactly ON a draw of the item's generator (the harness draws them with
/// the real rand crates): `r > cum_p[idx]` against `>=`, `r < p` against `<=` differ only there
fn boundary_gen(rng: &mut Rng) -> Val {
    use rand::{Rng as _, SeedableRng};
    let seed = rng.below(5000) as u64;
    let mut real = rand_chacha::ChaCha8Rng::seed_from_u64(seed);
    let draws: Vec<f64> = (0..6).map(|_| real.random::<f64>()).collect();
    let text = "ab cd e".to_string();
    let g = rng.chance(1, 2);
    let cfg = match rng.below(4) {
        0 => MCfg::Switch(
            vec![MCfg::Prefix(false, "p".into()), MCfg::Suffix(false, "s".into())],
            vec![draws[0], 1.0 - draws[0]],
        ),
        1 => {
            // three alternatives, the second boundary on the draw
            let a = draws[0] / 2.0;
            MCfg::Switch(
                vec![MCfg::Prefix(false, "p".into()), MCfg::Suffix(false, "s".into()), MCfg::None],
                vec![a, draws[0] - a, 1.0 - draws[0]],
            )
        }
        // delete probability = the draw of the first space (character 2), insert probability = the draw of 'b' (character 1)
        2 => MCfg::WsCorrupt(false, draws[1], draws[2], g),
        _ => MCfg::WsCorrupt(false, draws[rng.range(3, 5)], draws[5], g),
    };
    Val::L(vec![Val::I(-1), cfg.to_val(), Val::str(&text), Val::str(&text), hl(seed), Val::u(0), marks_val(&HashMap::new())])
}

fn direct_gen(rng: &mut Rng) -> Val {
    if rng.chance(1, 12) {
        return boundary_gen(rng);
    }
    let cfg = gen_cfg(rng, 3);
    let input = gen_text(rng, 14);
    let target = match rng.below(6) {
        0 => gen_text(rng, 14),
        1 => text_utils::text::clean(&input, true),
        2 => text_utils::whitespace::remove(&input, true),
        _ => input.clone(),
    };
    let seed = if rng.chance(1, 6) { rng.next_u64() } else { rng.below(5000) as u64 };
    let mut marks = HashMap::new();
    if rng.chance(1, 6) {
        marks.insert("k".to_string(), "old".to_string());
    }
    if rng.chance(1, 10) {
        marks.insert("z".to_string(), "y".to_string());
    }
    Val::L(vec![
        Val::I(-1),
        cfg.to_val(),
        Val::str(&input),
        Val::str(&target),
        hl(seed),
        Val::u(rng.below(3)),
        marks_val(&marks),
    ])
}

fn direct_run(input: &Val) -> Option<(Val, Vec<String>)> {
    let l = input.as_l()?;
    if l.len() != 7 {
        return None;
    }
    let cfg = MCfg::from_val(&l[1], 0)?;
    // a negative switch probability has no magnitude on the wire and is outside the model
    fn neg_switch(c: &MCfg) -> bool {
        match c {
            MCfg::Chain(l) => l.iter().any(neg_switch),
            MCfg::Switch(l, ps) => ps.iter().any(|p| *p < 0.0) || l.iter().any(neg_switch),
            _ => false,
        }
    }
    if neg_switch(&cfg) || cfg.has_json() {
        return None;
    }
    let inp = l[2].to_string_lossy()?;
    let tgt = l[3].to_string_lossy()?;
    if inp.chars().count() > 400 || tgt.chars().count() > 400 {
        return None;
    }
    let info = TextDataInfo { seed: un_hl(&l[4])?, file_idx: l[5].as_usize()?, marks: val_marks(&l[6])? };
    let real = cfg.to_real();
    let mut tags = vec!["direct".to_string()];
    let mut names = vec![];
    cfg.names(&mut names);
    tags.extend(names.iter().map(|n| n.to_string()));
    let f = match std::panic::catch_unwind(move || preprocessing(real)) {
        Ok(f) => f,
        Err(_) => {
            tags.push("rejected".into());
            return Some((Val::L(vec![Val::I(0)]), tags));
        }
    };
    let first = apply_once(&f, &inp, &tgt, &info);
    let second = apply_once(&f, &inp, &tgt, &info);
    let third = std::thread::scope(|s| s.spawn(|| apply_once(&f, &inp, &tgt, &info)).join().ok());
    let rep = second == first && third.as_ref() == Some(&first);
    let mut out = first;
    match out[0] {
        Val::I(1) => {
            tags.push("ok".into());
            if cfg.nodes() >= 2 {
                tags.push("nt".into());
            }
            out.push(Val::b(rep));
        }
        Val::I(2) => {
            tags.push("err".into());
            out.push(Val::b(rep));
        }
        _ => {
            tags.push("panic".into());
            if !rep {
                // a panic that is not reproducible is not the value the model predicts
                out = vec![Val::I(-779)];
            }
        }
    }
    Some((Val::L(out), tags))
}


// ---------------------------------------------------------------------------------------------
// exact loader line: everything the model needs is in the input, nothing is computed with the crate
// ---------------------------------------------------------------------------------------------

#[derive(Clone, Debug, PartialEq)]
enum TokKind {
    Byte,
    Char { unk: String, g: bool },
    /// table = the merge file in id order; file = the bytes of a hand-made merge file (then the tokenizer is built from them)
    Bpe { table: Vec<Vec<u8>>, maxv: Option<usize>, file: Option<Vec<u8>> },
}

#[derive(Clone, Debug)]
struct TokSpec {
    tokens: Vec<String>,
    pad: String,
    prefix: Vec<String>,
    suffix: Vec<String>,
    padto: Option<usize>,
    kind: TokKind,
}

#[derive(Clone, Debug)]
struct XSpec {
    files: Vec<Vec<Option<(String, String)>>>,
    strategy: i64,
    seed: u64,
    epoch: usize,
    per_source: bool,
    cfgs: Vec<MCfg>,
    g: bool,
    tok: TokSpec,
    lim: i64,
    skip: usize,
    ff: usize,
    rank: usize,
    world: usize,
    sort: bool,
    shuffle: bool,
    prefetch: usize,
    blim: usize,
    ty: i64,
    threads: u8,
    buffer: usize,
    threads2: u8,
    buffer2: usize,
}

fn strs_val(l: &[String]) -> Val {
    Val::L(l.iter().map(|s| Val::str(s)).collect())
}
fn val_strs(v: &Val) -> Option<Vec<String>> {
    v.as_l()?.iter().map(|s| s.to_string_lossy()).collect()
}

impl XSpec {
    fn to_val(&self) -> Val {
        let files = Val::L(
            self.files
                .iter()
                .map(|f| {
                    Val::L(
                        f.iter()
                            .map(|l| match l {
                                None => Val::L(vec![]),
                                Some((i, t)) => Val::L(vec![Val::str(i), Val::str(t)]),
                            })
                            .collect(),
                    )
                })
                .collect(),
        );
        let pcfg = if self.per_source {
            Val::L(vec![Val::I(1), Val::L(self.cfgs.iter().map(|c| c.to_val()).collect())])
        } else {
            Val::L(vec![Val::I(0), self.cfgs[0].to_val()])
        };
        let tok = Val::L(vec![
            strs_val(&self.tok.tokens),
            Val::str(&self.tok.pad),
            strs_val(&self.tok.prefix),
            strs_val(&self.tok.suffix),
            Val::opt(self.tok.padto, Val::u),
        ]);
        Val::L(vec![
            Val::I(-2),
            files,
            Val::I(self.strategy),
            seed_val(self.seed),
            Val::u(self.epoch),
            pcfg,
            Val::L(vec![Val::b(self.g), tok]),
            Val::I(self.lim),
            Val::u(self.skip),
            Val::u(self.ff),
            Val::u(self.rank),
            Val::u(self.world),
            Val::b(self.sort),
            Val::b(self.shuffle),
            Val::u(self.prefetch),
            Val::u(self.blim),
            Val::I(self.ty),
            Val::u(self.threads as usize),
            Val::u(self.buffer),
            Val::u(self.threads2 as usize),
            Val::u(self.buffer2),
        ])
    }

    fn from_val(v: &Val) -> Option<XSpec> {
        let l = v.as_l()?;
        if l.len() != 21 {
            return None;
        }
        let mut files = vec![];
        for f in l[1].as_l()? {
            let mut lines = vec![];
            for ln in f.as_l()? {
                let ln = ln.as_l()?;
                lines.push(match ln.len() {
                    0 => None,
                    2 => Some((ln[0].to_string_lossy()?, ln[1].to_string_lossy()?)),
                    _ => return None,
                });
            }
            if lines.len() > 40 {
                return None;
            }
            files.push(lines);
        }
        if files.is_empty() || files.len() > 4 {
            return None;
        }
        let pc = l[5].as_l()?;
        if pc.len() != 2 {
            return None;
        }
        let per_source = match pc[0].as_i()? {
            0 => false,
            1 => true,
            _ => return None,
        };
        let cfgs: Vec<MCfg> = if per_source {
            pc[1].as_l()?.iter().map(|c| MCfg::from_val(c, 0)).collect::<Option<_>>()?
        } else {
            vec![MCfg::from_val(&pc[1], 0)?]
        };
        let task = l[6].as_l()?;
        if task.len() != 2 {
            return None;
        }
        let t = task[1].as_l()?;
        if t.len() != 5 {
            return None;
        }
        let padto = match t[4].as_l()? {
            [] => None,
            [k] => Some(k.as_usize()?),
            _ => return None,
        };
        let tok = TokSpec { tokens: val_strs(&t[0])?, pad: t[1].to_string_lossy()?, prefix: val_strs(&t[2])?, suffix: val_strs(&t[3])?, padto, kind: TokKind::Byte };
        if padto.map(|k| k == 0 || k > 64).unwrap_or(false) {
            return None;
        }
        let s = XSpec {
            files,
            strategy: l[2].as_i()?,
            seed: val_seed(&l[3])?,
            epoch: l[4].as_usize()?,
            per_source,
            cfgs,
            g: task[0].as_bool()?,
            tok,
            lim: l[7].as_i()?,
            skip: l[8].as_usize()?,
            ff: l[9].as_usize()?,
            rank: l[10].as_usize()?,
            world: l[11].as_usize()?,
            sort: l[12].as_bool()?,
            shuffle: l[13].as_bool()?,
            prefetch: l[14].as_usize()?,
            blim: l[15].as_usize()?,
            ty: l[16].as_i()?,
            threads: u8::try_from(l[17].as_usize()?).ok()?,
            buffer: l[18].as_usize()?,
            threads2: u8::try_from(l[19].as_usize()?).ok()?,
            buffer2: l[20].as_usize()?,
        };
        if !(0..3).contains(&s.strategy) || !(0..2).contains(&s.ty) || eff_seed(s.seed) > 1 << 40 || s.epoch > 1000 {
            return None;
        }
        if s.world == 0 || s.world > 6 || s.rank >= s.world || s.skip > 10_000 || s.ff > 10_000 || s.lim > 10_000 {
            return None;
        }
        if s.threads > 6 || s.threads2 > 6 || s.buffer > 16 || s.buffer2 > 16 || s.prefetch > 64 || s.blim > 100_000 {
            return None;
        }
        Some(s)
    }

    fn pipeline(&self) -> TrainPipelineConfig {
        let tok = TokenizerConfig {
            tokenize: TokenizeConfig::Byte(ByteTokenizerConfig {
                use_graphemes: false,
                pad_to_multiple_of: self.tok.padto,
                groups: ByteGroups::Bytes,
                aggregation: GroupAggregation::Mean,
            }),
            special: SpecialConfig {
                pad: self.tok.pad.clone(),
                tokens: self.tok.tokens.clone(),
                prefix: self.tok.prefix.clone(),
                suffix: self.tok.suffix.clone(),
            },
        };
        TrainPipelineConfig {
            preprocessing: if self.per_source {
                PreprocessingConfig::PerSource(self.cfgs.iter().map(|c| c.to_real()).collect())
            } else {
                PreprocessingConfig::Global(self.cfgs[0].to_real())
            },
            task: TrainTaskConfig::WhitespaceCorrection(self.g, tok),
            postprocessing: PostprocessingConfig::Global(PostprocessingFnConfig::None),
        }
    }
}

/// a jsonl line for a line specification; the five ways of not being an item are taken in turn
fn xline_json(l: &Option<(String, String)>, file: usize, line: usize) -> String {
    let q = |s: &str| serde_json::to_string(s).unwrap();
    match l {
        Some((i, t)) => {
            if i == t && (file + line) % 3 == 0 {
                // "target" is optional: it defaults to the input
                format!("{{\"input\": {}}}", q(i))
            } else if (file + line) % 2 == 0 {
                format!("{{\"target\": {}, \"input\": {}, \"extra\": 1}}", q(t), q(i))
            } else {
                format!("{{\"input\": {}, \"target\": {}}}", q(i), q(t))
            }
        }
        None => match (file * 3 + line) % 5 {
            0 => format!("{{\"input\": \"broken {file} {line}"),
            1 => "{\"target\": \"no input\"}".to_string(),
            2 => "{\"input\": 5, \"target\": \"x\"}".to_string(),
            3 => "{\"input\": \"x\", \"target\": [1]}".to_string(),
            _ => "[\"input\", \"x\"]".to_string(),
        },
    }
}

fn safe_cfg(c: MCfg, g_max: usize) -> MCfg {
    match c {
        MCfg::Chain(l) => MCfg::Chain(l.into_iter().map(|c| safe_cfg(c, g_max)).collect()),
        MCfg::Switch(l, ps) => MCfg::Switch(l.into_iter().map(|c| safe_cfg(c, g_max)).collect(), ps),
        MCfg::CharSub(n, g) => MCfg::CharSub(n.max(1), g),
        MCfg::ByteSub(n, g) => MCfg::ByteSub(n.max(g_max), g),
        c => c,
    }
}

fn gen_pipeline_cfg(rng: &mut Rng) -> MCfg {
    let g = rng.chance(1, 3);
    let ws = |rng: &mut Rng| MCfg::WsCorrupt(false, *rng.pick(&[0.3, 0.5, 0.1, 1.0, 0.0]), *rng.pick(&[0.4, 0.5, 0.2, 1.0]), g);
    match rng.below(8) {
        0 => ws(rng),
        1 => MCfg::Chain(vec![MCfg::Clean(false, g), MCfg::Clean(true, g), MCfg::Normalize(false, 3, g), ws(rng)]),
        2 => MCfg::Switch(vec![ws(rng), MCfg::NoWs(false, g), MCfg::FullWs(false, g), MCfg::None], vec![0.3, 0.2, 0.3, 0.2]),
        3 => MCfg::Chain(vec![MCfg::CharSub(rng.range(3, 12), g), ws(rng)]),
        4 => MCfg::Chain(vec![MCfg::ByteSub(rng.range(24, 40), g), MCfg::Switch(vec![ws(rng), MCfg::None], vec![0.5, 0.5])]),
        5 => MCfg::Chain(vec![MCfg::Overwrite(false), MCfg::Mark("k".into(), "v".into()), ws(rng), MCfg::Suffix(true, "".into())]),
        _ => safe_cfg(gen_cfg(rng, 3), 24),
    }
}

fn gen_line(rng: &mut Rng) -> Option<(String, String)> {
    match rng.below(20) {
        0 | 1 => None,
        2 | 3 => {
            let i = gen_text(rng, 12);
            let t = if rng.chance(1, 2) { i.clone() } else { gen_text(rng, 12) };
            Some((i, t))
        }
        4 => {
            // a clean pair that differs in whitespace
            let t = text_utils::text::clean(&gen_text(rng, 14), true);
            Some((text_utils::whitespace::remove(&t, true), t))
        }
        _ => {
            let t = text_utils::text::clean(&gen_text(rng, 16), true);
            Some((t.clone(), t))
        }
    }
}

fn exact_gen(rng: &mut Rng) -> Val {
    let nfiles = rng.range(1, 3);
    let strategy = rng.below(3) as i64;
    let files: Vec<Vec<Option<(String, String)>>> = (0..nfiles)
        .map(|_| {
            let n = if strategy == 2 && !rng.chance(1, 30) { rng.range(1, 10) } else { rng.range(0, 10) };
            (0..n).map(|_| gen_line(rng)).collect()
        })
        .collect();
    let total: usize = files.iter().map(|f| f.len()).sum();
    let per_source = rng.chance(1, 5);
    let cfgs: Vec<MCfg> = if per_source { (0..nfiles).map(|_| gen_pipeline_cfg(rng)).collect() } else { vec![gen_pipeline_cfg(rng)] };
    let world = rng.range(1, 4);
    let tok = TokSpec {
        tokens: ["<unk>", "<bos>", "<eos>", "<pad>"].iter().map(|s| s.to_string()).collect(),
        pad: "<pad>".to_string(),
        prefix: if rng.chance(1, 2) { vec![] } else { vec!["<bos>".to_string()] },
        suffix: match rng.below(3) {
            0 => vec![],
            1 => vec!["<eos>".to_string()],
            _ => vec!["<eos>".to_string(), "<pad>".to_string()],
        },
        padto: if rng.chance(1, 3) { Some(8) } else { None },
        kind: TokKind::Byte,
    };
    let mut x = XSpec {
        files,
        strategy,
        seed: if rng.chance(1, 8) { rng.next_u64() >> 24 } else { rng.below(1000) as u64 },
        epoch: rng.below(3),
        per_source,
        cfgs,
        g: rng.chance(1, 3),
        tok,
        lim: if rng.chance(1, 3) { -1 } else { rng.range(0, total + 2) as i64 },
        skip: if rng.chance(1, 2) { 0 } else { rng.range(0, total / 2 + 1) },
        ff: if rng.chance(1, 3) { 0 } else { rng.range(0, total / 2 + 1) },
        rank: rng.below(world),
        world,
        sort: rng.chance(1, 3),
        shuffle: rng.chance(1, 2),
        prefetch: rng.below(4),
        blim: if rng.chance(1, 2) { rng.range(0, 6) } else { rng.range(20, 400) },
        ty: rng.below(2) as i64,
        threads: rng.below(5) as u8,
        buffer: rng.below(5),
        threads2: rng.below(5) as u8,
        buffer2: rng.below(5),
    };
    no_seed_now_and_then(rng, &mut x.seed, x.shuffle);
    x.to_val()
}

type XItem = (String, String, Vec<u32>, Vec<i32>);
type XBatches = Vec<Vec<XItem>>;

fn xitem(it: &TrainItem) -> XItem {
    let (ids, labels) = match &it.input {
        text_utils::data::TrainTaskInput::SequenceClassification { token_ids, labels, .. } => (token_ids.clone(), labels.clone()),
        _ => (vec![], vec![]),
    };
    (it.data.verif_input().to_string(), it.data.verif_target().to_string(), ids, labels)
}

impl C08 {
    fn exact_run(&self, input: &Val) -> Option<(Val, Vec<String>)> {
        let s = XSpec::from_val(input)?;
        fn neg_switch(c: &MCfg) -> bool {
            match c {
                MCfg::Chain(l) => l.iter().any(neg_switch),
                MCfg::Switch(l, ps) => ps.iter().any(|p| *p < 0.0) || l.iter().any(neg_switch),
                _ => false,
            }
        }
        if s.cfgs.iter().any(neg_switch) || s.cfgs.is_empty() || s.cfgs.iter().any(|c| c.has_json()) {
            return None;
        }
        std::fs::create_dir_all(&self.dir).ok()?;
        let mut paths = vec![];
        for (fi, f) in s.files.iter().enumerate() {
            let p = self.dir.join(format!("x{fi}.jsonl"));
            let mut text = String::new();
            for (li, l) in f.iter().enumerate() {
                text.push_str(&xline_json(l, fi, li));
                // the last line of every second file has no line terminator; now and then CR LF
                if li + 1 < f.len() || fi % 2 == 0 {
                    text.push_str(if (fi + li) % 4 == 3 { "\r\n" } else { "\n" });
                }
            }
            std::fs::write(&p, text).ok()?;
            paths.push(p.to_string_lossy().to_string());
        }
        let mut tags = vec!["exact".to_string(), format!("strategy{}", s.strategy), format!("world{}", s.world)];
        let mut names = vec![];
        s.cfgs.iter().for_each(|c| c.names(&mut names));
        tags.extend(names.iter().map(|n| n.to_string()));
        // no pipeline call may panic: a panic on the buffer thread ends the stream silently, one on a worker thread ends
        // the process (C09's subject); such configurations are outside this line
        let pipe = std::panic::catch_unwind(|| train_pipeline(s.pipeline(), 512));
        reset_panic_hook();
        // the table of the oracle line (the pipeline applied single-threaded to every generator position), here only a
        // cross-check: every delivered item must be one of its entries
        let mut table: Vec<XItem> = vec![];
        if let Ok(Ok((pipe, _))) = &pipe {
            let seed = eff_seed(s.seed) + s.epoch as u64;
            let mut pos = 0usize;
            // every line of every file, with every position it could have: the order does not matter for a panic
            // that depends on (item, seed); check all (position, line) pairs that can occur is too much: use the
            // real generator order
            let gens = paths.iter().map(train_data_generator_from_jsonl).collect::<anyhow::Result<Vec<_>>>().ok()?;
            if let Ok(gen) = MultiTrainDataGenerator::new(gens, strategy_of(s.strategy), Some(seed)) {
                for (data, file_idx) in gen {
                    if let Ok(d) = data {
                        let info = TextDataInfo { file_idx, seed: seed + pos as u64, ..Default::default() };
                        let pipe = pipe.clone();
                        match std::panic::catch_unwind(std::panic::AssertUnwindSafe(move || pipe((d, info)))) {
                            Err(_) => return None,
                            Ok(Ok(it)) => table.push(xitem(&it)),
                            Ok(Err(_)) => (),
                        }
                    }
                    pos += 1;
                }
            }
        }
        let s2 = s.clone();
        let out = with_timeout(20_000, move || {
            let s = &s2;
            let run = |threads: u8, buffer: usize| -> Result<(Option<usize>, XBatches, Vec<String>), ()> {
                let args = TrainLoaderArgs {
                    files: paths.clone(),
                    pipeline: s.pipeline(),
                    strategy: strategy_of(s.strategy),
                    num_threads: threads,
                    buffer_size: buffer,
                    batch_limit: s.blim,
                    batch_limit_type: if s.ty == 0 { BatchLimitType::BatchSize } else { BatchLimitType::PaddedItemSize },
                    max_length: 512,
                    shuffle: s.shuffle,
                    prefetch_factor: s.prefetch,
                    sort: s.sort,
                    seed: opt_seed(s.seed),
                    skip: s.skip,
                    limit: if s.lim < 0 { None } else { Some(s.lim as usize) },
                    distributed: Some((s.rank, s.world)),
                    epoch: s.epoch,
                    fast_forward: s.ff,
                };
                let r = std::panic::catch_unwind(std::panic::AssertUnwindSafe(|| train_loader_batches(args, None)));
                reset_panic_hook();
                let (min_items, batches) = match r {
                    Ok(Ok(x)) => x,
                    _ => return Err(()),
                };
                let mut bs = vec![];
                let mut tensors = vec![];
                for (items, t) in batches {
                    let mut b = vec![];
                    for it in &items {
                        b.push(xitem(it));
                    }
                    bs.push(b);
                    tensors.push(format!("{:?}", t));
                }
                Ok((min_items, bs, tensors))
            };
            let a = run(s.threads, s.buffer);
            let b = run(s.threads2, s.buffer2);
            match (a, b) {
                (Err(()), Err(())) => Val::L(vec![Val::I(0)]),
                (Ok(a), Ok(b)) => {
                    let same = a == b;
                    let table_ok = a.1.iter().all(|b| b.iter().all(|it| table.contains(it)));
                    Val::L(vec![
                        Val::I(1),
                        Val::u(a.0.unwrap_or(UNKNOWN_ITEM)),
                        Val::L(
                            a.1.iter()
                                .map(|b| {
                                    Val::L(
                                        b.iter()
                                            .map(|(i, t, ids, labels)| {
                                                Val::L(vec![
                                                    Val::str(i),
                                                    Val::str(t),
                                                    Val::L(ids.iter().map(|x| Val::I(*x as i64)).collect()),
                                                    Val::L(labels.iter().map(|x| Val::I(*x as i64)).collect()),
                                                ])
                                            })
                                            .collect(),
                                    )
                                })
                                .collect(),
                        ),
                        Val::b(same),
                        Val::b(table_ok),
                    ])
                }
                // one run failed to start and the other did not
                _ => Val::L(vec![Val::I(-779)]),
            }
        });
        let n_items: usize = out
            .nth(2)
            .and_then(|v| v.as_l())
            .map(|bs| bs.iter().map(|b| b.as_l().map(|l| l.len()).unwrap_or(0)).sum())
            .unwrap_or(0);
        if s.shuffle {
            tags.push("shuffle".into());
        }
        if s.sort {
            tags.push("sort".into());
        }
        if s.threads > 0 || s.threads2 > 0 {
            tags.push("threaded".into());
        }
        if out.nth(0).and_then(|v| v.as_i()) == Some(0) {
            tags.push("rejected".into());
        }
        if n_items >= 2 && (s.threads > 0 || s.threads2 > 0) {
            tags.push("nt".into());
        }
        Some((out, tags))
    }
}

// ---------------------------------------------------------------------------------------------
// item line and byte loader line: every task, the modelled postprocessing, files as raw bytes
// (Pipeline_Tasks.v, C08_Bytes.v)
// ---------------------------------------------------------------------------------------------

/// the alphabet of the real character tokenizer (it has ONE: read from `get_vocab`, as C01's harness does)
fn char_alphabet() -> &'static Vec<char> {
    static A: std::sync::OnceLock<Vec<char>> = std::sync::OnceLock::new();
    A.get_or_init(tokc::alphabet)
}

fn merge_dir() -> String {
    std::env::temp_dir().join(format!("verif-c08-{}", std::process::id())).join("merges").to_string_lossy().to_string()
}

/// the scanner of the model takes the special tokens in list order, the code in hash order: same result when no token is a
/// prefix of another one and none is empty
fn tokens_scannable(tokens: &[String]) -> bool {
    for (i, a) in tokens.iter().enumerate() {
        if a.is_empty() || a.starts_with("<extra_token_") {
            return false;
        }
        for (j, b) in tokens.iter().enumerate() {
            if i != j && a != b && b.starts_with(a.as_str()) {
                return false;
            }
        }
    }
    tokens.len() <= 9
}

impl TokSpec {
    fn to_val(&self) -> Val {
        match &self.kind {
            TokKind::Byte => Val::L(vec![
                strs_val(&self.tokens),
                Val::str(&self.pad),
                strs_val(&self.prefix),
                strs_val(&self.suffix),
                Val::opt(self.padto, Val::u),
            ]),
            TokKind::Char { unk, g } => Val::L(vec![
                Val::I(1),
                strs_val(&self.tokens),
                Val::str(&self.pad),
                strs_val(&self.prefix),
                strs_val(&self.suffix),
                Val::str(unk),
                Val::b(*g),
                Val::L(char_alphabet().iter().map(|c| Val::I(*c as i64)).collect()),
            ]),
            TokKind::Bpe { table, maxv, file } => Val::L(vec![
                Val::I(2),
                strs_val(&self.tokens),
                Val::str(&self.pad),
                strs_val(&self.prefix),
                strs_val(&self.suffix),
                bpec::table_val(table),
                Val::opt(*maxv, Val::u),
                Val::opt(file.as_ref(), |b| Val::bytes(b)),
            ]),
        }
    }
    /// every tokenizer kind (lines -8 / -9)
    fn from_val_k(v: &Val) -> Option<TokSpec> {
        let t = v.as_l()?;
        match t.first()?.as_i() {
            None => TokSpec::from_val(v),
            Some(1) if t.len() == 8 => {
                let unk = t[5].to_string_lossy()?;
                let tok = TokSpec {
                    tokens: val_strs(&t[1])?,
                    pad: t[2].to_string_lossy()?,
                    prefix: val_strs(&t[3])?,
                    suffix: val_strs(&t[4])?,
                    padto: None,
                    kind: TokKind::Char { unk: unk.clone(), g: t[6].as_bool()? },
                };
                // the alphabet in the input must be the real one
                let alpha: Vec<i64> = t[7].as_l()?.iter().map(|x| x.as_i()).collect::<Option<_>>()?;
                if alpha != char_alphabet().iter().map(|c| *c as i64).collect::<Vec<_>>() {
                    return None;
                }
                let mut all = tok.tokens.clone();
                all.push(unk);
                if !tokens_scannable(&all) {
                    return None;
                }
                Some(tok)
            }
            Some(2) if t.len() == 8 => {
                let table = bpec::val_table(&t[5])?;
                if table.len() > 64 || table.iter().any(|e| e.len() > 16) {
                    return None;
                }
                let maxv = match t[6].as_l()? {
                    [] => None,
                    [k] => Some(k.as_usize()?),
                    _ => return None,
                };
                if maxv.map(|m| m > 100_000).unwrap_or(false) {
                    return None;
                }
                let file = match t[7].as_l()? {
                    [] => None,
                    [b] => Some(val_bytes(b)?),
                    _ => return None,
                };
                if let Some(fb) = &file {
                    if fb.len() > 4000 {
                        return None;
                    }
                    // a file that loads with ids other than 0..n-1 is outside the tokenizer models (tables are in id order)
                    let (path, mf) = bpec::write_merge_file(&merge_dir(), &table, Some(fb)).ok()?;
                    let _ = std::fs::remove_file(path);
                    if mf.loaded.is_some() && mf.well_formed().is_none() {
                        return None;
                    }
                }
                let tok = TokSpec {
                    tokens: val_strs(&t[1])?,
                    pad: t[2].to_string_lossy()?,
                    prefix: val_strs(&t[3])?,
                    suffix: val_strs(&t[4])?,
                    padto: None,
                    kind: TokKind::Bpe { table, maxv, file },
                };
                if !tokens_scannable(&tok.tokens) {
                    return None;
                }
                Some(tok)
            }
            _ => None,
        }
    }
    fn from_val(v: &Val) -> Option<TokSpec> {
        let t = v.as_l()?;
        if t.len() != 5 {
            return None;
        }
        let padto = match t[4].as_l()? {
            [] => None,
            [k] => Some(k.as_usize()?),
            _ => return None,
        };
        // pad_to_multiple_of must be a power of two (an assertion of the constructor); the model does not have it
        if padto.map(|k| !k.is_power_of_two() || k > 64).unwrap_or(false) {
            return None;
        }
        let tok = TokSpec { tokens: val_strs(&t[0])?, pad: t[1].to_string_lossy()?, prefix: val_strs(&t[2])?, suffix: val_strs(&t[3])?, padto, kind: TokKind::Byte };
        // the scanner of the model takes the special tokens in list order, the code in hash order: same result when no
        // token is a prefix of another one and none is empty
        for (i, a) in tok.tokens.iter().enumerate() {
            if a.is_empty() || a.starts_with("<extra_token_") {
                return None;
            }
            for (j, b) in tok.tokens.iter().enumerate() {
                if i != j && a != b && b.starts_with(a.as_str()) {
                    return None;
                }
            }
        }
        if tok.tokens.len() > 8 {
            return None;
        }
        Some(tok)
    }
    fn to_real(&self) -> TokenizerConfig {
        TokenizerConfig {
            tokenize: match &self.kind {
                TokKind::Byte => TokenizeConfig::Byte(ByteTokenizerConfig {
                    use_graphemes: false,
                    pad_to_multiple_of: self.padto,
                    groups: ByteGroups::Bytes,
                    aggregation: GroupAggregation::Mean,
                }),
                TokKind::Char { unk, g } => TokenizeConfig::Character(CharTokenizerConfig { use_graphemes: *g, unk_token: unk.clone() }),
                TokKind::Bpe { table, maxv, file } => {
                    // the merge file: written with the crate's own `save` (entry i gets id i) or the hand-made bytes; it stays
                    // until the process ends (the loader builds the tokenizer again at every `from_files`)
                    let path = match bpec::write_merge_file(&merge_dir(), table, file.as_deref()) {
                        Ok((p, _)) => p,
                        Err(_) => std::path::PathBuf::from("/nonexistent/merges"),
                    };
                    TokenizeConfig::BPE(BPETokenizerConfig { merge_file: path, max_vocab_size: *maxv, use_graphemes: table.len() % 2 == 0 })
                }
            },
            special: SpecialConfig {
                pad: self.pad.clone(),
                tokens: self.tokens.clone(),
                prefix: self.prefix.clone(),
                suffix: self.suffix.clone(),
            },
        }
    }
}

#[derive(Clone, Debug)]
enum TaskSpec {
    Wsc(bool, TokSpec),
    Gen(bool, TokSpec, bool, Option<String>),
    Cond(TokSpec, bool, TokSpec, bool),
    Class(TokSpec, bool, Vec<String>),
}

impl TaskSpec {
    fn to_val(&self) -> Val {
        match self {
            TaskSpec::Wsc(g, t) => Val::L(vec![Val::I(0), Val::b(*g), t.to_val()]),
            TaskSpec::Gen(m, t, ign, sep) => {
                Val::L(vec![Val::I(1), Val::b(*m), t.to_val(), Val::b(*ign), Val::opt(sep.as_ref(), |s| Val::str(s))])
            }
            TaskSpec::Cond(ti, ii, tt, it) => Val::L(vec![Val::I(2), ti.to_val(), Val::b(*ii), tt.to_val(), Val::b(*it)]),
            TaskSpec::Class(t, ign, cl) => Val::L(vec![Val::I(3), t.to_val(), Val::b(*ign), strs_val(cl)]),
        }
    }
    fn from_val(v: &Val) -> Option<TaskSpec> {
        TaskSpec::from_val_with(v, false)
    }
    /// `kinds`: every tokenizer kind is accepted (lines -8 / -9), else byte tokenizers only
    fn from_val_with(v: &Val, kinds: bool) -> Option<TaskSpec> {
        let tok = |v: &Val| if kinds { TokSpec::from_val_k(v) } else { TokSpec::from_val(v) };
        let l = v.as_l()?;
        Some(match (l.first()?.as_i()?, l.len()) {
            (0, 3) => TaskSpec::Wsc(l[1].as_bool()?, tok(&l[2])?),
            (1, 5) => {
                let sep = match l[4].as_l()? {
                    [] => None,
                    [s] => Some(s.to_string_lossy()?),
                    _ => return None,
                };
                TaskSpec::Gen(l[1].as_bool()?, tok(&l[2])?, l[3].as_bool()?, sep)
            }
            (2, 5) => TaskSpec::Cond(tok(&l[1])?, l[2].as_bool()?, tok(&l[3])?, l[4].as_bool()?),
            (3, 4) => {
                let cl = val_strs(&l[3])?;
                if cl.len() > 8 {
                    return None;
                }
                TaskSpec::Class(tok(&l[1])?, l[2].as_bool()?, cl)
            }
            _ => return None,
        })
    }
    fn to_real(&self) -> TrainTaskConfig {
        match self {
            TaskSpec::Wsc(g, t) => TrainTaskConfig::WhitespaceCorrection(*g, t.to_real()),
            TaskSpec::Gen(m, t, ign, sep) => TrainTaskConfig::Generation(*m, t.to_real(), *ign, sep.clone()),
            TaskSpec::Cond(ti, ii, tt, it) => TrainTaskConfig::ConditionalGeneration(ti.to_real(), *ii, tt.to_real(), *it),
            TaskSpec::Class(t, ign, cl) => TrainTaskConfig::Classification(t.to_real(), *ign, cl.clone()),
        }
    }
    fn toks_mut(&mut self) -> Vec<&mut TokSpec> {
        match self {
            TaskSpec::Wsc(_, t) | TaskSpec::Gen(_, t, _, _) | TaskSpec::Class(t, _, _) => vec![t],
            TaskSpec::Cond(a, _, b, _) => vec![a, b],
        }
    }
    fn toks(&self) -> Vec<&TokSpec> {
        match self {
            TaskSpec::Wsc(_, t) | TaskSpec::Gen(_, t, _, _) | TaskSpec::Class(t, _, _) => vec![t],
            TaskSpec::Cond(a, _, b, _) => vec![a, b],
        }
    }
    fn kind_tags(&self, tags: &mut Vec<String>) {
        let ts = self.toks();
        for t in &ts {
            let n = match &t.kind {
                TokKind::Byte => "tok-byte",
                TokKind::Char { g: true, .. } => "tok-char-g",
                TokKind::Char { .. } => "tok-char",
                TokKind::Bpe { file: Some(_), .. } => "tok-bpe-file",
                TokKind::Bpe { maxv: Some(_), .. } => "tok-bpe-limit",
                TokKind::Bpe { .. } => "tok-bpe",
            };
            if !tags.contains(&n.to_string()) {
                tags.push(n.to_string());
            }
        }
        if ts.len() == 2 && std::mem::discriminant(&ts[0].kind) != std::mem::discriminant(&ts[1].kind) {
            tags.push("tok-mixed".into());
        }
    }
    fn name(&self) -> &'static str {
        match self {
            TaskSpec::Wsc(..) => "task-wsc",
            TaskSpec::Gen(..) => "task-gen",
            TaskSpec::Cond(..) => "task-cond",
            TaskSpec::Class(..) => "task-class",
        }
    }
}

#[derive(Clone, Debug, PartialEq)]
enum QCfg {
    None,
    Chain(Vec<QCfg>),
    Switch(Vec<QCfg>, Vec<f64>),
    OnMark(String, String, Vec<QCfg>),
    SwitchOnMark(String, Vec<String>, Vec<QCfg>),
    Clip,
    /// a reference to entry k of the TokenMasking table of the lines -5 / -6 (topic N); on the wire (6 k)
    Mask(usize),
}

impl QCfg {
    fn to_val(&self) -> Val {
        let sub = |l: &Vec<QCfg>| Val::L(l.iter().map(|c| c.to_val()).collect());
        match self {
            QCfg::None => Val::L(vec![Val::I(0)]),
            QCfg::Chain(l) => Val::L(vec![Val::I(1), sub(l)]),
            QCfg::Switch(l, ps) => Val::L(vec![Val::I(2), sub(l), Val::L(ps.iter().map(|p| f64_val(*p)).collect())]),
            QCfg::OnMark(k, v, l) => Val::L(vec![Val::I(3), Val::str(k), Val::str(v), sub(l)]),
            QCfg::SwitchOnMark(k, vs, l) => Val::L(vec![Val::I(4), Val::str(k), strs_val(vs), sub(l)]),
            QCfg::Clip => Val::L(vec![Val::I(5)]),
            QCfg::Mask(k) => Val::L(vec![Val::I(6), Val::u(*k)]),
        }
    }
    fn from_val(v: &Val, depth: usize) -> Option<QCfg> {
        if depth > 5 {
            return None;
        }
        let l = v.as_l()?;
        let list = |v: &Val| -> Option<Vec<QCfg>> {
            let l = v.as_l()?;
            if l.len() > 6 {
                return None;
            }
            l.iter().map(|c| QCfg::from_val(c, depth + 1)).collect()
        };
        Some(match (l.first()?.as_i()?, l.len()) {
            (0, 1) => QCfg::None,
            (1, 2) => QCfg::Chain(list(&l[1])?),
            (2, 3) => {
                let ps = l[2].as_l()?;
                if ps.len() > 8 {
                    return None;
                }
                QCfg::Switch(list(&l[1])?, ps.iter().map(val_f64).collect::<Option<Vec<f64>>>()?)
            }
            (3, 4) => QCfg::OnMark(l[1].to_string_lossy()?, l[2].to_string_lossy()?, list(&l[3])?),
            (4, 4) => {
                let vs = val_strs(&l[2])?;
                if vs.len() > 8 {
                    return None;
                }
                QCfg::SwitchOnMark(l[1].to_string_lossy()?, vs, list(&l[3])?)
            }
            (5, 1) => QCfg::Clip,
            _ => return None,
        })
    }
    fn to_real(&self) -> PostprocessingFnConfig {
        use PostprocessingFnConfig as Q;
        let sub = |l: &Vec<QCfg>| l.iter().map(|c| c.to_real()).collect::<Vec<_>>();
        match self {
            QCfg::None => Q::None,
            QCfg::Chain(l) => Q::Chain(sub(l)),
            QCfg::Switch(l, ps) => Q::Switch(sub(l), ps.clone()),
            QCfg::OnMark(k, v, l) => Q::OnMark(k.clone(), v.clone(), sub(l)),
            QCfg::SwitchOnMark(k, vs, l) => Q::SwitchOnMark(k.clone(), vs.clone(), sub(l)),
            QCfg::Clip => Q::ClipLength,
            QCfg::Mask(_) => unreachable!("mask references are resolved by x_qcfg_to_real"),
        }
    }
    fn neg_switch(&self) -> bool {
        match self {
            QCfg::Chain(l) | QCfg::OnMark(_, _, l) | QCfg::SwitchOnMark(_, _, l) => l.iter().any(|c| c.neg_switch()),
            QCfg::Switch(l, ps) => ps.iter().any(|p| *p < 0.0) || l.iter().any(|c| c.neg_switch()),
            _ => false,
        }
    }
    fn names(&self, out: &mut Vec<&'static str>) {
        let n = match self {
            QCfg::None => "q-none",
            QCfg::Chain(l) => {
                l.iter().for_each(|c| c.names(out));
                "q-chain"
            }
            QCfg::Switch(l, _) => {
                l.iter().for_each(|c| c.names(out));
                "q-switch"
            }
            QCfg::OnMark(_, _, l) => {
                l.iter().for_each(|c| c.names(out));
                "q-onmark"
            }
            QCfg::SwitchOnMark(_, _, l) => {
                l.iter().for_each(|c| c.names(out));
                "q-switchonmark"
            }
            QCfg::Clip => "q-clip",
            QCfg::Mask(..) => "q-mask",
        };
        if !out.contains(&n) {
            out.push(n);
        }
    }
}

fn mcfg_neg_switch(c: &MCfg) -> bool {
    match c {
        MCfg::Chain(l) => l.iter().any(mcfg_neg_switch),
        MCfg::Switch(l, ps) => ps.iter().any(|p| *p < 0.0) || l.iter().any(mcfg_neg_switch),
        _ => false,
    }
}

/// (per_source, configurations) <-> (0 c) | (1 (c ..))
fn pcfg_val<T>(per_source: bool, cfgs: &[T], f: impl Fn(&T) -> Val) -> Val {
    if per_source {
        Val::L(vec![Val::I(1), Val::L(cfgs.iter().map(f).collect())])
    } else {
        Val::L(vec![Val::I(0), f(&cfgs[0])])
    }
}
fn val_pcfg<T>(v: &Val, f: impl Fn(&Val) -> Option<T>) -> Option<(bool, Vec<T>)> {
    let pc = v.as_l()?;
    if pc.len() != 2 {
        return None;
    }
    match pc[0].as_i()? {
        0 => Some((false, vec![f(&pc[1])?])),
        1 => {
            let l = pc[1].as_l()?;
            if l.len() > 4 {
                return None;
            }
            Some((true, l.iter().map(f).collect::<Option<Vec<T>>>()?))
        }
        _ => None,
    }
}

#[derive(Clone, Debug)]
struct PipeSpec {
    per_source: bool,
    cfgs: Vec<MCfg>,
    task: TaskSpec,
    q_per_source: bool,
    qcfgs: Vec<QCfg>,
    maxlen: usize,
}

impl PipeSpec {
    fn from_vals(p: &Val, t: &Val, q: &Val, m: &Val) -> Option<PipeSpec> {
        let (per_source, cfgs) = val_pcfg(p, |c| MCfg::from_val(c, 0))?;
        let (q_per_source, qcfgs) = val_pcfg(q, |c| QCfg::from_val(c, 0))?;
        let maxlen = m.as_usize()?;
        if maxlen > 100_000 || cfgs.iter().any(mcfg_neg_switch) || qcfgs.iter().any(|c| c.neg_switch()) {
            return None;
        }
        Some(PipeSpec { per_source, cfgs, task: TaskSpec::from_val(t)?, q_per_source, qcfgs, maxlen })
    }
    fn vals(&self) -> [Val; 4] {
        [
            pcfg_val(self.per_source, &self.cfgs, |c| c.to_val()),
            self.task.to_val(),
            pcfg_val(self.q_per_source, &self.qcfgs, |c| c.to_val()),
            Val::u(self.maxlen),
        ]
    }
    fn to_real(&self) -> TrainPipelineConfig {
        TrainPipelineConfig {
            preprocessing: if self.per_source {
                PreprocessingConfig::PerSource(self.cfgs.iter().map(|c| c.to_real()).collect())
            } else {
                PreprocessingConfig::Global(self.cfgs[0].to_real())
            },
            task: self.task.to_real(),
            postprocessing: if self.q_per_source {
                PostprocessingConfig::PerSource(self.qcfgs.iter().map(|c| c.to_real()).collect())
            } else {
                PostprocessingConfig::Global(self.qcfgs[0].to_real())
            },
        }
    }
    fn tags(&self, tags: &mut Vec<String>) {
        let mut names = vec![];
        self.cfgs.iter().for_each(|c| c.names(&mut names));
        self.qcfgs.iter().for_each(|c| c.names(&mut names));
        tags.extend(names.iter().map(|n| n.to_string()));
        tags.push(self.task.name().to_string());
    }
}

fn ids_u32(l: &[u32]) -> Val {
    Val::L(l.iter().map(|x| Val::I(*x as i64)).collect())
}
fn ids_i32(l: &[i32]) -> Val {
    Val::L(l.iter().map(|x| Val::I(*x as i64)).collect())
}

fn tinput_val(t: &text_utils::data::TrainTaskInput) -> Val {
    use text_utils::data::TrainTaskInput as T;
    match t {
        T::Classification { token_ids, pad_token_id, label } => {
            Val::L(vec![Val::I(0), ids_u32(token_ids), Val::I(*pad_token_id as i64), Val::I(*label as i64)])
        }
        T::SequenceClassification { token_ids, pad_token_id, labels } => {
            Val::L(vec![Val::I(1), ids_u32(token_ids), Val::I(*pad_token_id as i64), ids_i32(labels)])
        }
        T::Generation { token_ids, pad_token_id, labels } => {
            Val::L(vec![Val::I(2), ids_u32(token_ids), Val::I(*pad_token_id as i64), ids_i32(labels)])
        }
        T::ConditionalGeneration { token_ids, pad_token_id, target_token_ids, target_pad_token_id, labels } => Val::L(vec![
            Val::I(3),
            ids_u32(token_ids),
            Val::I(*pad_token_id as i64),
            ids_u32(target_token_ids),
            Val::I(*target_pad_token_id as i64),
            ids_i32(labels),
        ]),
    }
}

fn titem_val(it: &TrainItem) -> Val {
    Val::L(vec![Val::str(it.data.verif_input()), Val::str(it.data.verif_target()), tinput_val(&it.input)])
}

fn gen_tok_plain() -> TokSpec {
    TokSpec {
        tokens: ["<unk>", "<bos>", "<eos>", "<pad>"].iter().map(|s| s.to_string()).collect(),
        pad: "<pad>".to_string(),
        prefix: vec![],
        suffix: vec![],
        padto: None,
        kind: TokKind::Byte,
    }
}

/// a merge table made from the words of the texts the tokenizer will see (whitespace-prefixed, as `\s+\S+|^\S+` cuts them):
/// a "training" that picks random adjacent pairs of the current segmentation, so that merges apply and build on each other;
/// now and then an entry that never applies
fn gen_bpe_table(rng: &mut Rng, texts: &[String]) -> Vec<Vec<u8>> {
    let mut words: Vec<Vec<Vec<u8>>> = vec![];
    for t in texts {
        for w in bpec::split_words(t) {
            words.push(w.bytes().map(|b| vec![b]).collect());
        }
    }
    let n = match rng.below(6) {
        0 => 0,
        1 => rng.range(1, 3),
        _ => rng.range(2, 14),
    };
    let mut table: Vec<Vec<u8>> = vec![];
    for _ in 0..n * 3 {
        if table.len() >= n {
            break;
        }
        if words.is_empty() || rng.chance(1, 8) {
            let e: Vec<u8> = (0..rng.range(2, 3)).map(|_| *rng.pick(b"ab <>e\xc3\xa9")).collect();
            if !table.contains(&e) {
                table.push(e);
            }
            continue;
        }
        let wi = rng.below(words.len());
        if words[wi].len() < 2 {
            continue;
        }
        let i = rng.below(words[wi].len() - 1);
        let merged = [words[wi][i].as_slice(), words[wi][i + 1].as_slice()].concat();
        if table.contains(&merged) {
            continue;
        }
        table.push(merged.clone());
        for w in words.iter_mut() {
            let mut j = 0;
            while j + 1 < w.len() {
                if [w[j].as_slice(), w[j + 1].as_slice()].concat() == merged {
                    w[j] = merged.clone();
                    w.remove(j + 1);
                }
                j += 1;
            }
        }
    }
    table
}

/// give the tokenizers of a task another kind (the special configuration stays, so that what the generators arranged around
/// prefix / suffix counts stays true); `texts`: what the tokenizers will roughly see
fn kindify(rng: &mut Rng, task: &mut TaskSpec, texts: &[String]) {
    let n_toks = task.toks().len();
    let force = rng.below(n_toks); // at least this one is no byte tokenizer
    for (k, t) in task.toks_mut().into_iter().enumerate() {
        let c = rng.below(20);
        if c < 2 && k != force {
            continue;
        }
        t.padto = None;
        if c < 11 {
            t.kind = TokKind::Char {
                unk: match rng.below(8) {
                    0 => "<u>".to_string(),
                    1 => "<pad>".to_string(),
                    _ => "<unk>".to_string(),
                },
                g: rng.chance(1, 2),
            };
        } else {
            if rng.chance(1, 6) {
                // a token listed twice: `tokens.len()` of the vocabulary limit counts it twice, the vocabulary once
                t.tokens.push("<eos>".to_string());
            }
            let mut table = gen_bpe_table(rng, texts);
            let n = table.len();
            let base = 256 + t.tokens.len();
            let maxv = match rng.below(10) {
                0..=4 => None,
                5 => Some(rng.below(300)),
                6 => Some(base),
                7 => Some(base + n),
                _ => Some(base + rng.below(n + 2)),
            };
            let mut file = None;
            if rng.chance(1, 5) {
                let (bytes, _) = bpec::gen_merge_file(rng, &table);
                if let Ok((path, mf)) = bpec::write_merge_file(&merge_dir(), &table, Some(&bytes)) {
                    let _ = std::fs::remove_file(path);
                    match (&mf.loaded, mf.well_formed()) {
                        (Some(_), Some(t2)) => {
                            table = t2;
                            file = Some(bytes);
                        }
                        // the loader refuses the file: the constructor of the task panics — a few such cases
                        (None, _) if rng.chance(1, 5) => file = Some(bytes),
                        _ => {}
                    }
                }
            }
            t.kind = TokKind::Bpe { table, maxv, file };
        }
    }
}

fn gen_tok(rng: &mut Rng) -> TokSpec {
    TokSpec {
        tokens: ["<unk>", "<bos>", "<eos>", "<pad>"].iter().map(|s| s.to_string()).collect(),
        pad: "<pad>".to_string(),
        prefix: match rng.below(4) {
            0 | 1 => vec![],
            2 => vec!["<bos>".to_string()],
            _ => vec!["<bos>".to_string(), "<unk>".to_string()],
        },
        suffix: match rng.below(3) {
            0 => vec![],
            1 => vec!["<eos>".to_string()],
            _ => vec!["<eos>".to_string(), "<pad>".to_string()],
        },
        padto: if rng.chance(1, 4) { Some(8) } else { None },
        kind: TokKind::Byte,
    }
}

const CLASSES: &[&str] = &["pos", "neg", "neu", "é", ""];

fn gen_task(rng: &mut Rng) -> TaskSpec {
    match rng.below(8) {
        0 | 1 => TaskSpec::Wsc(rng.chance(1, 3), gen_tok(rng)),
        2 | 3 | 4 => TaskSpec::Gen(
            rng.chance(1, 2),
            gen_tok(rng),
            rng.chance(1, 2),
            match rng.below(4) {
                0 => None,
                1 => Some(" >> ".to_string()),
                2 => Some("<eos>".to_string()),
                _ => Some("".to_string()),
            },
        ),
        5 | 6 => TaskSpec::Cond(gen_tok(rng), rng.chance(1, 2), gen_tok(rng), rng.chance(1, 2)),
        _ => {
            let n = rng.range(2, 4);
            let mut cl: Vec<String> = (0..n).map(|i| CLASSES[i].to_string()).collect();
            // the Rust constructor does not refuse a class listed twice: the later index wins
            if rng.chance(1, 3) {
                cl.push(rng.pick(&["pos", "neg"]).to_string());
            }
            TaskSpec::Class(gen_tok(rng), rng.chance(1, 2), cl)
        }
    }
}

/// a postprocessing configuration; `marks` = (key, values) pairs the preprocessing is known to set (so that
/// `switch_on_mark` does not panic); `safe` = no configuration that can panic at a call
fn gen_qcfg(rng: &mut Rng, depth: usize, safe: bool) -> QCfg {
    if depth == 0 || rng.chance(2, 5) {
        return match rng.below(4) {
            0 => QCfg::None,
            _ => QCfg::Clip,
        };
    }
    let sub = |rng: &mut Rng, n: usize| -> Vec<QCfg> { (0..n).map(|_| gen_qcfg(rng, depth - 1, safe)).collect() };
    match rng.below(5) {
        0 => {
            let n = rng.below(4);
            QCfg::Chain(sub(rng, n))
        }
        1 => {
            let n = if rng.chance(1, 20) && !safe { 0 } else { rng.range(1, 3) };
            let ps = if n == 0 { vec![] } else { gen_switch_probs(rng, n) };
            let ps = if safe && ps.len() != n { (0..n).map(|_| 1.0 / n as f64).collect() } else { ps };
            QCfg::Switch(sub(rng, n), ps)
        }
        2 | 3 => {
            let n = rng.below(3);
            // values with prefix relations and the empty value: equality, not a prefix test
            QCfg::OnMark(rng.pick(&["k", "k", "m", "z"]).to_string(), rng.pick(&["v", "w", "o", "", "vv"]).to_string(), sub(rng, n))
        }
        _ => {
            // the preprocessing of the safe family sets k = v or k = w
            let mut vs: Vec<String> = vec!["v".into(), "w".into()];
            if rng.chance(1, 3) {
                vs.push("old".into());
            }
            if !safe && rng.chance(1, 8) {
                vs.push("v".into()); // not unique: the constructor panics
            }
            let n = if !safe && rng.chance(1, 10) { vs.len() + 1 } else { vs.len() };
            QCfg::SwitchOnMark("k".into(), vs, sub(rng, n))
        }
    }
}

fn q_uses_switch_on_mark(c: &QCfg) -> bool {
    match c {
        QCfg::Chain(l) | QCfg::Switch(l, _) | QCfg::OnMark(_, _, l) => l.iter().any(q_uses_switch_on_mark),
        QCfg::SwitchOnMark(..) => true,
        _ => false,
    }
}

/// texts for the generation / classification tasks: special tokens inside, also split over input and target
fn gen_text_sp(rng: &mut Rng, max: usize) -> String {
    let mut s = gen_text(rng, max);
    if rng.chance(1, 4) {
        let t = *rng.pick(&["<eos>", "<bos>", "<pad>", "<unk>", "<pa", "d>", "<eos", "<", ">"]);
        let at = if s.is_empty() { 0 } else { rng.below(s.chars().count() + 1) };
        let byte_at = s.char_indices().nth(at).map(|(i, _)| i).unwrap_or(s.len());
        s.insert_str(byte_at, t);
    }
    s
}

fn gen_item_texts(rng: &mut Rng, task: &TaskSpec) -> (String, String) {
    match task {
        TaskSpec::Wsc(..) => gen_line(rng).unwrap_or_else(|| ("a b".into(), "ab".into())),
        TaskSpec::Class(_, _, cl) => {
            let t = if rng.chance(1, 8) { "other".to_string() } else { rng.pick(cl).clone() };
            (gen_text_sp(rng, 10), t)
        }
        TaskSpec::Gen(..) if rng.chance(1, 10) => {
            // a special token split over input and target
            let (a, b) = *rng.pick(&[("<pa", "d>"), ("x<eos", ">y"), ("<", "bos>"), ("<eos>", "<eos>")]);
            (a.to_string(), b.to_string())
        }
        _ => (gen_text_sp(rng, 10), gen_text_sp(rng, 10)),
    }
}

/// the preprocessing of the two new lines: the families of the exact line, now and then with JsonDecode and marks
fn gen_pre_cfg(rng: &mut Rng, task: &TaskSpec, mark: bool) -> MCfg {
    let base = match task {
        TaskSpec::Wsc(..) => gen_pipeline_cfg(rng),
        _ => match rng.below(6) {
            0 => MCfg::None,
            1 => MCfg::Clean(false, rng.chance(1, 2)),
            2 => MCfg::Chain(vec![MCfg::Clean(false, false), MCfg::Prefix(false, "> ".into())]),
            3 => MCfg::Switch(vec![MCfg::Suffix(false, " <".into()), MCfg::None], vec![0.5, 0.5]),
            4 => MCfg::WsCorrupt(false, 0.3, 0.3, false),
            _ => safe_cfg(gen_cfg(rng, 2), 24),
        },
    };
    let base = if rng.chance(1, 5) {
        // spelling corruption (the mode without files), alone or next to the whitespace corruption
        let sp = MCfg::Spell(rng.chance(1, 4), rng.chance(1, 2), rng.below(8) as u8, rng.below(8) as u8);
        match rng.below(3) {
            0 => sp,
            1 => MCfg::Chain(vec![base, sp]),
            _ => MCfg::Switch(vec![sp, base], vec![0.5, 0.5]),
        }
    } else {
        base
    };
    if !mark {
        return base;
    }
    // sets the mark k to v or w, chosen from the item's seed; m to a value that has another one as a prefix
    MCfg::Chain(vec![
        base,
        MCfg::Switch(vec![MCfg::Mark("k".into(), "v".into()), MCfg::Mark("k".into(), "w".into())], vec![0.5, 0.5]),
        MCfg::Mark("m".into(), rng.pick(&["vv", "old", "w", ""]).to_string()),
    ])
}

fn gen_pipe_spec(rng: &mut Rng, nfiles: usize, safe: bool) -> PipeSpec {
    let task = gen_task(rng);
    let q_per_source = rng.chance(1, 6);
    let qcfgs: Vec<QCfg> = (0..if q_per_source { nfiles } else { 1 }).map(|_| gen_qcfg(rng, 2, safe)).collect();
    let mark = qcfgs.iter().any(q_uses_switch_on_mark) || rng.chance(1, 4);
    let per_source = rng.chance(1, 6);
    let mut cfgs: Vec<MCfg> = (0..if per_source { nfiles } else { 1 }).map(|_| gen_pre_cfg(rng, &task, mark)).collect();
    if !safe && rng.chance(1, 6) {
        // an unprotected configuration: substring bounds that can panic, a mark that may be missing
        cfgs[0] = gen_cfg(rng, 2);
    }
    PipeSpec {
        per_source,
        cfgs,
        task,
        q_per_source,
        qcfgs,
        maxlen: *rng.pick(&[0, 1, 2, 3, 5, 8, 13, 512, 512, 512]),
    }
}

fn item_gen(rng: &mut Rng) -> Val {
    let mut spec = gen_pipe_spec(rng, 2, false);
    let (mut input, target) = gen_item_texts(rng, &spec.task);
    // JsonDecode: the input is a json string literal (now and then not)
    if rng.chance(1, 5) {
        let lit = match rng.below(6) {
            0 => input.clone(),
            1 => format!(" {} \n", serde_json::to_string(&input).unwrap()),
            2 => format!("{} x", serde_json::to_string(&input).unwrap()),
            3 => "[\"a\"]".to_string(),
            4 => "\"a\\u00e9\\ud83d\\ude00\\n\"".to_string(),
            _ => serde_json::to_string(&input).unwrap(),
        };
        input = lit;
        let c0 = spec.cfgs[0].clone();
        spec.cfgs[0] = MCfg::Chain(vec![MCfg::JsonDecode(false), c0]);
    }
    let seed = if rng.chance(1, 6) { rng.next_u64() } else { rng.below(5000) as u64 };
    let mut marks = HashMap::new();
    if rng.chance(1, 2) {
        marks.insert("k".to_string(), rng.pick(&["old", "v", "w", "vv", "", "wv"]).to_string());
    }
    if rng.chance(1, 10) {
        marks.insert("z".to_string(), "v".to_string());
    }
    let [p, t, q, m] = spec.vals();
    Val::L(vec![Val::I(-4), p, t, q, m, Val::str(&input), Val::str(&target), hl(seed), Val::u(rng.below(3)), marks_val(&marks)])
}

fn item_run(input: &Val) -> Option<(Val, Vec<String>)> {
    let l = input.as_l()?;
    if l.len() != 10 {
        return None;
    }
    let spec = PipeSpec::from_vals(&l[1], &l[2], &l[3], &l[4])?;
    let inp = l[5].to_string_lossy()?;
    let tgt = l[6].to_string_lossy()?;
    if inp.chars().count() > 400 || tgt.chars().count() > 400 {
        return None;
    }
    let info = TextDataInfo { seed: un_hl(&l[7])?, file_idx: l[8].as_usize()?, marks: val_marks(&l[9])? };
    let mut tags = vec!["item".to_string()];
    spec.tags(&mut tags);
    let real = spec.to_real();
    let maxlen = spec.maxlen;
    let pipe = match std::panic::catch_unwind(move || train_pipeline(real, maxlen)) {
        Ok(Ok((pipe, _))) => pipe,
        _ => {
            tags.push("rejected".into());
            return Some((Val::L(vec![Val::I(0)]), tags));
        }
    };
    let once = || -> Vec<Val> {
        let data = text_utils::data::TrainData::new(inp.clone(), Some(tgt.clone()));
        let info = info.clone();
        let pipe = pipe.clone();
        match std::panic::catch_unwind(std::panic::AssertUnwindSafe(move || pipe((data, info)))) {
            Err(_) => vec![Val::I(-777)],
            Ok(Err(_)) => vec![Val::I(2)],
            Ok(Ok(it)) => vec![Val::I(1), Val::str(it.data.verif_input()), Val::str(it.data.verif_target()), tinput_val(&it.input)],
        }
    };
    let first = once();
    let second = once();
    let third = std::thread::scope(|s| s.spawn(|| once()).join().ok());
    let rep = second == first && third.as_ref() == Some(&first);
    let mut out = first;
    match out[0] {
        Val::I(1) => {
            tags.push("ok".into());
            if spec.cfgs.iter().map(|c| c.nodes()).sum::<usize>() + spec.qcfgs.iter().filter(|q| **q != QCfg::None).count() >= 2 {
                tags.push("nt".into());
            }
            out.push(Val::b(rep));
        }
        Val::I(2) => {
            tags.push("err".into());
            out.push(Val::b(rep));
        }
        _ => {
            tags.push("panic".into());
            if !rep {
                out = vec![Val::I(-779)];
            }
        }
    }
    Some((Val::L(out), tags))
}

// ---- files as bytes -------------------------------------------------------------------------

/// json.dumps(s) of Python with ensure_ascii
fn py_string(s: &str) -> String {
    let mut o = String::from("\"");
    for c in s.chars() {
        match c {
            '"' => o.push_str("\\\""),
            '\\' => o.push_str("\\\\"),
            '\n' => o.push_str("\\n"),
            '\r' => o.push_str("\\r"),
            '\t' => o.push_str("\\t"),
            '\u{8}' => o.push_str("\\b"),
            '\u{c}' => o.push_str("\\f"),
            ' '..='~' => o.push(c),
            _ => {
                let mut b = [0u16; 2];
                for u in c.encode_utf16(&mut b) {
                    o.push_str(&format!("\\u{:04x}", u));
                }
            }
        }
    }
    o.push('"');
    o
}

/// the bytes of a jsonl line (no terminator) holding the item, in one of several writers' styles
fn item_line_bytes(rng: &mut Rng, i: &str, t: &str) -> Vec<u8> {
    let style = rng.below(6);
    let q = |s: &str| -> String {
        match style {
            1 => py_string(s),
            _ => serde_json::to_string(s).unwrap(),
        }
    };
    let line = match style {
        0 if i == t => format!("{{\"input\":{}}}", q(i)),
        0 => format!("{{\"input\":{},\"target\":{}}}", q(i), q(t)),
        1 => format!("{{\"input\": {}, \"target\": {}}}", q(i), q(t)),
        2 => format!("{{\"target\": {}, \"input\": {}, \"extra\": [1, {{\"input\": \"inner\"}}, null]}}", q(t), q(i)),
        // a key given twice: the last one counts
        3 => format!("{{\"input\": \"first\", \"target\": {}, \"input\": {}}}", q(t), q(i)),
        4 => format!(" \t{{ \"input\" : {} ,\t\"target\":{} }} \t", q(i), q(t)),
        _ => format!("{{\"inpu\\u0074\":{},\"\\u0074arget\":{},\"id\":1e2}}", q(i), q(t)),
    };
    let mut b = line.into_bytes();
    // a text with U+E000 stands for "invalid UTF-8 at this place" (only in the styles that write it unescaped): the reader
    // turns the bytes into U+FFFD, the line stays an item
    if style != 1 {
        let bad: &[u8] = *rng.pick(&[&b"\xff"[..], b"\xc3", b"\xe2\x82", b"\xed\xa0\x80", b"\xf0\x9f\x98", b"\xc0\xaf"]);
        let pat = "\u{e000}".as_bytes();
        while let Some(pos) = b.windows(pat.len()).position(|w| w == pat) {
            b.splice(pos..pos + pat.len(), bad.iter().cloned());
        }
    }
    b
}

/// a line that is no item (the loader drops it, its position counts)
fn broken_line_bytes(rng: &mut Rng) -> Vec<u8> {
    const ZOO: &[&[u8]] = &[
        b"",
        b" ",
        b"\r",
        b"{\"input\": \"broken",
        b"{\"target\": \"no input\"}",
        b"{\"input\": 5, \"target\": \"x\"}",
        b"{\"input\": \"x\", \"target\": [1]}",
        b"{\"input\": \"x\", \"target\": null}",
        b"[\"input\", \"x\"]",
        b"\"input\"",
        b"null",
        b"{\"input\": \"a\"} x",
        b"{\"input\": \"a\"}{\"input\": \"b\"}",
        b"{\"input\": \"a\",}",
        b"{\"Input\": \"a\"}",
        b"{\"input\": \"a\tb\"}",
        b"{\"input\": \"\\ud800\"}",
        b"{\"input\": \"a\", \"n\": 1e999}",
        b"{\"input\": \"a\", \"n\": 01}",
        b"\xef\xbb\xbf{\"input\": \"a\"}",
        b"{\"input\": \"a\"\xff}",
        b"\xff\xfe",
        b"{'input': 'a'}",
        b"{\"input\": \"x\", \"input\": 3}",
    ];
    if rng.chance(1, 12) {
        // nesting beyond serde_json's recursion limit in a key the loader does not read
        let n = *rng.pick(&[127usize, 128, 129]);
        let mut b = format!("{{\"input\": \"deep\", \"z\": {}1{}}}", "[".repeat(n), "]".repeat(n)).into_bytes();
        if n < 128 {
            // this one IS an item; keep it broken by cutting the end
            b.pop();
        }
        return b;
    }
    rng.pick(ZOO).to_vec()
}

fn gen_bfile(rng: &mut Rng, lines: &[Option<(String, String)>]) -> Vec<u8> {
    let mut f = vec![];
    let crlf_file = rng.chance(1, 5);
    for (k, l) in lines.iter().enumerate() {
        match l {
            Some((i, t)) => f.extend_from_slice(&item_line_bytes(rng, i, t)),
            None => f.extend_from_slice(&broken_line_bytes(rng)),
        }
        if k + 1 == lines.len() && rng.chance(1, 3) {
            break; // no final newline
        }
        if crlf_file || rng.chance(1, 8) {
            f.push(b'\r');
        }
        f.push(b'\n');
    }
    f
}

#[derive(Clone, Debug)]
struct BSpec {
    files: Vec<Vec<u8>>,
    strategy: i64,
    seed: u64,
    epoch: usize,
    pipe: PipeSpec,
    lim: i64,
    skip: usize,
    ff: usize,
    rank: usize,
    world: usize,
    sort: bool,
    shuffle: bool,
    prefetch: usize,
    blim: usize,
    ty: i64,
    threads: u8,
    buffer: usize,
    threads2: u8,
    buffer2: usize,
}

impl BSpec {
    fn to_val(&self) -> Val {
        let [p, t, q, m] = self.pipe.vals();
        Val::L(vec![
            Val::I(-3),
            Val::L(self.files.iter().map(|f| Val::bytes(f)).collect()),
            Val::I(self.strategy),
            seed_val(self.seed),
            Val::u(self.epoch),
            p,
            t,
            q,
            m,
            Val::I(self.lim),
            Val::u(self.skip),
            Val::u(self.ff),
            Val::u(self.rank),
            Val::u(self.world),
            Val::b(self.sort),
            Val::b(self.shuffle),
            Val::u(self.prefetch),
            Val::u(self.blim),
            Val::I(self.ty),
            Val::u(self.threads as usize),
            Val::u(self.buffer),
            Val::u(self.threads2 as usize),
            Val::u(self.buffer2),
        ])
    }

    fn from_val(v: &Val) -> Option<BSpec> {
        let l = v.as_l()?;
        if l.len() != 23 {
            return None;
        }
        let mut files = vec![];
        for f in l[1].as_l()? {
            let b: Vec<u8> = f.as_l()?.iter().map(|x| x.as_i().and_then(|i| u8::try_from(i).ok())).collect::<Option<_>>()?;
            if b.len() > 8000 {
                return None;
            }
            files.push(b);
        }
        if files.is_empty() || files.len() > 4 {
            return None;
        }
        let s = BSpec {
            files,
            strategy: l[2].as_i()?,
            seed: val_seed(&l[3])?,
            epoch: l[4].as_usize()?,
            pipe: PipeSpec::from_vals(&l[5], &l[6], &l[7], &l[8])?,
            lim: l[9].as_i()?,
            skip: l[10].as_usize()?,
            ff: l[11].as_usize()?,
            rank: l[12].as_usize()?,
            world: l[13].as_usize()?,
            sort: l[14].as_bool()?,
            shuffle: l[15].as_bool()?,
            prefetch: l[16].as_usize()?,
            blim: l[17].as_usize()?,
            ty: l[18].as_i()?,
            threads: u8::try_from(l[19].as_usize()?).ok()?,
            buffer: l[20].as_usize()?,
            threads2: u8::try_from(l[21].as_usize()?).ok()?,
            buffer2: l[22].as_usize()?,
        };
        if !(0..3).contains(&s.strategy) || !(0..2).contains(&s.ty) || eff_seed(s.seed) > 1 << 40 || s.epoch > 1000 {
            return None;
        }
        if s.world == 0 || s.world > 6 || s.rank >= s.world || s.skip > 10_000 || s.ff > 10_000 || s.lim > 10_000 {
            return None;
        }
        if s.threads > 6 || s.threads2 > 6 || s.buffer > 16 || s.buffer2 > 16 || s.prefetch > 64 || s.blim > 100_000 {
            return None;
        }
        Some(s)
    }
}

fn bytes_gen(rng: &mut Rng) -> Val {
    let nfiles = rng.range(1, 3);
    let strategy = rng.below(3) as i64;
    let pipe = gen_pipe_spec(rng, nfiles, true);
    let json_in = rng.chance(1, 8);
    let mut lines: Vec<Vec<Option<(String, String)>>> = (0..nfiles)
        .map(|_| {
            let n = if strategy == 2 && !rng.chance(1, 30) { rng.range(1, 10) } else { rng.range(0, 10) };
            (0..n)
                .map(|_| {
                    if rng.chance(1, 9) {
                        return None;
                    }
                    let (mut i, t) = gen_item_texts(rng, &pipe.task);
                    if rng.chance(1, 25) {
                        i.push('\u{e000}');
                    }
                    if json_in && !rng.chance(1, 6) {
                        i = if rng.chance(1, 8) {
                            // json, but no string: JsonDecode refuses it
                            rng.pick(&["12", "null", "[\"a\"]", "{\"a\": 1}", "true", " \"a\" \"b\""]).to_string()
                        } else {
                            serde_json::to_string(&i).unwrap()
                        };
                    }
                    Some((i, t))
                })
                .collect()
        })
        .collect();
    let mut pipe = pipe;
    if json_in {
        for c in pipe.cfgs.iter_mut() {
            let c0 = c.clone();
            *c = MCfg::Chain(vec![MCfg::JsonDecode(false), c0]);
        }
    }
    let total: usize = lines.iter().map(|f| f.len()).sum();
    let world = rng.range(1, 4);
    let lim: i64 = if rng.chance(1, 3) { -1 } else { rng.range(0, total + 2) as i64 };
    let skip = if rng.chance(1, 2) { 0 } else { rng.range(0, total / 2 + 1) };
    let ff = if rng.chance(1, 3) { 0 } else { rng.range(0, total / 2 + 1) };
    // broken lines where they matter: the start of the file, the start of the window, inside the first stride (the
    // positions of the ranks), just in front of the window, at the limit
    if rng.chance(2, 5) {
        let w = skip + ff;
        let cands = [0, w, w + 1, w + world - 1, w.saturating_sub(1), skip, (lim.max(1) - 1) as usize, lim.max(0) as usize];
        for _ in 0..rng.range(1, 3) {
            let pos = *rng.pick(&cands);
            // positions are generator positions; for the sequential strategy they are positions in the concatenation
            let mut p = pos;
            for f in lines.iter_mut() {
                if p < f.len() {
                    f[p] = None;
                    break;
                }
                p -= f.len();
            }
        }
    }
    // the weighted strategy needs non-empty files (constructor error otherwise; now and then kept)
    let files: Vec<Vec<u8>> = lines.iter().map(|f| gen_bfile(rng, f)).collect();
    let mut b = BSpec {
        files,
        strategy,
        seed: if rng.chance(1, 8) { rng.next_u64() >> 24 } else { rng.below(1000) as u64 },
        epoch: rng.below(3),
        pipe,
        lim,
        skip,
        ff,
        rank: rng.below(world),
        world,
        sort: rng.chance(1, 3),
        shuffle: rng.chance(1, 2),
        prefetch: rng.below(4),
        blim: if rng.chance(1, 2) { rng.range(0, 6) } else { rng.range(20, 400) },
        ty: rng.below(2) as i64,
        threads: rng.below(5) as u8,
        buffer: rng.below(5),
        threads2: rng.below(5) as u8,
        buffer2: rng.below(5),
    };
    no_seed_now_and_then(rng, &mut b.seed, b.shuffle);
    b.to_val()
}

impl C08 {
    fn bytes_run(&self, input: &Val) -> Option<(Val, Vec<String>)> {
        let s = BSpec::from_val(input)?;
        std::fs::create_dir_all(&self.dir).ok()?;
        let mut paths = vec![];
        for (fi, f) in s.files.iter().enumerate() {
            let p = self.dir.join(format!("b{fi}.jsonl"));
            std::fs::write(&p, f).ok()?;
            paths.push(p.to_string_lossy().to_string());
        }
        let mut tags = vec!["bytes".to_string(), format!("strategy{}", s.strategy), format!("world{}", s.world)];
        s.pipe.tags(&mut tags);
        let real = s.pipe.to_real();
        let maxlen = s.pipe.maxlen;
        let pipe = std::panic::catch_unwind(move || train_pipeline(real, maxlen));
        reset_panic_hook();
        // cross-check table: the pipeline applied single-threaded to every generator position; a panicking call makes the
        // case invalid (see the exact line)
        let mut table: Vec<Val> = vec![];
        let mut n_err_lines = 0usize;
        if let Ok(Ok((pipe, _))) = &pipe {
            let seed = eff_seed(s.seed) + s.epoch as u64;
            let gens = paths.iter().map(train_data_generator_from_jsonl).collect::<anyhow::Result<Vec<_>>>().ok()?;
            if let Ok(gen) = MultiTrainDataGenerator::new(gens, strategy_of(s.strategy), Some(seed)) {
                for (pos, (data, file_idx)) in gen.enumerate() {
                    match data {
                        Ok(d) => {
                            let info = TextDataInfo { file_idx, seed: seed + pos as u64, ..Default::default() };
                            let pipe = pipe.clone();
                            match std::panic::catch_unwind(std::panic::AssertUnwindSafe(move || pipe((d, info)))) {
                                Err(_) => return None,
                                Ok(Ok(it)) => table.push(titem_val(&it)),
                                Ok(Err(_)) => (),
                            }
                        }
                        Err(_) => n_err_lines += 1,
                    }
                }
            }
        }
        let s2 = s.clone();
        let out = with_timeout(20_000, move || {
            let s = &s2;
            let run = |threads: u8, buffer: usize| -> Result<(Option<usize>, Vec<Vec<Val>>, Vec<String>), ()> {
                let args = TrainLoaderArgs {
                    files: paths.clone(),
                    pipeline: s.pipe.to_real(),
                    strategy: strategy_of(s.strategy),
                    num_threads: threads,
                    buffer_size: buffer,
                    batch_limit: s.blim,
                    batch_limit_type: if s.ty == 0 { BatchLimitType::BatchSize } else { BatchLimitType::PaddedItemSize },
                    max_length: s.pipe.maxlen,
                    shuffle: s.shuffle,
                    prefetch_factor: s.prefetch,
                    sort: s.sort,
                    seed: opt_seed(s.seed),
                    skip: s.skip,
                    limit: if s.lim < 0 { None } else { Some(s.lim as usize) },
                    distributed: Some((s.rank, s.world)),
                    epoch: s.epoch,
                    fast_forward: s.ff,
                };
                let r = std::panic::catch_unwind(std::panic::AssertUnwindSafe(|| train_loader_batches(args, None)));
                reset_panic_hook();
                let (min_items, batches) = match r {
                    Ok(Ok(x)) => x,
                    _ => return Err(()),
                };
                let mut bs = vec![];
                let mut tensors = vec![];
                for (items, t) in batches {
                    bs.push(items.iter().map(titem_val).collect::<Vec<Val>>());
                    tensors.push(format!("{:?}", t));
                }
                Ok((min_items, bs, tensors))
            };
            let a = run(s.threads, s.buffer);
            let b = run(s.threads2, s.buffer2);
            match (a, b) {
                (Err(()), Err(())) => Val::L(vec![Val::I(0)]),
                (Ok(a), Ok(b)) => {
                    let same = a == b;
                    let table_ok = a.1.iter().all(|b| b.iter().all(|it| table.contains(it)));
                    Val::L(vec![
                        Val::I(1),
                        Val::u(a.0.unwrap_or(UNKNOWN_ITEM)),
                        Val::L(a.1.into_iter().map(Val::L).collect()),
                        Val::b(same),
                        Val::b(table_ok),
                    ])
                }
                _ => Val::L(vec![Val::I(-779)]),
            }
        });
        let n_items: usize = out
            .nth(2)
            .and_then(|v| v.as_l())
            .map(|bs| bs.iter().map(|b| b.as_l().map(|l| l.len()).unwrap_or(0)).sum())
            .unwrap_or(0);
        if s.shuffle {
            tags.push("shuffle".into());
        }
        if s.sort {
            tags.push("sort".into());
        }
        if s.threads > 0 || s.threads2 > 0 {
            tags.push("threaded".into());
        }
        if n_err_lines > 0 {
            tags.push("errlines".into());
        }
        if out.nth(0).and_then(|v| v.as_i()) == Some(0) {
            tags.push("rejected".into());
        }
        if n_items >= 2 && (s.threads > 0 || s.threads2 > 0) {
            tags.push("nt".into());
        }
        Some((out, tags))
    }
}

// ---- topic N: stage tables -------------------------------------------------------------------
// Lines -5 (item), -6 (byte loader), -7 (mask script): the stages that Pipeline_Model / Pipeline_Tasks leave to the
// opaque constructor are given with their real parameters in two tables (coq/theories/Pipeline_Stages.v):
//   stages  = (stage ..), stage = (0 part) JsonDecode | (1 part prob fd smode) SpellingCorruption | (2 part (start? ((role tpl) ..) end?)) ChatDecode
//             smode = (0 pc temp chars?) | (1 missp) | (2 art pc temp chars? missp); chars? = () | (((key freq weight) ..));
//             weight = (freq as f64).powf(1.0 / temp) (libm: data for the model); missp = ((word (misspelling ..)) ..)
//   qstages = (qstage ..), qstage = (tokenizer p min num_p mask_token) TokenMasking
// A preprocessing node (14 k) / postprocessing node (6 k) refers to entry k. The harness writes the character dictionary and the
// misspellings file of every spelling stage and hands the paths to the real constructor.

type CharItems = Vec<(String, usize)>;
type Missp = Vec<(String, Vec<String>)>;

#[derive(Clone, Debug, PartialEq)]
enum SModeSpec {
    Art(f64, f64, Option<CharItems>),
    Real(Missp),
    Mixed(f64, f64, f64, Option<CharItems>, Missp),
    /// the misspellings file given as its BYTES (written verbatim; the model parses them: Pipeline_Stages.missp_of_bytes)
    RealBytes(Vec<u8>),
    MixedBytes(f64, f64, f64, Option<CharItems>, Vec<u8>),
}

#[derive(Clone, Debug, PartialEq)]
enum StageSpec {
    Json(bool),
    Spell(bool, f64, bool, SModeSpec),
    Chat(bool, Option<String>, Vec<(String, String)>, Option<String>),
}

fn chars_val(c: &Option<CharItems>, temp: f64) -> Val {
    match c {
        None => Val::L(vec![]),
        Some(items) => Val::L(vec![Val::L(
            items.iter().map(|(k, f)| Val::L(vec![Val::str(k), Val::u(*f), f64_val((*f as f64).powf(1.0 / temp))])).collect(),
        )]),
    }
}
fn missp_val(m: &Missp) -> Val {
    Val::L(m.iter().map(|(w, rs)| Val::L(vec![Val::str(w), strs_val(rs)])).collect())
}
fn val_chars(v: &Val) -> Option<Option<CharItems>> {
    match v.as_l()? {
        [] => Some(None),
        [l] => {
            let mut items: CharItems = vec![];
            for it in l.as_l()? {
                let k = it.nth(0)?.to_string_lossy()?;
                let f = it.nth(1)?.as_usize()?;
                // Dictionary::load: `line.trim().split('\t')`, lines split at '\n' (a trailing '\r' removed)
                if k.is_empty() || k.chars().next()?.is_whitespace() || k.contains(['\t', '\n', '\r']) || f > 1 << 40 {
                    return None;
                }
                if items.iter().any(|x| x.0 == k) {
                    return None;
                }
                items.push((k, f));
            }
            // Dictionary::load of an empty file gives freq_sum 0; more than 80 entries: the model side gets slow
            if items.is_empty() || items.len() > 80 {
                return None;
            }
            Some(Some(items))
        }
        _ => None,
    }
}
fn val_missp(v: &Val) -> Option<Missp> {
    let mut miss: Missp = vec![];
    for m in v.as_l()? {
        let w = m.nth(0)?.to_string_lossy()?;
        let rs = val_strs(m.nth(1)?)?;
        if rs.len() > 6 || miss.iter().any(|x| x.0 == w) {
            return None;
        }
        miss.push((w, rs));
    }
    if miss.len() > 16 {
        return None;
    }
    Some(miss)
}
fn val_bytes(v: &Val) -> Option<Vec<u8>> {
    let b: Vec<u8> = v.as_l()?.iter().map(|x| x.as_i().and_then(|i| u8::try_from(i).ok())).collect::<Option<_>>()?;
    if b.len() > 4000 {
        return None;
    }
    Some(b)
}

/// the bytes of a misspellings file holding `ms`, in several writers' styles; `safe` = one that parses and has no empty list
fn missp_bytes(rng: &mut Rng, ms: &Missp, safe: bool) -> Vec<u8> {
    let q = |rng: &mut Rng, s: &str| -> String {
        if rng.chance(1, 4) {
            py_string(s)
        } else {
            serde_json::to_string(s).unwrap()
        }
    };
    let mut members: Vec<String> = vec![];
    for (w, rs) in ms {
        let list: Vec<String> = rs.iter().map(|r| q(rng, r)).collect();
        // a key given twice: the LAST list counts (HashMap::insert)
        if rng.chance(1, 6) {
            members.push(format!("{}: [\"first\", \"zz\"]", q(rng, w)));
        }
        let sep = if rng.chance(1, 3) { " ,\n " } else { "," };
        members.push(format!("{}{}[{}]", q(rng, w), if rng.chance(1, 2) { ": " } else { ":" }, list.join(sep)));
    }
    let body = match rng.below(4) {
        0 => format!("{{{}}}", members.join(",")),
        1 => format!("{{\n  {}\n}}\n", members.join(",\n  ")),
        2 => format!(" \t{{ {} }} ", members.join(" , ")),
        _ => format!("{{{}}}", members.join(", ")),
    };
    if safe || !rng.chance(1, 6) {
        return body.into_bytes();
    }
    // files the constructor refuses (`expect`: the call of `preprocessing(cfg)` panics)
    match rng.below(10) {
        0 => b"".to_vec(),
        1 => format!("{} x", body).into_bytes(),
        2 => b"{\"ab\": \"xy\"}".to_vec(),
        3 => b"{\"ab\": [1]}".to_vec(),
        4 => b"{\"ab\": [\"x\",]}".to_vec(),
        5 => b"[[\"ab\", [\"x\"]]]".to_vec(),
        6 => b"{\"ab\": [\"x\xff\"]}".to_vec(),
        7 => b"{\"ab\": [\"\\ud800\"]}".to_vec(),
        8 => b"{\"ab\": null}".to_vec(),
        _ => b"\xef\xbb\xbf{}".to_vec(),
    }
}

fn val_temp(v: &Val) -> Option<f64> {
    let t = val_f64(v)?;
    if t > 0.01 && t < 100.0 {
        Some(t)
    } else {
        None
    }
}

impl StageSpec {
    fn to_val(&self) -> Val {
        match self {
            StageSpec::Json(p) => Val::L(vec![Val::I(0), Val::b(*p)]),
            StageSpec::Spell(p, prob, fd, m) => {
                let mv = match m {
                    SModeSpec::Art(pc, temp, chars) => Val::L(vec![Val::I(0), f64_val(*pc), f64_val(*temp), chars_val(chars, *temp)]),
                    SModeSpec::Real(ms) => Val::L(vec![Val::I(1), missp_val(ms)]),
                    SModeSpec::Mixed(art, pc, temp, chars, ms) => {
                        Val::L(vec![Val::I(2), f64_val(*art), f64_val(*pc), f64_val(*temp), chars_val(chars, *temp), missp_val(ms)])
                    }
                    SModeSpec::RealBytes(b) => Val::L(vec![Val::I(3), Val::bytes(b)]),
                    SModeSpec::MixedBytes(art, pc, temp, chars, b) => {
                        Val::L(vec![Val::I(4), f64_val(*art), f64_val(*pc), f64_val(*temp), chars_val(chars, *temp), Val::bytes(b)])
                    }
                };
                Val::L(vec![Val::I(1), Val::b(*p), f64_val(*prob), Val::b(*fd), mv])
            }
            StageSpec::Chat(p, start, roles, end) => Val::L(vec![
                Val::I(2),
                Val::b(*p),
                Val::L(vec![
                    Val::opt(start.as_ref(), |s| Val::str(s)),
                    Val::L(roles.iter().map(|(k, t)| Val::L(vec![Val::str(k), Val::str(t)])).collect()),
                    Val::opt(end.as_ref(), |s| Val::str(s)),
                ]),
            ]),
        }
    }
    fn from_val(v: &Val) -> Option<StageSpec> {
        let l = v.as_l()?;
        let ostr = |v: &Val| -> Option<Option<String>> {
            match v.as_l()? {
                [] => Some(None),
                [s] => Some(Some(s.to_string_lossy()?)),
                _ => None,
            }
        };
        Some(match (l.first()?.as_i()?, l.len()) {
            (0, 2) => StageSpec::Json(l[1].as_bool()?),
            (1, 5) => {
                let m = l[4].as_l()?;
                let mode = match (m.first()?.as_i()?, m.len()) {
                    (0, 4) => SModeSpec::Art(val_f64(&m[1])?, val_temp(&m[2])?, val_chars(&m[3])?),
                    (1, 2) => SModeSpec::Real(val_missp(&m[1])?),
                    (2, 6) => SModeSpec::Mixed(val_f64(&m[1])?, val_f64(&m[2])?, val_temp(&m[3])?, val_chars(&m[4])?, val_missp(&m[5])?),
                    (3, 2) => SModeSpec::RealBytes(val_bytes(&m[1])?),
                    (4, 6) => SModeSpec::MixedBytes(val_f64(&m[1])?, val_f64(&m[2])?, val_temp(&m[3])?, val_chars(&m[4])?, val_bytes(&m[5])?),
                    _ => return None,
                };
                // the weights on the wire must be what this machine's powf gives (they are data for the model)
                let s = StageSpec::Spell(l[1].as_bool()?, val_f64(&l[2])?, l[3].as_bool()?, mode);
                if s.to_val() != *v {
                    return None;
                }
                s
            }
            (2, 3) => {
                let t = l[2].as_l()?;
                if t.len() != 3 {
                    return None;
                }
                let mut roles: Vec<(String, String)> = vec![];
                for kv in t[1].as_l()? {
                    let k = kv.nth(0)?.to_string_lossy()?;
                    if roles.iter().any(|x| x.0 == k) {
                        return None; // a HashMap: keys are distinct
                    }
                    roles.push((k, kv.nth(1)?.to_string_lossy()?));
                }
                if roles.len() > 6 {
                    return None;
                }
                StageSpec::Chat(l[1].as_bool()?, ostr(&t[0])?, roles, ostr(&t[2])?)
            }
            _ => return None,
        })
    }
    /// the real configuration; the files of a spelling stage are written to `dir` as st<k>-chars.tsv / st<k>-missp.json
    fn to_real(&self, dir: &std::path::Path, k: usize) -> Option<PreprocessingFnConfig> {
        use PreprocessingFnConfig as P;
        Some(match self {
            StageSpec::Json(p) => P::JsonDecode(part_of(*p)),
            StageSpec::Spell(p, prob, fd, m) => {
                let write_chars = |items: &CharItems| -> Option<std::path::PathBuf> {
                    let path = dir.join(format!("st{k}-chars.tsv"));
                    let body: String = items.iter().map(|(k, f)| format!("{k}\t{f}\n")).collect();
                    std::fs::write(&path, body).ok()?;
                    Some(path)
                };
                let write_missp = |ms: &Missp| -> Option<std::path::PathBuf> {
                    let path = dir.join(format!("st{k}-missp.json"));
                    let mut map = serde_json::Map::new();
                    for (w, rs) in ms {
                        map.insert(w.clone(), serde_json::Value::Array(rs.iter().map(|r| serde_json::Value::String(r.clone())).collect()));
                    }
                    std::fs::write(&path, serde_json::Value::Object(map).to_string()).ok()?;
                    Some(path)
                };
                let write_bytes = |b: &Vec<u8>| -> Option<std::path::PathBuf> {
                    let path = dir.join(format!("st{k}-missp.json"));
                    std::fs::write(&path, b).ok()?;
                    Some(path)
                };
                let mode = match m {
                    SModeSpec::Art(pc, temp, chars) => {
                        let cp = match chars {
                            Some(items) => Some(write_chars(items)?),
                            None => None,
                        };
                        SpellingCorruptionMode::Artificial(*pc, *temp, cp)
                    }
                    SModeSpec::Real(ms) => SpellingCorruptionMode::Realistic(write_missp(ms)?),
                    SModeSpec::Mixed(art, pc, temp, chars, ms) => {
                        let cp = match chars {
                            Some(items) => Some(write_chars(items)?),
                            None => None,
                        };
                        SpellingCorruptionMode::Mixed(*art, *pc, *temp, cp, write_missp(ms)?)
                    }
                    SModeSpec::RealBytes(b) => SpellingCorruptionMode::Realistic(write_bytes(b)?),
                    SModeSpec::MixedBytes(art, pc, temp, chars, b) => {
                        let cp = match chars {
                            Some(items) => Some(write_chars(items)?),
                            None => None,
                        };
                        SpellingCorruptionMode::Mixed(*art, *pc, *temp, cp, write_bytes(b)?)
                    }
                };
                P::SpellingCorruption(part_of(*p), *prob, *fd, mode)
            }
            StageSpec::Chat(p, start, roles, end) => {
                // `ChatTemplate` lives in a private module: it cannot be named, but it can be inferred and its public fields set
                let mut c = P::ChatDecode(part_of(*p), Default::default());
                if let P::ChatDecode(_, ref mut t) = c {
                    t.start = start.clone();
                    t.roles = roles.iter().cloned().collect();
                    t.end = end.clone();
                }
                c
            }
        })
    }
    fn name(&self) -> String {
        match self {
            StageSpec::Json(_) => "x-json".into(),
            StageSpec::Spell(_, _, _, SModeSpec::Art(_, _, None)) => "x-spell-art".into(),
            StageSpec::Spell(_, _, _, SModeSpec::Art(..)) => "x-spell-art-dict".into(),
            StageSpec::Spell(_, _, _, SModeSpec::Real(..)) => "x-spell-real".into(),
            StageSpec::Spell(_, _, _, SModeSpec::Mixed(_, _, _, None, _)) => "x-spell-mixed".into(),
            StageSpec::Spell(_, _, _, SModeSpec::Mixed(..)) => "x-spell-mixed-dict".into(),
            StageSpec::Spell(_, _, _, SModeSpec::RealBytes(..)) => "x-spell-real-bytes".into(),
            StageSpec::Spell(_, _, _, SModeSpec::MixedBytes(..)) => "x-spell-mixed-bytes".into(),
            StageSpec::Chat(..) => "x-chat".into(),
        }
    }
}

#[derive(Clone, Debug)]
struct MaskSpec {
    tok: TokSpec,
    p: f64,
    min: usize,
    num_p: f64,
    token: String,
}

impl MaskSpec {
    fn to_val(&self) -> Val {
        Val::L(vec![self.tok.to_val(), f64_val(self.p), Val::u(self.min), f64_val(self.num_p), Val::str(&self.token)])
    }
    fn from_val(v: &Val) -> Option<MaskSpec> {
        let l = v.as_l()?;
        if l.len() != 5 {
            return None;
        }
        let m = MaskSpec { tok: TokSpec::from_val(&l[0])?, p: val_f64(&l[1])?, min: l[2].as_usize()?, num_p: val_f64(&l[3])?, token: l[4].to_string_lossy()? };
        // the domain of the model (Pipeline_Stages.qstage_dom): no negative / NaN num_tokens_prob; p = 0, invalid, or at least
        // 1e-9 (below 2^-54 Geometric::new does not return, below about 3e-10 the sampler may call powf)
        if m.num_p.is_nan() || m.num_p < 0.0 || (m.p > 0.0 && m.p < 1e-9) || m.min > 1 << 40 {
            return None;
        }
        Some(m)
    }
    fn to_real(&self) -> PostprocessingFnConfig {
        PostprocessingFnConfig::TokenMasking(self.tok.to_real(), self.p, self.min, self.num_p, self.token.clone())
    }
}

fn x_mcfg_from_val(v: &Val, depth: usize) -> Option<MCfg> {
    if depth > 9 {
        return None;
    }
    let l = v.as_l()?;
    let list = |v: &Val| -> Option<Vec<MCfg>> {
        let l = v.as_l()?;
        if l.len() > 6 {
            return None;
        }
        l.iter().map(|c| x_mcfg_from_val(c, depth + 1)).collect()
    };
    match (l.first()?.as_i()?, l.len()) {
        (1, 2) => Some(MCfg::Chain(list(&l[1])?)),
        (5, 3) => match MCfg::from_val(&Val::L(vec![Val::I(5), Val::L(vec![]), l[2].clone()]), 0)? {
            MCfg::Switch(_, ps) => Some(MCfg::Switch(list(&l[1])?, ps)),
            _ => None,
        },
        (14, 2) => Some(MCfg::Stage(l[1].as_usize()?)),
        _ => MCfg::from_val(v, depth.min(6)),
    }
}

fn x_qcfg_from_val(v: &Val, depth: usize) -> Option<QCfg> {
    if depth > 5 {
        return None;
    }
    let l = v.as_l()?;
    let list = |v: &Val| -> Option<Vec<QCfg>> {
        let l = v.as_l()?;
        if l.len() > 6 {
            return None;
        }
        l.iter().map(|c| x_qcfg_from_val(c, depth + 1)).collect()
    };
    let shell = |tag: i64, rest: &[Val]| -> Option<QCfg> {
        let mut w = vec![Val::I(tag)];
        w.extend(rest.iter().cloned());
        QCfg::from_val(&Val::L(w), depth)
    };
    match (l.first()?.as_i()?, l.len()) {
        (1, 2) => Some(QCfg::Chain(list(&l[1])?)),
        (2, 3) => match shell(2, &[Val::L(vec![]), l[2].clone()])? {
            QCfg::Switch(_, ps) => Some(QCfg::Switch(list(&l[1])?, ps)),
            _ => None,
        },
        (3, 4) => match shell(3, &[l[1].clone(), l[2].clone(), Val::L(vec![])])? {
            QCfg::OnMark(k, v, _) => Some(QCfg::OnMark(k, v, list(&l[3])?)),
            _ => None,
        },
        (4, 4) => match shell(4, &[l[1].clone(), l[2].clone(), Val::L(vec![])])? {
            QCfg::SwitchOnMark(k, vs, _) => Some(QCfg::SwitchOnMark(k, vs, list(&l[3])?)),
            _ => None,
        },
        (6, 2) => Some(QCfg::Mask(l[1].as_usize()?)),
        _ => QCfg::from_val(v, depth),
    }
}

fn x_mcfg_to_real(c: &MCfg, st: &[PreprocessingFnConfig]) -> PreprocessingFnConfig {
    use PreprocessingFnConfig as P;
    match c {
        MCfg::Chain(l) => P::Chain(l.iter().map(|c| x_mcfg_to_real(c, st)).collect()),
        MCfg::Switch(l, ps) => P::Switch(l.iter().map(|c| x_mcfg_to_real(c, st)).collect(), ps.clone()),
        MCfg::Stage(k) => st[*k].clone(),
        _ => c.to_real(),
    }
}

fn x_qcfg_to_real(c: &QCfg, qs: &[PostprocessingFnConfig]) -> PostprocessingFnConfig {
    use PostprocessingFnConfig as Q;
    let sub = |l: &Vec<QCfg>| l.iter().map(|c| x_qcfg_to_real(c, qs)).collect::<Vec<_>>();
    match c {
        QCfg::Chain(l) => Q::Chain(sub(l)),
        QCfg::Switch(l, ps) => Q::Switch(sub(l), ps.clone()),
        QCfg::OnMark(k, v, l) => Q::OnMark(k.clone(), v.clone(), sub(l)),
        QCfg::SwitchOnMark(k, vs, l) => Q::SwitchOnMark(k.clone(), vs.clone(), sub(l)),
        QCfg::Mask(k) => qs[*k].clone(),
        _ => c.to_real(),
    }
}

fn mcfg_refs_ok(c: &MCfg, n: usize) -> bool {
    match c {
        MCfg::Chain(l) | MCfg::Switch(l, _) => l.iter().all(|c| mcfg_refs_ok(c, n)),
        MCfg::Stage(k) => *k < n,
        MCfg::JsonDecode(_) | MCfg::Spell(..) => false, // the packed ids of the older lines are not used here
        _ => true,
    }
}
fn qcfg_refs_ok(c: &QCfg, n: usize) -> bool {
    match c {
        QCfg::Chain(l) | QCfg::Switch(l, _) | QCfg::OnMark(_, _, l) | QCfg::SwitchOnMark(_, _, l) => l.iter().all(|c| qcfg_refs_ok(c, n)),
        QCfg::Mask(k) => *k < n,
        _ => true,
    }
}

/// a pipeline whose trees may refer to the two stage tables
#[derive(Clone, Debug)]
struct XPipe {
    pipe: PipeSpec,
    stages: Vec<StageSpec>,
    qstages: Vec<MaskSpec>,
}

impl XPipe {
    fn from_vals_with(p: &Val, t: &Val, q: &Val, m: &Val, st: &Val, qs: &Val, kinds: bool) -> Option<XPipe> {
        let (per_source, cfgs) = val_pcfg(p, |c| x_mcfg_from_val(c, 0))?;
        let (q_per_source, qcfgs) = val_pcfg(q, |c| x_qcfg_from_val(c, 0))?;
        let maxlen = m.as_usize()?;
        if maxlen > 100_000 || cfgs.iter().any(mcfg_neg_switch) || qcfgs.iter().any(|c| c.neg_switch()) {
            return None;
        }
        let stages: Vec<StageSpec> = st.as_l()?.iter().map(StageSpec::from_val).collect::<Option<_>>()?;
        let qstages: Vec<MaskSpec> = qs.as_l()?.iter().map(MaskSpec::from_val).collect::<Option<_>>()?;
        if stages.len() > 4 || qstages.len() > 3 {
            return None;
        }
        if !cfgs.iter().all(|c| mcfg_refs_ok(c, stages.len())) || !qcfgs.iter().all(|c| qcfg_refs_ok(c, qstages.len())) {
            return None;
        }
        Some(XPipe { pipe: PipeSpec { per_source, cfgs, task: TaskSpec::from_val_with(t, kinds)?, q_per_source, qcfgs, maxlen }, stages, qstages })
    }
    fn table_vals(&self) -> [Val; 2] {
        [Val::L(self.stages.iter().map(|s| s.to_val()).collect()), Val::L(self.qstages.iter().map(|s| s.to_val()).collect())]
    }
    fn to_real(&self, dir: &std::path::Path) -> Option<TrainPipelineConfig> {
        std::fs::create_dir_all(dir).ok()?;
        let st: Vec<PreprocessingFnConfig> = self.stages.iter().enumerate().map(|(k, s)| s.to_real(dir, k)).collect::<Option<_>>()?;
        let qs: Vec<PostprocessingFnConfig> = self.qstages.iter().map(|s| s.to_real()).collect();
        let p = &self.pipe;
        Some(TrainPipelineConfig {
            preprocessing: if p.per_source {
                PreprocessingConfig::PerSource(p.cfgs.iter().map(|c| x_mcfg_to_real(c, &st)).collect())
            } else {
                PreprocessingConfig::Global(x_mcfg_to_real(&p.cfgs[0], &st))
            },
            task: p.task.to_real(),
            postprocessing: if p.q_per_source {
                PostprocessingConfig::PerSource(p.qcfgs.iter().map(|c| x_qcfg_to_real(c, &qs)).collect())
            } else {
                PostprocessingConfig::Global(x_qcfg_to_real(&p.qcfgs[0], &qs))
            },
        })
    }
    fn tags(&self, tags: &mut Vec<String>) {
        self.pipe.tags(tags);
        for s in &self.stages {
            let n = s.name();
            if !tags.contains(&n) {
                tags.push(n);
            }
        }
    }
}

// ---- generators of the stage tables ----

const X_UNITS: &[&str] = &["a", "b", "c", "x", "y", "a", "b", "é", "ä", ".", "²", "中", "e\u{301}", "-"];

fn x_unit(rng: &mut Rng) -> String {
    rng.pick(X_UNITS).to_string()
}

/// a character dictionary: 3-grams around the clusters of the sample words, then random ones over the small alphabet
fn gen_chars(rng: &mut Rng, words: &[String]) -> CharItems {
    let mut items: CharItems = vec![];
    let mut push = |rng: &mut Rng, p: String, c: String, n: String, f: usize| {
        let sep = |rng: &mut Rng| if rng.chance(1, 16) { "  " } else { " " };
        let k = format!("{p}{}{c}{}{n}", sep(rng), sep(rng));
        if !items.iter().any(|x: &(String, usize)| x.0 == k) && items.len() < 60 {
            items.push((k, f));
        }
    };
    for w in words.iter().take(6) {
        let cs: Vec<String> = split_clusters(w, true).map(|s| s.to_string()).collect();
        let at = |i: isize| -> String {
            if i < 0 {
                "<bow>".into()
            } else if i as usize >= cs.len() {
                "<eow>".into()
            } else {
                cs[i as usize].clone()
            }
        };
        for i in 0..=cs.len().min(6) as isize {
            if rng.chance(1, 2) {
                // several insertions for one context, with different frequencies: their order and weights matter
                for _ in 0..rng.range(1, 3) {
                    let (c, f) = (x_unit(rng), rng.range(1, 9));
                    push(rng, at(i - 1), c, at(i), f);
                }
            }
            if (i as usize) < cs.len() && rng.chance(1, 2) {
                let f = rng.range(1, 9);
                push(rng, at(i - 1), at(i), at(i + 1), f);
                for _ in 0..rng.range(1, 3) {
                    let (c, f) = (x_unit(rng), rng.range(1, 9));
                    push(rng, at(i - 1), c, at(i + 1), f);
                }
            }
        }
    }
    for _ in 0..rng.range(4, 24) {
        let p = if rng.chance(1, 4) { "<bow>".to_string() } else { x_unit(rng) };
        let n = if rng.chance(1, 4) { "<eow>".to_string() } else { x_unit(rng) };
        let c = if rng.chance(1, 8) { format!("{}{}", x_unit(rng), x_unit(rng)) } else { x_unit(rng) };
        let f = rng.range(1, 5);
        push(rng, p, c, n, f);
    }
    match rng.below(24) {
        0 => items.push((if rng.chance(1, 2) { "a b".to_string() } else { "a b c d".to_string() }, rng.range(1, 5))),
        1..=8 => {
            // the relative-frequency filter: one heavy item puts frequency k at the threshold k / total < 1e-4
            let small: usize = items.iter().map(|x| x.1).sum();
            let k = rng.range(1, 5);
            // ... or well inside the band between 1e-4 and 1e-3
            let t = if rng.chance(1, 3) { 10_000 } else { 3_000 };
            let heavy = (t * k) as isize + rng.below(5) as isize - 2 - small as isize;
            if heavy > 0 {
                items.push(("<bow> x <eow>".into(), heavy as usize));
            }
        }
        9 => {
            if let Some(x) = items.first_mut() {
                x.1 = 0;
            }
        }
        _ => {}
    }
    if items.is_empty() {
        items.push(("a b c".into(), 1));
    }
    // keys are distinct (a HashMap in the code): of two equal keys the later one is dropped
    let mut seen: Vec<String> = vec![];
    items.retain(|(k, _)| {
        if seen.contains(k) {
            false
        } else {
            seen.push(k.clone());
            true
        }
    });
    rng.shuffle(&mut items);
    items
}

/// misspellings of whole words and of their regex parts
fn gen_missp(rng: &mut Rng, words: &[String], safe: bool) -> Missp {
    let mut miss: Missp = vec![];
    let repl = |rng: &mut Rng| -> String {
        match rng.below(10) {
            0 => String::new(),
            1 => format!("{} {}", x_unit(rng), x_unit(rng)),
            _ => (0..rng.range(1, 3)).map(|_| x_unit(rng)).collect(),
        }
    };
    let mut add = |rng: &mut Rng, w: String| {
        if !miss.iter().any(|x| x.0 == w) && miss.len() < 14 {
            // an empty list of misspellings: random_range(0..0) panics inside the closure
            let n = if !safe && rng.chance(1, 30) { 0 } else { rng.range(1, 3) };
            let rs = (0..n).map(|_| repl(rng)).collect();
            miss.push((w, rs));
        }
    };
    for w in words.iter().take(8) {
        for (w, parts) in text_utils::text::split_words(w) {
            let parts = parts.unwrap_or_default();
            if rng.chance(1, if parts.len() > 1 { 5 } else { 2 }) {
                add(rng, w.to_string());
            }
            for (p, _) in parts {
                if rng.chance(3, 4) {
                    add(rng, p.to_string());
                }
            }
        }
    }
    for u in ["a", "b", "ab", "xy", "c"] {
        if rng.chance(1, 3) {
            add(rng, u.to_string());
        }
    }
    miss
}

fn gen_spell_prob(rng: &mut Rng) -> f64 {
    match rng.below(8) {
        0 | 1 | 2 => 1.0,
        3 => 0.5,
        4 => 0.9,
        _ => (1 + rng.below(1 << 20)) as f64 / (1u64 << 20) as f64,
    }
}

/// a spelling stage over the words of `text` (`safe`: no configuration that panics)
fn gen_spell_stage(rng: &mut Rng, target: bool, text: &str, safe: bool) -> StageSpec {
    let words: Vec<String> = text.split_whitespace().map(|w| w.to_string()).collect();
    let temp = *rng.pick(&[2.0, 2.0, 1.0, 3.0, 0.7]);
    let pc = if rng.chance(1, 6) { 0.0 } else { gen_spell_prob(rng) };
    let art = if rng.chance(1, 10) { 0.0 } else if rng.chance(1, 10) { 1.0 } else if rng.chance(1, 20) { 2.5 } else { gen_spell_prob(rng) };
    let chars = |rng: &mut Rng| -> Option<CharItems> {
        let mut c = gen_chars(rng, &words);
        if safe {
            c.retain(|(k, _)| k.split_whitespace().count() == 3);
            c.iter_mut().for_each(|x| x.1 = x.1.max(1));
            if c.is_empty() {
                c.push(("a b c".into(), 1));
            }
        }
        Some(c)
    };
    let mode = match rng.below(10) {
        0..=3 => SModeSpec::Art(pc, temp, chars(rng)),
        4 | 5 => SModeSpec::Real(gen_missp(rng, &words, safe)),
        6 | 7 => {
            let c = chars(rng);
            SModeSpec::Mixed(art, pc, temp, c, gen_missp(rng, &words, safe))
        }
        8 => SModeSpec::Art(pc, temp, None),
        _ => SModeSpec::Mixed(art, pc, temp, None, gen_missp(rng, &words, safe)),
    };
    // half of the misspellings files travel as their bytes
    let mode = if rng.chance(1, 2) {
        match mode {
            SModeSpec::Real(ms) => SModeSpec::RealBytes(missp_bytes(rng, &ms, safe)),
            SModeSpec::Mixed(a, pc, t, c, ms) => SModeSpec::MixedBytes(a, pc, t, c, missp_bytes(rng, &ms, safe)),
            m => m,
        }
    } else {
        mode
    };
    let prob = if !safe && rng.chance(1, 40) { 0.0 } else if rng.chance(1, 30) { 1.5 } else { gen_spell_prob(rng) };
    StageSpec::Spell(target, prob, rng.chance(1, 2), mode)
}

const ROLE_TEMPLATES: &[&str] = &[
    "<|user|>\n{text}\n\n",
    "User: {text}\n",
    "{text}",
    "Bot: {text}",
    "no pattern",
    "{text}{text}",
    "a{text}b{text}c",
    "{text",
    "{{text}}",
    "é {text} \u{301}",
    "",
];

fn gen_chat_stage(rng: &mut Rng, target: bool) -> StageSpec {
    let mut roles: Vec<(String, String)> = vec![];
    for r in ["user", "assistant", "system", "bot", ""] {
        if rng.chance(2, 3) {
            // mostly a template with one {text}
            let t = if rng.chance(1, 2) { *rng.pick(&ROLE_TEMPLATES[..4]) } else { *rng.pick(ROLE_TEMPLATES) };
            roles.push((r.to_string(), t.to_string()));
        }
    }
    let start = match rng.below(3) {
        0 => None,
        1 => Some("<start>".to_string()),
        _ => Some("".to_string()),
    };
    let end = match rng.below(3) {
        0 => None,
        1 => Some("<|assistant|>\n".to_string()),
        _ => Some("<end>".to_string()),
    };
    StageSpec::Chat(target, start, roles, end)
}

/// the text of a chat: a json array of messages, in several writers' styles and with the ways serde refuses one;
/// `roles`: the roles of the template (mostly used, so that most chats format)
fn gen_chat_text(rng: &mut Rng, roles: &[String]) -> String {
    let q = |s: &str| serde_json::to_string(s).unwrap();
    let n = match rng.below(8) {
        0 => 0,
        1 | 2 | 3 => 1,
        4 | 5 => 2,
        _ => 3,
    };
    let mut msgs: Vec<String> = vec![];
    for k in 0..n {
        let role: String = if !roles.is_empty() && !rng.chance(1, 12) { rng.pick(roles).clone() } else { rng.pick(&["user", "nobody", ""]).to_string() };
        let role = role.as_str();
        let text = match rng.below(6) {
            0 => "{text}".to_string(),
            1 => "a {text} b".to_string(),
            _ => gen_text(rng, 6),
        };
        let last = k + 1 == n;
        let partial = if last { rng.chance(1, 2) } else { rng.chance(1, 8) };
        let m = match rng.below(16) {
            0 | 1 | 2 if !partial => format!("{{\"role\": {}, \"text\": {}}}", q(role), q(&text)),
            0 | 1 | 2 | 3 | 4 | 5 | 6 => format!("{{\"text\":{},\"role\":{},\"partial\":{}}}", q(&text), q(role), partial),
            7 => format!("{{\"text\": {}, \"id\": [1, {{\"text\": 3}}, null], \"role\": {}, \"partial\": {}, \"x\": \"y\"}}", q(&text), q(role), partial),
            8 if !partial => format!("[{}, {}]", q(&text), q(role)),
            8 | 9 => format!(" [ {} , {} , {} ] ", q(&text), q(role), partial),
            10 if !partial => format!("{{\"te\\u0078t\": {}, \"role\": {}}}", q(&text), q(role)),
            10 | 11 | 12 | 13 => format!("{{\"role\": {}, \"text\": {}, \"partial\": {}}}", py_string(role), py_string(&text), partial),
            14 => {
                // an IGNORED member: serde_json skips it with `ignore_value`, whose grammar has no f64 range check, no
                // surrogate check of \u escapes and no recursion limit (all three are refused by the Value grammar); some
                // values it refuses as well
                let deep = format!("{}1{}", "[".repeat(130), "]".repeat(130));
                let ig: &str = match rng.below(12) {
                    0 => "1e999",
                    1 => "\"\\ud800\"",
                    2 => deep.as_str(),
                    3 => "-0.0e-5",
                    4 => "{\"text\": \"\\udc00x\", \"n\": -1E+400}",
                    5 => "01",
                    6 => "\"\\x\"",
                    7 => "[1,]",
                    8 => "\"a\tb\"",
                    9 => "{\"a\" 1}",
                    _ => "{\"role\": 1, \"a\": [true, false, 1.5e3, \"\\n\"]}",
                };
                format!("{{\"partial\": {}, \"role\": {}, \"ignored\": {}, \"text\": {}}}", partial, q(role), ig, q(&text))
            }
            _ => rng
                .pick(&[
                    "{\"text\": \"a\"}",
                    "{\"role\": \"user\"}",
                    "{\"text\": \"a\", \"role\": \"user\", \"text\": \"b\"}",
                    "{\"text\": \"a\", \"role\": \"user\", \"partial\": true, \"partial\": true}",
                    "{\"text\": 1, \"role\": \"user\"}",
                    "{\"text\": \"a\", \"role\": null}",
                    "{\"text\": \"a\", \"role\": \"user\", \"partial\": 1}",
                    "{\"text\": \"a\", \"role\": \"user\", \"partial\": null}",
                    "[\"a\", \"user\", true, 1]",
                    "[\"a\"]",
                    "[]",
                    "[\"a\", \"user\", \"true\"]",
                    "\"user\"",
                    "null",
                    "{\"text\": \"a\", \"role\": \"user\",}",
                    "{\"Text\": \"a\", \"role\": \"user\", \"text\": \"b\"}",
                ])
                .to_string(),
        };
        msgs.push(m);
    }
    match rng.below(24) {
        0 => format!("[{}] x", msgs.join(",")),
        1 => format!("[{},]", msgs.join(",")),
        2 => format!("{{\"messages\": [{}]}}", msgs.join(",")),
        3 => "".to_string(),
        4 => gen_text(rng, 5),
        5 | 6 => format!(" \n[ {} ]\t", msgs.join(" ,\n")),
        _ => format!("[{}]", msgs.join(", ")),
    }
}

fn chat_roles(stages: &[StageSpec]) -> Vec<String> {
    stages
        .iter()
        .filter_map(|s| match s {
            StageSpec::Chat(_, _, roles, _) => Some(roles.iter().map(|r| r.0.clone()).collect::<Vec<String>>()),
            _ => None,
        })
        .next()
        .unwrap_or_default()
}

fn gen_mask(rng: &mut Rng, safe: bool) -> MaskSpec {
    let tok = gen_tok(rng);
    let token = if !safe && rng.chance(1, 12) {
        rng.pick(&["<mask>", "", "ab", "é"]).to_string()
    } else {
        rng.pick(&["<unk>", "<unk>", "<pad>", "#", "<eos>", "\u{0}"]).to_string()
    };
    let p = match rng.below(16) {
        0 => 1.0,
        1 => 0.0,
        2 => 2.0 / 3.0,
        3 => f64::from_bits((2.0f64 / 3.0).to_bits() - 1),
        4 => 0.5,
        5 => 0.15,
        6 => 0.4,
        7 => 1e-9,
        8 => 3e-5,
        9 if !safe => *rng.pick(&[1.5, -0.25, f64::NAN, f64::INFINITY]),
        10 => 0.9,
        11 => 0.01,
        _ => (1 + rng.below(1 << 16)) as f64 / (1u64 << 16) as f64,
    };
    let num_p = match rng.below(8) {
        0 => 1.0,
        1 => 0.0,
        2 => f64::INFINITY,
        3 => 0.5,
        4 => 5e-324,
        _ => (1 + rng.below(1 << 10)) as f64 / (1u64 << 10) as f64,
    };
    let min = if !safe && rng.chance(1, 20) { 0 } else { *rng.pick(&[1, 1, 1, 2, 3, 5]) };
    MaskSpec { tok, p, min, num_p, token }
}

/// mask script: the TokenMasking function alone on a synthetic item with `n` token ids
fn mask_gen(rng: &mut Rng) -> Val {
    let mut m = gen_mask(rng, false);
    // this line is about the sampler: probabilities that mask often
    if rng.chance(1, 2) {
        m.num_p = f64::INFINITY;
        m.min = 1;
    }
    let n = match rng.below(10) {
        0 => rng.below(4),
        1..=4 => rng.range(4, 12),
        5 => 200,
        _ => rng.range(12, 80),
    };
    let ids: Vec<Val> = (0..n).map(|i| Val::u(1000 + i)).collect();
    let seed = if rng.chance(1, 6) { rng.next_u64() } else { rng.below(100_000) as u64 };
    Val::L(vec![Val::I(-7), m.to_val(), Val::u(rng.below(4)), Val::L(ids), hl(seed)])
}

fn mask_run(input: &Val) -> Option<(Val, Vec<String>)> {
    use text_utils::data::TrainTaskInput as T;
    let l = input.as_l()?;
    if l.len() != 5 {
        return None;
    }
    let m = MaskSpec::from_val(&l[1])?;
    let kind = l[2].as_usize()?;
    let ids: Vec<u32> = l[3].as_l()?.iter().map(|x| x.as_usize().and_then(|u| u32::try_from(u).ok())).collect::<Option<_>>()?;
    if ids.len() > 2000 || kind > 3 {
        return None;
    }
    let seed = un_hl(&l[4])?;
    let mut tags = vec!["mask".to_string()];
    if m.p >= 2.0 / 3.0 {
        tags.push("geo-trivial".into());
    } else if m.p > 0.0 {
        tags.push("geo-bf".into());
    }
    let real = m.to_real();
    let f = match std::panic::catch_unwind(move || {
        text_utils::data::postprocessing::postprocessing(real, std::sync::Arc::new(std::sync::atomic::AtomicUsize::new(512)))
    }) {
        Ok(f) => f,
        Err(_) => {
            tags.push("rejected".into());
            return Some((Val::L(vec![Val::I(0)]), tags));
        }
    };
    let once = || -> Vec<Val> {
        let input = match kind {
            0 => T::Classification { token_ids: ids.clone(), pad_token_id: 0, label: 0 },
            1 => T::SequenceClassification { token_ids: ids.clone(), pad_token_id: 0, labels: vec![] },
            2 => T::Generation { token_ids: ids.clone(), pad_token_id: 0, labels: vec![] },
            _ => T::ConditionalGeneration { token_ids: ids.clone(), pad_token_id: 0, target_token_ids: vec![], target_pad_token_id: 0, labels: vec![] },
        };
        let item = TrainItem::new(text_utils::data::TrainData::new(String::new(), None), input);
        let info = TextDataInfo { seed, ..Default::default() };
        match std::panic::catch_unwind(std::panic::AssertUnwindSafe(|| f(item, info))) {
            Err(_) => vec![Val::I(-777)],
            Ok(Err(_)) => vec![Val::I(2)],
            Ok(Ok((it, _))) => {
                let out = match &it.input {
                    T::Classification { token_ids, .. }
                    | T::SequenceClassification { token_ids, .. }
                    | T::Generation { token_ids, .. }
                    | T::ConditionalGeneration { token_ids, .. } => ids_u32(token_ids),
                };
                vec![Val::I(1), out]
            }
        }
    };
    let f2 = &once;
    let out = {
        let first = f2();
        let second = f2();
        let rep = first == second;
        let mut o = first;
        match o[0] {
            Val::I(1) => {
                let changed = o[1].as_l().map(|l| l.iter().zip(ids.iter()).filter(|(a, b)| a.as_usize() != Some(**b as usize)).count()).unwrap_or(0);
                if changed > 0 {
                    tags.push("masked".into());
                    tags.push("nt".into());
                }
                o.push(Val::b(rep));
            }
            Val::I(2) => o.push(Val::b(rep)),
            _ => {
                tags.push("panic".into());
                if !rep {
                    o = vec![Val::I(-779)];
                }
            }
        }
        Val::L(o)
    };
    Some((out, tags))
}

/// the item's preprocessing extended by stages of the table: the configuration, the tables, and the texts (a chat stage on
/// the input needs chat json as the input text)
fn add_stages(rng: &mut Rng, spec: &mut PipeSpec, input: &mut String, target: &str, safe: bool) -> (Vec<StageSpec>, Vec<MaskSpec>) {
    let mut stages: Vec<StageSpec> = vec![];
    let mut qstages: Vec<MaskSpec> = vec![];
    // the older lines' packed ids do not exist here: replace them by table entries
    fn lift(c: &MCfg, stages: &mut Vec<StageSpec>) -> MCfg {
        match c {
            MCfg::Chain(l) => MCfg::Chain(l.iter().map(|c| lift(c, stages)).collect()),
            MCfg::Switch(l, ps) => MCfg::Switch(l.iter().map(|c| lift(c, stages)).collect(), ps.clone()),
            MCfg::JsonDecode(p) => {
                stages.push(StageSpec::Json(*p));
                MCfg::Stage(stages.len() - 1)
            }
            MCfg::Spell(p, fd, pw, pc) => {
                stages.push(StageSpec::Spell(*p, SPELL_PW[*pw as usize], *fd, SModeSpec::Art(SPELL_PC[*pc as usize], 2.0, None)));
                MCfg::Stage(stages.len() - 1)
            }
            c => c.clone(),
        }
    }
    for c in spec.cfgs.iter_mut() {
        *c = lift(c, &mut stages);
    }
    if stages.len() > 2 {
        stages.clear();
        for c in spec.cfgs.iter_mut() {
            *c = MCfg::None;
        }
    }
    let kind = rng.below(10);
    let n0 = stages.len();
    match kind {
        0..=5 => {
            let tg = rng.chance(1, 5);
            // words with several regex parts (the misspellings of a part are spliced into the word)
            if !tg && rng.chance(1, 3) {
                input.push_str(*rng.pick(&[" ab.c", " xy-ab.c", " a.b.c", " ab-ab"]));
            }
            let st = gen_spell_stage(rng, tg, if tg { target } else { input.as_str() }, safe);
            stages.push(st);
        }
        6 | 7 => {
            stages.push(gen_chat_stage(rng, false));
            if !rng.chance(1, 10) {
                *input = gen_chat_text(rng, &chat_roles(&stages));
            }
        }
        8 => {
            stages.push(StageSpec::Json(false));
            if !rng.chance(1, 6) {
                *input = serde_json::to_string(input).unwrap();
            }
        }
        _ => {}
    }
    if stages.len() > n0 {
        let k = stages.len() - 1;
        let first = matches!(stages[k], StageSpec::Chat(..) | StageSpec::Json(_));
        for c in spec.cfgs.iter_mut() {
            let c0 = c.clone();
            *c = if first {
                // decoding stages come first (the other stages then work on the decoded text)
                MCfg::Chain(vec![MCfg::Stage(k), c0])
            } else {
                // what was there stays (it may set the marks the postprocessing reads)
                let sw = MCfg::Switch(vec![MCfg::Stage(k), MCfg::None], vec![0.5, 0.5]);
                match rng.below(4) {
                    0 => MCfg::Chain(vec![c0, MCfg::Stage(k)]),
                    1 => MCfg::Chain(vec![MCfg::Stage(k), c0]),
                    2 => MCfg::Chain(vec![sw, c0]),
                    _ => MCfg::Chain(vec![c0, sw]),
                }
            };
        }
    }
    // TokenMasking: in front of / behind what is there, or as an alternative of a switch
    if rng.chance(3, 5) {
        let mut m = gen_mask(rng, safe);
        if safe {
            // the loader lines exclude panicking calls: the masking tokenizer is the task's own where the task has one
            // (len - prefix - suffix cannot underflow on an unclipped sequence)
            match &spec.task {
                TaskSpec::Wsc(_, t) | TaskSpec::Class(t, _, _) | TaskSpec::Cond(t, _, _, _) => m.tok = t.clone(),
                TaskSpec::Gen(_, t, _, _) => {
                    // the generation task drops the last token id: one suffix token less, or an empty text underflows
                    m.tok = t.clone();
                    m.tok.suffix.pop();
                }
            }
        }
        qstages.push(m);
        for q in spec.qcfgs.iter_mut() {
            let q0 = q.clone();
            *q = match rng.below(4) {
                0 => QCfg::Mask(0),
                1 => QCfg::Chain(vec![QCfg::Mask(0), q0]),
                2 if !safe => QCfg::Chain(vec![q0, QCfg::Mask(0)]),
                2 => QCfg::Chain(vec![QCfg::Mask(0), QCfg::Clip]),
                _ => QCfg::Switch(vec![QCfg::Mask(0), q0], vec![0.5, 0.5]),
            };
        }
    }
    (stages, qstages)
}

fn xitem_gen(rng: &mut Rng) -> Val {
    xitem_gen_with(rng, false)
}

/// `kinds`: line -8, the tokenizers of the task get other kinds
fn xitem_gen_with(rng: &mut Rng, kinds: bool) -> Val {
    let mut spec = gen_pipe_spec(rng, 2, false);
    let (mut input, target) = gen_item_texts(rng, &spec.task);
    let (stages, qstages) = add_stages(rng, &mut spec, &mut input, &target, false);
    if kinds {
        let joined = format!("{}{}", input, target);
        kindify(rng, &mut spec.task, &[input.clone(), target.clone(), joined]);
    }
    let x = XPipe { pipe: spec, stages, qstages };
    let seed = if rng.chance(1, 6) { rng.next_u64() } else { rng.below(5000) as u64 };
    let mut marks = HashMap::new();
    if rng.chance(1, 2) {
        marks.insert("k".to_string(), rng.pick(&["old", "v", "w", "vv", "", "wv"]).to_string());
    }
    let [p, t, q, m] = x.pipe.vals();
    let [st, qs] = x.table_vals();
    Val::L(vec![Val::I(if kinds { -8 } else { -5 }), p, t, q, m, Val::str(&input), Val::str(&target), hl(seed), Val::u(rng.below(3)), marks_val(&marks), st, qs])
}

impl C08 {
    fn xitem_run(&self, input: &Val) -> Option<(Val, Vec<String>)> {
        let l = input.as_l()?;
        if l.len() != 12 {
            return None;
        }
        // line -8: the same line with every tokenizer kind in the task
        let kinds = l[0].as_i() == Some(-8);
        let x = XPipe::from_vals_with(&l[1], &l[2], &l[3], &l[4], &l[10], &l[11], kinds)?;
        let inp = l[5].to_string_lossy()?;
        let tgt = l[6].to_string_lossy()?;
        if inp.chars().count() > 600 || tgt.chars().count() > 400 {
            return None;
        }
        let info = TextDataInfo { seed: un_hl(&l[7])?, file_idx: l[8].as_usize()?, marks: val_marks(&l[9])? };
        let mut tags = vec![if kinds { "kitem" } else { "xitem" }.to_string()];
        x.tags(&mut tags);
        if kinds {
            x.pipe.task.kind_tags(&mut tags);
        }
        let real = x.to_real(&self.dir)?;
        let maxlen = x.pipe.maxlen;
        let pipe = match std::panic::catch_unwind(move || train_pipeline(real, maxlen)) {
            Ok(Ok((pipe, _))) => pipe,
            _ => {
                tags.push("rejected".into());
                return Some((Val::L(vec![Val::I(0)]), tags));
            }
        };
        let once = || -> Vec<Val> {
            let data = text_utils::data::TrainData::new(inp.clone(), Some(tgt.clone()));
            let info = info.clone();
            let pipe = pipe.clone();
            match std::panic::catch_unwind(std::panic::AssertUnwindSafe(move || pipe((data, info)))) {
                Err(_) => vec![Val::I(-777)],
                Ok(Err(_)) => vec![Val::I(2)],
                Ok(Ok(it)) => vec![Val::I(1), Val::str(it.data.verif_input()), Val::str(it.data.verif_target()), tinput_val(&it.input)],
            }
        };
        let first = once();
        let second = once();
        let third = std::thread::scope(|s| s.spawn(|| once()).join().ok());
        let rep = second == first && third.as_ref() == Some(&first);
        let mut out = first;
        match out[0] {
            Val::I(1) => {
                tags.push("ok".into());
                if out[1].to_string_lossy().as_deref() != Some(inp.as_str()) || !x.qstages.is_empty() {
                    tags.push("nt".into());
                }
                out.push(Val::b(rep));
            }
            Val::I(2) => {
                tags.push("err".into());
                out.push(Val::b(rep));
            }
            _ => {
                tags.push("panic".into());
                if !rep {
                    out = vec![Val::I(-779)];
                }
            }
        }
        Some((Val::L(out), tags))
    }
}

fn xbytes_gen(rng: &mut Rng) -> Val {
    xbytes_gen_with(rng, false)
}

fn xbytes_gen_with(rng: &mut Rng, kinds: bool) -> Val {
    let nfiles = rng.range(1, 3);
    let strategy = rng.below(3) as i64;
    let mut pipe = gen_pipe_spec(rng, nfiles, true);
    // the texts: one sample decides the stage (a chat / json stage needs decodable inputs), the lines follow it
    let (mut sample_in, sample_tg) = gen_item_texts(rng, &pipe.task);
    let before = sample_in.clone();
    let (stages, qstages) = add_stages(rng, &mut pipe, &mut sample_in, &sample_tg, true);
    let chat_in = stages.iter().any(|s| matches!(s, StageSpec::Chat(false, ..)));
    let json_in = !chat_in && stages.iter().any(|s| matches!(s, StageSpec::Json(false))) && sample_in != before;
    let lines: Vec<Vec<Option<(String, String)>>> = (0..nfiles)
        .map(|fi| {
            let n = if strategy == 2 && !rng.chance(1, 30) { rng.range(1, 8) } else { rng.range(0, 8) };
            (0..n)
                .map(|li| {
                    if rng.chance(1, 9) {
                        return None;
                    }
                    if fi == 0 && li == 0 {
                        return Some((sample_in.clone(), sample_tg.clone()));
                    }
                    let (mut i, t) = gen_item_texts(rng, &pipe.task);
                    if chat_in && !rng.chance(1, 10) {
                        i = gen_chat_text(rng, &chat_roles(&stages));
                    } else if json_in && !rng.chance(1, 6) {
                        i = serde_json::to_string(&i).unwrap();
                    }
                    Some((i, t))
                })
                .collect()
        })
        .collect();
    if kinds {
        let mut texts: Vec<String> = vec![];
        for (i, t) in lines.iter().flatten().flatten() {
            texts.push(i.clone());
            texts.push(t.clone());
            texts.push(format!("{}{}", i, t));
        }
        kindify(rng, &mut pipe.task, &texts);
    }
    let total: usize = lines.iter().map(|f| f.len()).sum();
    let world = rng.range(1, 4);
    let lim: i64 = if rng.chance(1, 3) { -1 } else { rng.range(0, total + 2) as i64 };
    let skip = if rng.chance(1, 2) { 0 } else { rng.range(0, total / 2 + 1) };
    let ff = if rng.chance(1, 3) { 0 } else { rng.range(0, total / 2 + 1) };
    let files: Vec<Vec<u8>> = lines.iter().map(|f| gen_bfile(rng, f)).collect();
    let mut b = BSpec {
        files,
        strategy,
        seed: if rng.chance(1, 8) { rng.next_u64() >> 24 } else { rng.below(1000) as u64 },
        epoch: rng.below(3),
        pipe,
        lim,
        skip,
        ff,
        rank: rng.below(world),
        world,
        sort: rng.chance(1, 3),
        shuffle: rng.chance(1, 2),
        prefetch: rng.below(4),
        blim: if rng.chance(1, 2) { rng.range(0, 6) } else { rng.range(20, 400) },
        ty: rng.below(2) as i64,
        threads: rng.below(5) as u8,
        buffer: rng.below(5),
        threads2: rng.below(5) as u8,
        buffer2: rng.below(5),
    };
    no_seed_now_and_then(rng, &mut b.seed, b.shuffle);
    let x = XPipe { pipe: b.pipe.clone(), stages, qstages };
    let mut v = match b.to_val() {
        Val::L(l) => l,
        _ => unreachable!(),
    };
    v[0] = Val::I(if kinds { -9 } else { -6 });
    let [st, qs] = x.table_vals();
    v.push(st);
    v.push(qs);
    Val::L(v)
}

impl C08 {
    /// the byte loader line with stage tables: `bytes_run` with the pipeline built from the tables
    fn xbytes_run(&self, input: &Val) -> Option<(Val, Vec<String>)> {
        self.xbytes_run_inner(input, false)
    }

    /// `dry`: stop after the single-threaded table (used by `gen` to screen out cases in which some pipeline call panics:
    /// such a case is INVALID for the loader lines, and the runner counts an INVALID generated case as a disagreement)
    fn xbytes_run_inner(&self, input: &Val, dry: bool) -> Option<(Val, Vec<String>)> {
        let l = input.as_l()?;
        if l.len() != 25 {
            return None;
        }
        let kinds = l[0].as_i() == Some(-9);
        let x = XPipe::from_vals_with(&l[5], &l[6], &l[7], &l[8], &l[23], &l[24], kinds)?;
        // the loader part is parsed by BSpec with a pipeline that has no references
        let mut plain: Vec<Val> = l[..23].to_vec();
        plain[0] = Val::I(-3);
        plain[6] = Val::L(vec![Val::I(3), gen_tok_plain().to_val(), Val::I(0), Val::L(vec![Val::str("a"), Val::str("b")])]);
        plain[5] = Val::L(vec![Val::I(0), Val::L(vec![Val::I(0)])]);
        plain[7] = Val::L(vec![Val::I(0), Val::L(vec![Val::I(0)])]);
        let s = BSpec::from_val(&Val::L(plain))?;
        std::fs::create_dir_all(&self.dir).ok()?;
        let mut paths = vec![];
        for (fi, f) in s.files.iter().enumerate() {
            let p = self.dir.join(format!("x{fi}.jsonl"));
            std::fs::write(&p, f).ok()?;
            paths.push(p.to_string_lossy().to_string());
        }
        let mut tags = vec![if kinds { "kbytes" } else { "xbytes" }.to_string(), format!("strategy{}", s.strategy), format!("world{}", s.world)];
        x.tags(&mut tags);
        if kinds {
            x.pipe.task.kind_tags(&mut tags);
        }
        let real = x.to_real(&self.dir)?;
        let maxlen = x.pipe.maxlen;
        let real2 = real.clone();
        let pipe = std::panic::catch_unwind(move || train_pipeline(real2, maxlen));
        reset_panic_hook();
        let mut table: Vec<Val> = vec![];
        let mut n_err_lines = 0usize;
        if let Ok(Ok((pipe, _))) = &pipe {
            let seed = eff_seed(s.seed) + s.epoch as u64;
            let gens = paths.iter().map(train_data_generator_from_jsonl).collect::<anyhow::Result<Vec<_>>>().ok()?;
            if let Ok(gen) = MultiTrainDataGenerator::new(gens, strategy_of(s.strategy), Some(seed)) {
                for (pos, (data, file_idx)) in gen.enumerate() {
                    match data {
                        Ok(d) => {
                            let info = TextDataInfo { file_idx, seed: seed + pos as u64, ..Default::default() };
                            let pipe = pipe.clone();
                            match std::panic::catch_unwind(std::panic::AssertUnwindSafe(move || pipe((d, info)))) {
                                Err(_) => return None,
                                Ok(Ok(it)) => table.push(titem_val(&it)),
                                Ok(Err(_)) => (),
                            }
                        }
                        Err(_) => n_err_lines += 1,
                    }
                }
            }
        }
        if dry {
            return Some((Val::L(vec![]), vec![]));
        }
        let s2 = s.clone();
        let out = with_timeout(20_000, move || {
            let s = &s2;
            let run = |threads: u8, buffer: usize| -> Result<(Option<usize>, Vec<Vec<Val>>, Vec<String>), ()> {
                let args = TrainLoaderArgs {
                    files: paths.clone(),
                    pipeline: real.clone(),
                    strategy: strategy_of(s.strategy),
                    num_threads: threads,
                    buffer_size: buffer,
                    batch_limit: s.blim,
                    batch_limit_type: if s.ty == 0 { BatchLimitType::BatchSize } else { BatchLimitType::PaddedItemSize },
                    max_length: maxlen,
                    shuffle: s.shuffle,
                    prefetch_factor: s.prefetch,
                    sort: s.sort,
                    seed: opt_seed(s.seed),
                    skip: s.skip,
                    limit: if s.lim < 0 { None } else { Some(s.lim as usize) },
                    distributed: Some((s.rank, s.world)),
                    epoch: s.epoch,
                    fast_forward: s.ff,
                };
                let r = std::panic::catch_unwind(std::panic::AssertUnwindSafe(|| train_loader_batches(args, None)));
                reset_panic_hook();
                let (min_items, batches) = match r {
                    Ok(Ok(x)) => x,
                    _ => return Err(()),
                };
                let mut bs = vec![];
                let mut tensors = vec![];
                for (items, t) in batches {
                    bs.push(items.iter().map(titem_val).collect::<Vec<Val>>());
                    tensors.push(format!("{:?}", t));
                }
                Ok((min_items, bs, tensors))
            };
            let a = run(s.threads, s.buffer);
            let b = run(s.threads2, s.buffer2);
            match (a, b) {
                (Err(()), Err(())) => Val::L(vec![Val::I(0)]),
                (Ok(a), Ok(b)) => {
                    let same = a == b;
                    let table_ok = a.1.iter().all(|b| b.iter().all(|it| table.contains(it)));
                    Val::L(vec![Val::I(1), Val::u(a.0.unwrap_or(UNKNOWN_ITEM)), Val::L(a.1.into_iter().map(Val::L).collect()), Val::b(same), Val::b(table_ok)])
                }
                _ => Val::L(vec![Val::I(-779)]),
            }
        });
        let n_items: usize =
            out.nth(2).and_then(|v| v.as_l()).map(|bs| bs.iter().map(|b| b.as_l().map(|l| l.len()).unwrap_or(0)).sum()).unwrap_or(0);
        if s.threads > 0 || s.threads2 > 0 {
            tags.push("threaded".into());
        }
        if n_err_lines > 0 {
            tags.push("errlines".into());
        }
        if out.nth(0).and_then(|v| v.as_i()) == Some(0) {
            tags.push("rejected".into());
        }
        if n_items >= 2 && (s.threads > 0 || s.threads2 > 0) {
            tags.push("nt".into());
        }
        Some((out, tags))
    }
}

impl Prop for C08 {
    fn gen(&mut self, rng: &mut Rng, _tier: Tier, i: usize, _n: usize) -> Val {
        // one scenario with an oracle table in twelve cases; the others are cases over modelled pipelines (10, 11: every tokenizer kind)
        match i % 12 {
            0 => (),
            10 => return xitem_gen_with(rng, true),
            11 => {
                for _ in 0..8 {
                    let v = xbytes_gen_with(rng, true);
                    if self.xbytes_run_inner(&v, true).is_some() {
                        return v;
                    }
                }
                return xitem_gen_with(rng, true);
            }
            1 => return exact_gen(rng),
            2 | 3 => return bytes_gen(rng),
            4 => return item_gen(rng),
            5 => return xitem_gen(rng),
            6 => {
                // a case in which some pipeline call panics is INVALID for a loader line: screened out here (about 1 in 8 000)
                for _ in 0..8 {
                    let v = xbytes_gen(rng);
                    if self.xbytes_run_inner(&v, true).is_some() {
                        return v;
                    }
                }
                return mask_gen(rng);
            }
            7 => return mask_gen(rng),
            _ => return direct_gen(rng),
        }
        let nfiles = rng.range(1, 3);
        let strategy = rng.below(3) as i64;
        let pipeline = rng.below(5) as i64;
        let files: Vec<Vec<i64>> = (0..nfiles)
            .map(|_| {
                let n = if strategy == 2 { rng.range(1, 12) } else { rng.range(0, 12) };
                (0..n)
                    .map(|_| {
                        let k = rng.below(20);
                        if k == 0 {
                            1
                        } else if k == 1 {
                            2
                        } else if pipeline == 2 && k < 14 {
                            3
                        } else {
                            0
                        }
                    })
                    .collect()
            })
            .collect();
        let total: usize = files.iter().map(|f| f.len()).sum();
        let shuffle = rng.chance(1, 3);
        let sort = rng.chance(1, 4);
        let world = rng.range(1, 4);
        let spec = Spec {
            files,
            strategy,
            // the loader's default seed = None now and then (only without shuffle: the constructor refuses that)
            seed: if !shuffle && rng.chance(1, 4) { NO_SEED } else { rng.below(1000) as u64 },
            epoch: rng.below(3),
            threads: rng.below(5) as u8,
            buffer: rng.below(5),
            threads2: rng.below(5) as u8,
            buffer2: rng.below(5),
            sort,
            shuffle,
            prefetch: rng.below(4),
            batch_limit: if rng.chance(1, 2) { rng.range(0, 6) } else { rng.range(20, 400) },
            limit_type: rng.below(2) as i64,
            pipeline,
        };
        let lim: i64 = if rng.chance(1, 3) { -1 } else { rng.range(0, total + 2) as i64 };
        let skip = if rng.chance(1, 2) { 0 } else { rng.range(0, total / 2 + 1) };
        let ff = if rng.chance(1, 3) { 0 } else { rng.range(0, total / 2 + 1) };
        let rank = rng.below(world);
        let k = rng.range(0, total + 1);
        let pre = Val::L(vec![
            Val::u(0),
            Val::L(vec![]),
            Val::L(vec![]),
            Val::I(lim),
            Val::u(skip),
            Val::u(ff),
            Val::u(rank),
            Val::u(world),
            Val::u(k),
            Val::b(!shuffle && !sort),
            spec.to_val(),
        ]);
        self.canon(&pre).unwrap_or(pre)
    }

    fn canon(&mut self, input: &Val) -> Option<Val> {
        let l = input.as_l()?;
        if matches!(l.first().and_then(|k| k.as_i()), Some(-1) | Some(-2) | Some(-3) | Some(-4) | Some(-5) | Some(-6) | Some(-7) | Some(-8) | Some(-9)) {
            return Some(input.clone());
        }
        if l.len() != 11 {
            return None;
        }
        let spec = Spec::from_val(&l[10])?;
        let w = self.build_world(&spec)?;
        let world = l[7].as_usize()?.clamp(1, 6);
        let rank = l[6].as_usize()?.min(world - 1);
        Some(Val::L(vec![
            Val::u(w.table.len()),
            Val::L(w.table.iter().map(|t| Val::b(t.0)).collect()),
            Val::L(w.table.iter().map(|t| Val::b(t.1)).collect()),
            l[3].clone(),
            l[4].clone(),
            l[5].clone(),
            Val::u(rank),
            Val::u(world),
            l[8].clone(),
            Val::b(!spec.shuffle && !spec.sort),
            spec.to_val(),
        ]))
    }

    fn run(&mut self, input: &Val) -> Option<(Val, Vec<String>)> {
        let l = input.as_l()?;
        if l.first().and_then(|k| k.as_i()) == Some(-1) {
            return direct_run(input);
        }
        if l.first().and_then(|k| k.as_i()) == Some(-2) {
            return self.exact_run(input);
        }
        if l.first().and_then(|k| k.as_i()) == Some(-3) {
            return self.bytes_run(input);
        }
        if l.first().and_then(|k| k.as_i()) == Some(-4) {
            return item_run(input);
        }
        if matches!(l.first().and_then(|k| k.as_i()), Some(-5) | Some(-8)) {
            return self.xitem_run(input);
        }
        if matches!(l.first().and_then(|k| k.as_i()), Some(-6) | Some(-9)) {
            return self.xbytes_run(input);
        }
        if l.first().and_then(|k| k.as_i()) == Some(-7) {
            return mask_run(input);
        }
        if l.len() != 11 {
            return None;
        }
        let spec = Spec::from_val(&l[10])?;
        let w = self.build_world(&spec)?;
        // the oracle part of the input must be what the crate says now
        if l[0].as_usize()? != w.table.len()
            || l[1] != Val::L(w.table.iter().map(|t| Val::b(t.0)).collect())
            || l[2] != Val::L(w.table.iter().map(|t| Val::b(t.1)).collect())
            || l[9].as_bool()? != (!spec.shuffle && !spec.sort)
        {
            return None;
        }
        let lim_i = l[3].as_i()?;
        let limit = if lim_i < 0 { None } else { Some(lim_i as usize) };
        let skip = l[4].as_usize()?;
        let ff = l[5].as_usize()?;
        let rank = l[6].as_usize()?;
        let world = l[7].as_usize()?;
        let k = l[8].as_usize()?;
        if world == 0 || world > 6 || rank >= world || skip > 10_000 || ff > 10_000 || k > 10_000 {
            return None;
        }
        let (s2, w2) = (spec.clone(), ());
        let _ = w2;
        let out = with_timeout(20_000, move || {
            let s = &s2;
            let run = |threads, buffer, skip, limit, dist, ff| loader_run(&w, s, threads, buffer, skip, limit, dist, ff);
            let a = run(s.threads, s.buffer, skip, limit, Some((rank, world)), ff);
            let b = run(s.threads2, s.buffer2, skip, limit, Some((rank, world)), ff);
            let cs: Vec<Option<RunOut>> = (0..world).map(|r| run(0, 0, skip, limit, Some((r, world)), 0)).collect();
            let d = run(s.threads, s.buffer2, skip, limit, None, 0);
            let e = run(s.threads2, s.buffer, skip, limit, None, k);
            let f = run(0, 1, 0, Some(k), None, 0);
            let g = run(1, 0, k, None, None, 0);
            let h = run(0, 0, 0, None, None, 0);
            let (Some(a), Some(b), Some(d), Some(e), Some(f), Some(g), Some(h)) = (a, b, d, e, f, g, h) else {
                return Val::L(vec![Val::I(-1)]);
            };
            let Some(cs) = cs.into_iter().collect::<Option<Vec<RunOut>>>() else {
                return Val::L(vec![Val::I(-1)]);
            };
            let same = a.shape == b.shape && a.min_items == b.min_items;
            let fp_ok = a.fp_ok
                && b.fp_ok
                && d.fp_ok
                && e.fp_ok
                && f.fp_ok
                && g.fp_ok
                && h.fp_ok
                && cs.iter().all(|c| c.fp_ok);
            Val::L(vec![
                ids_val(&a.ids),
                Val::L(cs.iter().map(|c| ids_val(&c.ids)).collect()),
                ids_val(&d.ids),
                ids_val(&e.ids),
                ids_val(&f.ids),
                ids_val(&g.ids),
                ids_val(&h.ids),
                Val::u(a.min_items.unwrap_or(UNKNOWN_ITEM)),
                Val::L(vec![Val::b(same), Val::b(fp_ok)]),
            ])
        });
        let mut tags = vec![
            format!("strategy{}", spec.strategy),
            format!("pipeline{}", spec.pipeline),
            format!("world{world}"),
        ];
        if spec.shuffle {
            tags.push("shuffle".into());
        }
        if spec.sort {
            tags.push("sort".into());
        }
        if spec.threads > 0 || spec.threads2 > 0 {
            tags.push("threaded".into());
        }
        let n_a = out.nth(0).and_then(|v| v.as_l()).map(|l| l.len()).unwrap_or(0);
        if n_a >= 2 && world >= 2 && (spec.threads > 0 || spec.threads2 > 0) {
            tags.push("nt".into());
        }
        Some((out, tags))
    }
}

fn main() {
    let dir = std::env::temp_dir().join(format!("verif-c08-{}", std::process::id()));
    let c = C08 { dir: dir.clone() };
    main_loop(c);
    let _ = std::fs::remove_dir_all(dir);
}

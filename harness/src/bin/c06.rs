//! C06: Batched (all four sort/shuffle modes, both limit types) against the model.
//! input  = (sort shuffle prefetch limit ty seed sizes)   items are (position, size)
//! output = (batches rep) | (2 batches) more batches than items | (-777) panic | (-778) hang
//!          batches = lists of item positions; rep = a second run with the same seed
//!          produced the same batches.
//! The rng decisions are not observed: the model side reconstructs, batch by batch, an
//! oracle under which its own build_batch emits what the implementation emitted.
use text_utils::data::loading::{BatchLimitType, BatchedIterator, ItemSize};
use vh::*;

const TIMEOUT_MS: u64 = 1500;
const CONFIRM_MS: u64 = 6000;

struct C06 {
    hung: bool,
}

#[derive(Clone, Debug)]
struct Item {
    id: usize,
    size: usize,
}

impl ItemSize for Item {
    fn size(&self) -> usize {
        self.size
    }
}

#[derive(Clone, Debug)]
struct Cfg {
    sort: bool,
    shuffle: bool,
    prefetch: usize,
    limit: usize,
    ty: i64,
    seed: u64,
    sizes: Vec<usize>,
}

fn parse_input(input: &Val) -> Option<Cfg> {
    let l = input.as_l()?;
    if l.len() != 7 {
        return None;
    }
    let sizes: Vec<usize> = l[6].as_l()?.iter().map(|v| v.as_usize()).collect::<Option<_>>()?;
    Some(Cfg {
        sort: l[0].as_bool()?,
        shuffle: l[1].as_bool()?,
        prefetch: l[2].as_usize()?,
        limit: l[3].as_usize()?,
        ty: l[4].as_i()?,
        seed: u64::try_from(l[5].as_i()?).ok()?,
        sizes,
    })
}

fn to_val(c: &Cfg) -> Val {
    Val::L(vec![
        Val::b(c.sort),
        Val::b(c.shuffle),
        Val::u(c.prefetch),
        Val::u(c.limit),
        Val::I(c.ty),
        Val::I(c.seed as i64),
        Val::list(c.sizes.iter(), |s| Val::u(*s)),
    ])
}

/// run the real iterator to the end
fn drain(c: &Cfg) -> Val {
    let items: Vec<Item> = c.sizes.iter().enumerate().map(|(id, s)| Item { id, size: *s }).collect();
    let n = items.len();
    let ty = if c.ty == 0 { BatchLimitType::BatchSize } else { BatchLimitType::PaddedItemSize };
    let it = items.into_iter().batched(c.sort, c.shuffle, c.prefetch, c.limit, ty, Some(c.seed));
    let mut batches = vec![];
    for b in it {
        batches.push(Val::list(b.iter(), |x| Val::u(x.id)));
        if batches.len() > n + 2 {
            return Val::L(vec![Val::I(2), Val::L(batches)]);
        }
    }
    Val::L(batches)
}

impl C06 {
    fn watched(&mut self, c: &Cfg) -> Val {
        let c1 = c.clone();
        let v = with_timeout(TIMEOUT_MS, move || drain(&c1));
        if v != Val::hang() {
            return v;
        }
        let c2 = c.clone();
        let v = with_timeout(CONFIRM_MS, move || drain(&c2));
        if v == Val::hang() {
            self.hung = true;
        }
        v
    }
}

fn gen_sizes(rng: &mut Rng, n: usize, maxs: usize) -> Vec<usize> {
    match rng.below(10) {
        0 => vec![rng.below(maxs + 1); n],                          // all equal
        1 => (0..n).map(|_| if rng.chance(1, 2) { 0 } else { rng.below(maxs + 1) }).collect(), // many zeros
        2 => (0..n).map(|i| i % (maxs + 1)).collect(),              // ascending saw
        3 => (0..n).map(|i| maxs - i % (maxs + 1)).collect(),       // descending saw
        4 => (0..n).map(|_| if rng.chance(1, 5) { maxs * 3 + 1 } else { rng.below(3) }).collect(), // oversized
        _ => (0..n).map(|_| rng.below(maxs + 1)).collect(),
    }
}

impl Prop for C06 {
    fn gen(&mut self, rng: &mut Rng, tier: Tier, _i: usize, _n: usize) -> Val {
        let mode = rng.below(4);
        let (sort, shuffle) = (mode & 1 == 1, mode & 2 == 2);
        let maxn = if tier == Tier::Thorough { 40 } else { 24 };
        let n = match rng.below(12) {
            0 => 0,
            1 => 1,
            2 => 2,
            _ => rng.range(3, maxn),
        };
        let maxs = *rng.pick(&[1usize, 2, 3, 6, 6]);
        let sizes = gen_sizes(rng, n, maxs);
        let limit = match rng.below(10) {
            0 => 0,
            1 => 1,
            2 => maxs,
            3 => maxs * 2,
            _ => rng.below(13),
        };
        let prefetch = rng.below(5);
        let ty = rng.below(2) as i64;
        let seed = match rng.below(6) {
            0 => 0,
            1 => rng.below(4) as u64,
            _ => rng.next_u64() >> 3,
        };
        to_val(&Cfg { sort, shuffle, prefetch, limit, ty, seed, sizes })
    }

    fn exhaustive(&mut self, _tier: Tier) -> Vec<Val> {
        // all size vectors of length <= 5 over {0,1,2,3}; limits 0..7; both limit types;
        // plain mode (prefetch irrelevant) and sort-only mode with prefetch 0..2;
        // the two shuffling modes on vectors of length <= 4 with prefetch 1..2 and one seed
        let mut all = vec![];
        let mut vecs: Vec<Vec<usize>> = vec![];
        for n in 0..=5usize {
            for code in 0..4usize.pow(n as u32) {
                let mut c = code;
                vecs.push((0..n).map(|_| { let d = c % 4; c /= 4; d }).collect());
            }
        }
        for v in &vecs {
            for limit in 0..=7usize {
                for ty in 0..2i64 {
                    all.push(to_val(&Cfg { sort: false, shuffle: false, prefetch: 1, limit, ty, seed: 0, sizes: v.clone() }));
                    for prefetch in 0..=2usize {
                        all.push(to_val(&Cfg { sort: true, shuffle: false, prefetch, limit, ty, seed: 0, sizes: v.clone() }));
                    }
                    if v.len() <= 4 && limit % 2 == 1 {
                        for prefetch in 1..=2usize {
                            for sort in [false, true] {
                                all.push(to_val(&Cfg { sort, shuffle: true, prefetch, limit, ty, seed: 11, sizes: v.clone() }));
                            }
                        }
                    }
                }
            }
        }
        all
    }

    fn run(&mut self, input: &Val) -> Option<(Val, Vec<String>)> {
        let c = parse_input(input)?;
        if c.sizes.len() > 200 || c.sizes.iter().any(|s| *s > 1000) || c.limit > 1000 || c.prefetch > 100 {
            return None;
        }
        if !(0..2).contains(&c.ty) || c.seed >= 1 << 62 {
            return None;
        }
        if self.hung {
            return None;
        }
        let mut tags = vec![match (c.sort, c.shuffle) {
            (false, false) => "plain",
            (true, false) => "sort",
            (false, true) => "shuffle",
            (true, true) => "sort+shuffle",
        }
        .to_string()];
        tags.push(if c.ty == 0 { "batch_size".into() } else { "padded".into() });
        let first = self.watched(&c);
        let Some(bl) = first.as_l() else {
            return Some((first, tags));
        };
        if first == Val::hang() || first == Val::panic() || bl.first() == Some(&Val::I(2)) {
            return Some((first, tags));
        }
        let second = self.watched(&c);
        let rep = second == first;
        // non-trivial: at least two batches, one of them with two or more items, at least
        // two different sizes in the input
        let nb = bl.len();
        let multi = bl.iter().any(|b| b.as_l().map(|l| l.len() >= 2).unwrap_or(false));
        let mut ds = c.sizes.clone();
        ds.sort();
        ds.dedup();
        if nb >= 2 && multi && ds.len() >= 2 {
            tags.push("nt".into());
        }
        if c.sizes.iter().any(|s| *s == 0) {
            tags.push("zero-size".into());
        }
        let lim = c.limit.max(1);
        if c.sizes.iter().any(|s| *s > lim) && c.ty == 1 {
            tags.push("oversized".into());
        }
        Some((Val::L(vec![first, Val::b(rep)]), tags))
    }

    fn canon(&mut self, input: &Val) -> Option<Val> {
        let l = input.as_l()?;
        if l.len() != 7 {
            return None;
        }
        let u = |v: &Val, m: i64| v.as_i().unwrap_or(0).rem_euclid(m);
        let sizes: Vec<usize> = l[6].as_l()?.iter().map(|v| u(v, 1001) as usize).collect();
        Some(to_val(&Cfg {
            sort: u(&l[0], 2) == 1,
            shuffle: u(&l[1], 2) == 1,
            prefetch: u(&l[2], 101) as usize,
            limit: u(&l[3], 1001) as usize,
            ty: u(&l[4], 2),
            seed: l[5].as_i()?.unsigned_abs() & ((1 << 62) - 1),
            sizes,
        }))
    }

    fn selfcheck(&mut self) -> Vec<String> {
        // different seeds give different batch sequences sometimes (shuffle modes)
        let mut errs = vec![];
        for sort in [false, true] {
            let mut distinct = std::collections::HashSet::new();
            for seed in 0..16u64 {
                let c = Cfg { sort, shuffle: true, prefetch: 2, limit: 3, ty: 0, seed, sizes: (0..12).map(|i| i % 4).collect() };
                distinct.insert(self.watched(&c).to_sexp());
            }
            if distinct.len() < 2 {
                errs.push(format!("shuffle (sort={sort}): 16 seeds gave one and the same batch sequence"));
            }
        }
        errs
    }
}

fn main() {
    main_loop(C06 { hung: false });
}

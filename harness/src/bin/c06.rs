//! C06: Batched (all four sort/shuffle modes, both limit types) against the model.
//! input  = (sort shuffle prefetch limit ty seed sizes)   items are (position, size); prefetch, limit and the
//!          sizes are written (hi lo) = hi * 2^32 + lo when they are 2^62 or more (EXTREME stream: every usize)
//! output = (batches rep obs) | (2 batches) more batches than items | (-777) panic | (-778) hang
//!          batches = lists of item positions; rep = a second run with the same seed
//!          produced the same batches (and pulled upstream at the same moments);
//!          obs = () for the deterministic modes, ((e_0 e_1 ...)) for the shuffling modes:
//!          the rng decisions of the run, one entry (n p) per emitted batch.
//! Three lines of correspondence (`agree_C06s`, C06_Seeded.v); all must accept:
//! * SEEDED (first line, every case): the model computes the shuffles and indices itself from the seed
//!   (ChaCha8, seed_from_u64, SliceRandom::shuffle with IncreasingUniform, random_range by Canon's method,
//!   all in Gallina: RNG_Model.v) in the order the code draws them, and must emit exactly the
//!   implementation's batches, order inside batches included. It reads the seven input fields and
//!   nothing else: nothing this harness observes or replays reaches it.
//! * relational: the model side reconstructs, batch by batch, an oracle under which its own
//!   build_batch emits what the implementation emitted.
//! * lock-step replay (tag `exact-rng`, shuffling modes; kept as a CROSS-CHECK of the first line with the
//!   real rand crates): the harness builds ChaCha8Rng::seed_from_u64(seed) itself (same rand / rand_chacha
//!   as /repo: one resolution) and replays `shuffle` / `random_range(0..m)` on index vectors in lock-step
//!   with the calls of next(). The sizes of the draws are OBSERVED, not re-computed: the upstream iterator
//!   is wrapped in a counter, so after call t the buffer length at shuffle time is
//!   (items pulled so far) - (items emitted before call t); for sort+shuffle the number of
//!   sub-sequences comes from the crate's own find_subsequences_of_max_size_k on the sorted
//!   sizes of the items known to be in the buffer. The oracle model run with these decisions must emit
//!   the implementation's batches, and it rejects a decision recorded for another buffer length.
//! MACHINE line (every case, both cargo profiles): the machine-integer model of the repaired code
//! (C06_Machine.v, `usize` = 64 bits, every + - * a numbered operation, overflow = panic with overflow checks /
//! wrapped value without) must emit the implementation's batches in BOTH profiles of the model; the debug harness
//! is built with overflow checks, the release harness without (tags ovf:checked / ovf:wrapping, measured at
//! start-up). The unbounded (unary) model runs next to it on inputs whose numbers are below 2^21.
use rand::seq::SliceRandom;
use rand::{Rng as _, SeedableRng};
use rand_chacha::ChaCha8Rng;
use std::sync::atomic::{AtomicUsize, Ordering};
use std::sync::Arc;
use text_utils::data::loading::{BatchLimitType, BatchedIterator, ItemSize};
use text_utils::utils::find_subsequences_of_max_size_k;
use vh::*;

const MAX_ITEMS: usize = 70_000;
const MAX_SIZE: usize = 70_000;
const MAX_LIMIT: usize = 1 << 20;
const MAX_PREFETCH: usize = 70_000;
const MAX_PRODUCT: usize = 1 << 22;
const TIMEOUT_MS: u64 = 1500;
const CONFIRM_MS: u64 = 6000;

struct C06 {
    hung: bool,
    /// this binary panics on integer overflow (debug profile) / wraps (release profile)
    checked: bool,
}

/// does this binary panic on integer overflow (cargo profile with overflow-checks) or wrap?
fn overflow_checked() -> bool {
    let a = std::hint::black_box(usize::MAX);
    let b = std::hint::black_box(1usize);
    let hook = std::panic::take_hook();
    std::panic::set_hook(Box::new(|_| {}));
    #[allow(arithmetic_overflow)]
    let r = std::panic::catch_unwind(move || std::hint::black_box(a + b)).is_err();
    std::panic::set_hook(hook);
    r
}

/// a usize on the wire: an integer below 2^62, else (hi lo) with hi, lo < 2^32
fn big(v: &Val) -> Option<usize> {
    match v {
        Val::I(i) => usize::try_from(*i).ok(),
        Val::L(l) if l.len() == 2 => {
            let hi = l[0].as_usize()?;
            let lo = l[1].as_usize()?;
            if hi >= 1 << 32 || lo >= 1 << 32 {
                return None;
            }
            Some((hi << 32) | lo)
        }
        _ => None,
    }
}

fn big_val(u: usize) -> Val {
    if u < 1 << 62 {
        Val::u(u)
    } else {
        Val::L(vec![Val::u(u >> 32), Val::u(u & 0xFFFF_FFFF)])
    }
}

/// the numbers of the case are those of the small domain (the unary model runs on it: C06_Machine.smallb)
const SMALL: usize = 1 << 21;
fn is_small(c: &Cfg) -> bool {
    c.limit < SMALL && c.prefetch < SMALL && c.sizes.iter().all(|s| *s < SMALL)
}
/// the EXTREME domain: any usize for limit, prefetch and sizes, few items
const EXT_ITEMS: usize = 8;

#[derive(Clone, Debug)]
struct Item {
    id: usize,
    size: usize,
}

impl ItemSize for Item {
    fn size(&self) -> usize {
        self.size
    }
}

#[derive(Clone, Debug)]
struct Cfg {
    sort: bool,
    shuffle: bool,
    prefetch: usize,
    limit: usize,
    ty: i64,
    seed: u64,
    sizes: Vec<usize>,
}

fn parse_input(input: &Val) -> Option<Cfg> {
    let l = input.as_l()?;
    if l.len() != 7 {
        return None;
    }
    let sizes: Vec<usize> = l[6].as_l()?.iter().map(big).collect::<Option<_>>()?;
    Some(Cfg {
        sort: l[0].as_bool()?,
        shuffle: l[1].as_bool()?,
        prefetch: big(&l[2])?,
        limit: big(&l[3])?,
        ty: l[4].as_i()?,
        seed: u64::try_from(l[5].as_i()?).ok()?,
        sizes,
    })
}

fn to_val(c: &Cfg) -> Val {
    Val::L(vec![
        Val::b(c.sort),
        Val::b(c.shuffle),
        big_val(c.prefetch),
        big_val(c.limit),
        Val::I(c.ty),
        Val::I(c.seed as i64),
        Val::list(c.sizes.iter(), |s| big_val(*s)),
    ])
}

/// upstream wrapper: counts the items pulled by `Batched`
struct Counted<I> {
    inner: I,
    pulled: Arc<AtomicUsize>,
}

impl<I: Iterator> Iterator for Counted<I> {
    type Item = I::Item;
    fn next(&mut self) -> Option<I::Item> {
        let x = self.inner.next();
        if x.is_some() {
            self.pulled.fetch_add(1, Ordering::SeqCst);
        }
        x
    }
}

/// run the real iterator to the end: ((batches) (pulled_0 pulled_1 ...)) where pulled_t is the
/// number of upstream items consumed when the t-th batch was returned
fn drain(c: &Cfg) -> Val {
    let items: Vec<Item> = c.sizes.iter().enumerate().map(|(id, s)| Item { id, size: *s }).collect();
    let n = items.len();
    let ty = if c.ty == 0 { BatchLimitType::BatchSize } else { BatchLimitType::PaddedItemSize };
    let pulled = Arc::new(AtomicUsize::new(0));
    let up = Counted { inner: items.into_iter(), pulled: pulled.clone() };
    let it = up.batched(c.sort, c.shuffle, c.prefetch, c.limit, ty, Some(c.seed));
    let mut batches = vec![];
    let mut pulls = vec![];
    for b in it {
        batches.push(Val::list(b.iter(), |x| Val::u(x.id)));
        pulls.push(Val::u(pulled.load(Ordering::SeqCst)));
        if batches.len() > n + 2 {
            return Val::L(vec![Val::I(2), Val::L(batches)]);
        }
    }
    Val::L(vec![Val::L(batches), Val::L(pulls)])
}

/// selection sequence (Lehmer code) of a permutation given as `new[j] = old[idx[j]]`:
/// element k = position of idx[k] among the indices not yet taken, in increasing order
fn lehmer(idx: &[usize]) -> Vec<usize> {
    if idx.len() <= 64 {
        return (0..idx.len()).map(|k| idx[k] - idx[..k].iter().filter(|j| **j < idx[k]).count()).collect();
    }
    // same function with a Fenwick tree over the indices already taken (scale stream: buffers of thousands)
    let n = idx.len();
    let mut tree = vec![0usize; n + 1];
    let mut out = Vec::with_capacity(n);
    for &v in idx {
        let (mut below, mut i) = (0usize, v); // number of taken indices < v = prefix sum over 1..=v
        while i > 0 {
            below += tree[i];
            i &= i - 1;
        }
        out.push(v - below);
        let mut i = v + 1;
        while i <= n {
            tree[i] += 1;
            i += i & i.wrapping_neg();
        }
    }
    out
}

/// The rng decisions of a run, replayed in lock-step from the seed. `None` if what was observed
/// is inconsistent (more emitted than pulled, unknown ids): no exact line for such an output.
fn observe(c: &Cfg, batches: &[Vec<usize>], pulls: &[usize]) -> Option<Val> {
    // the lock-step line belongs to the unary oracle model: only on the small domain
    if !c.shuffle || !is_small(c) {
        return None;
    }
    let mut rng = ChaCha8Rng::seed_from_u64(c.seed);
    let limit = c.limit.max(1);
    let mut entries = vec![];
    let mut emitted = 0usize;
    let mut inbuf: Vec<usize> = vec![]; // ids known to be in the buffer
    let mut seen = 0usize; // upstream items accounted for
    for (b, p) in batches.iter().zip(pulls) {
        if *p > c.sizes.len() || *p < seen || *p < emitted {
            return None;
        }
        inbuf.extend(seen..*p);
        seen = *p;
        let n = *p - emitted; // buffer length when shuffle / sort ran in this call
        if n != inbuf.len() {
            return None;
        }
        if !c.sort {
            let mut idx: Vec<usize> = (0..n).collect();
            idx.shuffle(&mut rng); // same algorithm, same number of draws as on Vec<Item> of length n
            entries.push(Val::L(vec![Val::u(n), Val::list(lehmer(&idx).iter(), |i| Val::u(*i))]));
        } else {
            let mut sorted: Vec<usize> = inbuf.iter().map(|i| c.sizes[*i]).collect();
            sorted.sort();
            let ty = c.ty;
            let m = find_subsequences_of_max_size_k(&sorted, limit, |sub: &[usize]| {
                if ty == 0 { sub.len() } else { sub.len().saturating_mul(sub.iter().copied().max().unwrap_or(0)) }
            })
            .len();
            if m == 0 {
                entries.push(Val::L(vec![Val::u(0), Val::L(vec![])]));
            } else {
                let i = rng.random_range(0..m);
                entries.push(Val::L(vec![Val::u(m), Val::L(vec![Val::u(i)])]));
            }
        }
        for id in b {
            let pos = inbuf.iter().position(|x| x == id)?;
            inbuf.remove(pos);
        }
        emitted += b.len();
    }
    Some(Val::L(entries))
}

impl C06 {
    fn watched(&mut self, c: &Cfg) -> Val {
        let c1 = c.clone();
        // scale cases (hundreds to tens of thousands of items, buffers of thousands) get a longer budget
        let big = c.sizes.len() > 200 || (is_small(c) && c.limit.max(1).saturating_mul(c.prefetch.max(1)) > 1000);
        let v = with_timeout(if big { 30000 } else { TIMEOUT_MS }, move || drain(&c1));
        if v != Val::hang() {
            return v;
        }
        let c2 = c.clone();
        let v = with_timeout(CONFIRM_MS, move || drain(&c2));
        if v == Val::hang() {
            self.hung = true;
        }
        v
    }
}

fn gen_sizes(rng: &mut Rng, n: usize, maxs: usize) -> Vec<usize> {
    match rng.below(10) {
        0 => vec![rng.below(maxs + 1); n],                          // all equal
        1 => (0..n).map(|_| if rng.chance(1, 2) { 0 } else { rng.below(maxs + 1) }).collect(), // many zeros
        2 => (0..n).map(|i| i % (maxs + 1)).collect(),              // ascending saw
        3 => (0..n).map(|i| maxs - i % (maxs + 1)).collect(),       // descending saw
        4 => (0..n).map(|_| if rng.chance(1, 5) { maxs * 3 + 1 } else { rng.below(3) }).collect(), // oversized
        _ => (0..n).map(|_| rng.below(maxs + 1)).collect(),
    }
}

/// a random composition of `total` into positive parts
fn composition(rng: &mut Rng, total: usize) -> Vec<usize> {
    let mut parts = vec![];
    let mut left = total;
    while left > 0 {
        let p = rng.range(1, left);
        parts.push(p);
        left -= p;
    }
    parts
}

/// sizes and settings chosen around the limit boundary, for both limit types: blocks with
/// count (batch_size) or count * max (padded) exactly at the limit / one above, sums exactly at
/// / one above the limit, single items of size limit / limit + 1, all-zero blocks, blocks of
/// limit * prefetch (+ 1) items (the buffer fill boundary), the largest item first / last in
/// its block, an oversized item first / in the middle / last; prefetch mostly 0 or 1.
fn gen_boundary(rng: &mut Rng) -> Cfg {
    let mode = rng.below(4);
    let (sort, shuffle) = (mode & 1 == 1, mode & 2 == 2);
    let ty = rng.below(2) as i64;
    let limit = match rng.below(10) {
        0 => 0,
        1 => 1,
        _ => rng.range(2, 9),
    };
    let l = limit.max(1);
    let prefetch = *rng.pick(&[0usize, 0, 1, 1, 1, 2, 2, 3]);
    let p = prefetch.max(1);
    let divisors = |x: usize| -> Vec<usize> { (1..=x).filter(|d| x % d == 0).collect() };
    let mut sizes: Vec<usize> = vec![];
    for _ in 0..rng.range(1, 3) {
        let mut block: Vec<usize> = match rng.below(12) {
            0 => vec![1; l],                                   // count = limit
            1 => vec![1; l + 1],                               // count = limit + 1
            2 => { let m = *rng.pick(&divisors(l)); vec![m; l / m] }             // count * max = limit
            3 => { let m = *rng.pick(&divisors(l)); vec![m; l / m + 1] }         // one item more
            4 => { let m = *rng.pick(&divisors(l + 1)); vec![m; (l + 1) / m] }   // count * max = limit + 1
            5 => vec![l],                                      // one item, size = limit
            6 => vec![l + 1],                                  // one item, size = limit + 1
            7 => composition(rng, l),                          // sum = limit
            8 => composition(rng, l + 1),                      // sum = limit + 1
            9 => vec![0; *rng.pick(&[l, l + 1, l * p, l * p + 1])],               // zeros
            10 => vec![1; l * p + rng.below(2)],               // buffer fill boundary
            _ => {
                // count * max = limit with the maximum only at one end, smaller items elsewhere
                let m = *rng.pick(&divisors(l));
                let cnt = l / m;
                let mut b: Vec<usize> = (0..cnt).map(|_| rng.below(m + 1).min(m.saturating_sub(1))).collect();
                if rng.chance(1, 2) { b[0] = m } else { b[cnt - 1] = m }
                b
            }
        };
        if rng.chance(1, 4) {
            rng.shuffle(&mut block);
        }
        sizes.extend(block);
    }
    // an oversized item first / middle / last
    let big = l + 1 + rng.below(3) * l;
    match rng.below(8) {
        0 => sizes.insert(0, big),
        1 => sizes.insert(sizes.len() / 2, big),
        2 => sizes.push(big),
        _ => {}
    }
    sizes.truncate(40);
    let seed = if rng.chance(1, 3) { rng.below(4) as u64 } else { rng.next_u64() >> 3 };
    Cfg { sort, shuffle, prefetch, limit, ty, seed, sizes }
}

/// sizes that cross the thresholds a refactoring could introduce, capped at `max`
const SCALE_SIZES: &[usize] = &[255, 256, 257, 300, 1023, 1025, 4097, 65537];
fn scale_size(rng: &mut Rng, max: usize) -> usize {
    let ok: Vec<usize> = SCALE_SIZES.iter().copied().filter(|s| *s <= max).collect();
    if ok.is_empty() { max } else { *rng.pick(&ok) }
}

/// SCALE stream: many items, batch limits / prefetch factors / item sizes in the hundreds and thousands.
/// Limits that come from the MODEL: its time is cubic in the number of items in every mode (measured: 300 items
/// 0.02 s, 1025 items 0.4-1 s, 2000 items 3 s, 4097 items > 20 s), and it counts sizes in unary (the padded limit
/// count * max is a unary product per buffer update). Hence: at most 1025 items (mostly 255..300), large item sizes
/// only with few items (items^2 * size <= 5 * 10^6), limit * prefetch < 2^22.
fn gen_scale(rng: &mut Rng) -> Cfg {
    let mode = rng.below(4);
    let (sort, shuffle) = (mode & 1 == 1, mode & 2 == 2);
    let ty = rng.below(2) as i64;
    let seed = if rng.chance(1, 3) { rng.below(4) as u64 } else { rng.next_u64() >> 3 };
    let around = |rng: &mut Rng, cap: usize| match rng.below(3) {
        0 => scale_size(rng, cap) - 1,
        1 => scale_size(rng, cap) + 1,
        _ => scale_size(rng, cap),
    };
    let items = |rng: &mut Rng| if rng.chance(1, 8) { *rng.pick(&[1023usize, 1025]) } else { scale_size(rng, 300) };
    let (n, limit, prefetch, maxs): (usize, usize, usize, usize);
    match rng.below(5) {
        0 => {
            // many items, small limit: hundreds of batches
            n = items(rng);
            limit = rng.range(1, 9);
            prefetch = rng.below(4);
            maxs = *rng.pick(&[1usize, 3, 6]);
        }
        1 => {
            // batch limit in the hundreds / thousands: batches of 255+ items
            let lcap = if rng.chance(1, 4) { 1025 } else { 300 };
            limit = around(rng, lcap);
            prefetch = rng.below(3);
            maxs = if ty == 0 { 3 } else { *rng.pick(&[1usize, 1, 2, 4]) };
            let per = if ty == 0 { limit } else { limit / maxs.max(1) };
            n = (per * rng.range(1, 3) + rng.below(3)).min(1025);
        }
        2 => {
            // prefetch factor in the hundreds / thousands (and 65537): the fill reads the whole input
            prefetch = around(rng, 65537);
            limit = rng.range(1, 8);
            maxs = *rng.pick(&[1usize, 2, 3]);
            n = *rng.pick(&[255usize, 256, 257, 300]);
        }
        3 => {
            // item sizes in the hundreds / thousands (and 65537; matters for the padded limit), few items
            maxs = scale_size(rng, 65537);
            limit = (maxs * rng.range(1, 5) + rng.below(3)).saturating_sub(1);
            prefetch = rng.below(4);
            let cap = ((5_000_000 / maxs) as f64).sqrt() as usize;
            n = rng.range(2, cap.clamp(4, 40));
        }
        _ => {
            // everything moderately large
            limit = *rng.pick(&[255usize, 256, 257, 300]);
            prefetch = *rng.pick(&[2usize, 3, 4, 16]);
            maxs = *rng.pick(&[1usize, 2, 3]);
            n = items(rng);
        }
    }
    let mut sizes = gen_sizes(rng, n, maxs);
    for s in sizes.iter_mut() {
        *s = (*s).min(MAX_SIZE);
    }
    Cfg { sort, shuffle, prefetch, limit, ty, seed, sizes }
}

/// values around the powers of two where 32-bit and 64-bit arithmetic changes behaviour
const EXT: &[usize] = &[
    0,
    1,
    2,
    3,
    (1 << 31) - 1,
    1 << 31,
    (1 << 31) + 1,
    (1 << 32) - 1,
    1 << 32,
    (1 << 32) + 1,
    (1 << 62) - 1,
    1 << 62,
    (1 << 62) + 1,
    (1 << 63) - 1,
    1 << 63,
    (1 << 63) + 1,
    usize::MAX - 1,
    usize::MAX,
];

/// EXTREME stream: limit, prefetch factor and item sizes over the whole of usize, 1-6 items (sometimes 0, 7, 8).
/// Arms: everything from EXT; products that cross 2^64 exactly (count * size with size = ceil(2^64 / count) and one
/// less; limit * prefetch = 2^64, 2^64 - 1, 2^64 + limit); a limit that is the (wrapped / saturated / exact) padded size
/// of a prefix of the items; one huge item among small ones; small everything but one field.
fn gen_extreme(rng: &mut Rng) -> Cfg {
    let mode = rng.below(4);
    let (sort, shuffle) = (mode & 1 == 1, mode & 2 == 2);
    let mut ty = if rng.chance(2, 3) { 1 } else { 0 };
    let seed = if rng.chance(1, 3) { rng.below(4) as u64 } else { rng.next_u64() >> 3 };
    let n = match rng.below(10) {
        0 => 0,
        1 => 7,
        2 => 8,
        _ => rng.range(1, 6),
    };
    let ext = |rng: &mut Rng| *rng.pick(EXT);
    let near = |rng: &mut Rng, x: usize| match rng.below(4) {
        0 => x.wrapping_sub(1),
        1 => x.wrapping_add(1),
        _ => x,
    };
    let small = |rng: &mut Rng| rng.below(7);
    let (mut limit, mut prefetch): (usize, usize);
    let mut sizes: Vec<usize>;
    match rng.below(8) {
        0 | 1 => {
            // everything from the table
            limit = ext(rng);
            prefetch = if rng.chance(1, 2) { ext(rng) } else { rng.below(4) };
            sizes = (0..n).map(|_| if rng.chance(2, 3) { ext(rng) } else { small(rng) }).collect();
        }
        2 => {
            // count * size crosses 2^64: size = ceil(2^64 / c), c = 2..6 (and one less), c or more such items
            let c = rng.range(2, 6);
            let s = (usize::MAX / c) + 1; // ceil(2^64 / c) for c that does not divide 2^64; 2^64 / c otherwise
            let s = if rng.chance(1, 3) { s - 1 } else { s };
            sizes = (0..n.max(c)).map(|_| if rng.chance(4, 5) { s } else { small(rng) }).collect();
            sizes.truncate(EXT_ITEMS);
            ty = 1;
            limit = match rng.below(5) {
                0 => ext(rng),
                1 => s,
                2 => s.wrapping_mul(c), // what the pinned release build computes
                3 => rng.below(12),
                _ => usize::MAX - rng.below(2),
            };
            prefetch = rng.below(4);
        }
        3 => {
            // limit * prefetch around 2^64
            let (l, p) = *rng.pick(&[
                (1usize << 63, 2usize),
                (1 << 32, 1 << 32),
                ((1 << 32) - 1, (1 << 32) + 1), // 2^64 - 1
                ((1 << 32) + 1, (1 << 32) - 1),
                (1 << 62, 4),
                ((1 << 62) + 1, 4),
                (usize::MAX, 2),
                (2, usize::MAX),
                (usize::MAX, usize::MAX),
                (usize::MAX / 3, 3), // 2^64 - 1
                (usize::MAX / 3 + 1, 3),
                (3, usize::MAX / 3 + 1),
                (1 << 63, 3), // wraps to 2^63
                ((1 << 63) + 1, 2), // wraps to 2
            ]);
            limit = near(rng, l);
            prefetch = p;
            sizes = (0..n).map(|_| if rng.chance(1, 3) { ext(rng) } else { small(rng) }).collect();
        }
        4 => {
            // the limit is the padded size of a prefix: exact, saturated, wrapped, one off
            sizes = (0..n.max(1)).map(|_| if rng.chance(1, 2) { ext(rng) } else { small(rng) }).collect();
            let k = rng.range(1, sizes.len());
            let mx = sizes[..k].iter().copied().max().unwrap_or(0);
            let v = match rng.below(3) {
                0 => k.saturating_mul(mx),
                1 => k.wrapping_mul(mx),
                _ => mx,
            };
            limit = near(rng, v);
            prefetch = rng.below(4);
            ty = 1;
        }
        5 => {
            // one huge item among small ones, small limit
            sizes = (0..n.max(1)).map(|_| small(rng)).collect();
            let k = rng.below(sizes.len());
            sizes[k] = ext(rng);
            limit = rng.below(13);
            prefetch = rng.below(4);
        }
        6 => {
            // small everything, one extreme configuration field
            sizes = (0..n).map(|_| small(rng)).collect();
            limit = rng.below(13);
            prefetch = rng.below(4);
            if rng.chance(1, 2) { limit = ext(rng) } else { prefetch = ext(rng) }
        }
        _ => {
            // all sizes equal and huge; limit a multiple
            let s = ext(rng);
            sizes = vec![s; n];
            limit = match rng.below(4) {
                0 => s,
                1 => s.saturating_mul(2),
                2 => s.wrapping_mul(rng.range(2, 5)),
                _ => ext(rng),
            };
            prefetch = rng.below(3);
        }
    }
    if limit == 0 && prefetch == 0 && rng.chance(1, 2) {
        limit = ext(rng);
        prefetch = ext(rng);
    }
    Cfg { sort, shuffle, prefetch, limit, ty, seed, sizes }
}

impl Prop for C06 {
    fn gen(&mut self, rng: &mut Rng, tier: Tier, i: usize, _n: usize) -> Val {
        if i == 2 || rng.chance(1, 100) {
            return to_val(&gen_scale(rng));
        }
        if i == 3 || i == 4 || rng.chance(1, 12) {
            return to_val(&gen_extreme(rng));
        }
        if rng.chance(3, 10) {
            return to_val(&gen_boundary(rng));
        }
        let mode = rng.below(4);
        let (sort, shuffle) = (mode & 1 == 1, mode & 2 == 2);
        let maxn = if tier == Tier::Thorough { 40 } else { 24 };
        let n = match rng.below(12) {
            0 => 0,
            1 => 1,
            2 => 2,
            _ => rng.range(3, maxn),
        };
        let maxs = *rng.pick(&[1usize, 2, 3, 6, 6]);
        let sizes = gen_sizes(rng, n, maxs);
        let limit = match rng.below(10) {
            0 => 0,
            1 => 1,
            2 => maxs,
            3 => maxs * 2,
            _ => rng.below(13),
        };
        let prefetch = rng.below(5);
        let ty = rng.below(2) as i64;
        let seed = match rng.below(6) {
            0 => 0,
            1 => rng.below(4) as u64,
            _ => rng.next_u64() >> 3,
        };
        to_val(&Cfg { sort, shuffle, prefetch, limit, ty, seed, sizes })
    }

    fn exhaustive(&mut self, _tier: Tier) -> Vec<Val> {
        // all size vectors of length <= 5 over {0,1,2,3}; limits 0..7; both limit types;
        // plain mode (prefetch irrelevant) and sort-only mode with prefetch 0..2;
        // the two shuffling modes on vectors of length <= 5 with prefetch 0..2
        let mut all = vec![];
        let mut vecs: Vec<Vec<usize>> = vec![];
        for n in 0..=5usize {
            for code in 0..4usize.pow(n as u32) {
                let mut c = code;
                vecs.push((0..n).map(|_| { let d = c % 4; c /= 4; d }).collect());
            }
        }
        for v in &vecs {
            for limit in 0..=7usize {
                for ty in 0..2i64 {
                    all.push(to_val(&Cfg { sort: false, shuffle: false, prefetch: 1, limit, ty, seed: 0, sizes: v.clone() }));
                    for prefetch in 0..=2usize {
                        all.push(to_val(&Cfg { sort: true, shuffle: false, prefetch, limit, ty, seed: 0, sizes: v.clone() }));
                    }
                    // the two shuffling modes: length <= 5; every limit for length <= 4, odd limits
                    // and 0 and 2 for length 5; prefetch 0..2; seed 11 (and seed 5 for length <= 3)
                    if v.len() <= 4 || limit % 2 == 1 || limit <= 2 {
                        for prefetch in 0..=2usize {
                            for sort in [false, true] {
                                all.push(to_val(&Cfg { sort, shuffle: true, prefetch, limit, ty, seed: 11, sizes: v.clone() }));
                                if v.len() <= 3 {
                                    all.push(to_val(&Cfg { sort, shuffle: true, prefetch, limit, ty, seed: 5, sizes: v.clone() }));
                                }
                            }
                        }
                    }
                }
            }
        }
        // EXTREME scope: every value of EXT as the limit x seven prefetch factors x both limit types x all four
        // modes on twelve size vectors that put products on both sides of 2^64 (12 096 cases, seed 11)
        let m = usize::MAX;
        let ext_sizes: Vec<Vec<usize>> = vec![
            vec![],
            vec![m],
            vec![1 << 63, 1 << 63],
            vec![1 << 63, 1, 1],
            vec![1 << 62; 5],
            vec![1, 2, 3],
            vec![1 << 32; 3],
            vec![(1 << 32) + 1, (1 << 32) - 1, 1 << 32],
            vec![m, 0, m],
            vec![0, 0, 0],
            vec![(1 << 63) - 1, 1 << 63, (1 << 63) + 1],
            vec![3, m / 3 + 1, 1, m / 3],
        ];
        for sizes in &ext_sizes {
            for &limit in EXT {
                for &prefetch in &[0usize, 1, 2, 3, 1 << 32, 1 << 63, m] {
                    for ty in 0..2i64 {
                        for mode in 0..4 {
                            all.push(to_val(&Cfg { sort: mode & 1 == 1, shuffle: mode & 2 == 2, prefetch, limit, ty, seed: 11, sizes: sizes.clone() }));
                        }
                    }
                }
            }
        }
        all
    }

    fn run(&mut self, input: &Val) -> Option<(Val, Vec<String>)> {
        let c = parse_input(input)?;
        // domain of the harness: SMALL (the unary model counts in unary, so the products stay below 2^22), or
        // EXTREME (at most EXT_ITEMS items, every usize for limit, prefetch and sizes: the machine model only)
        let small_domain = c.sizes.len() <= MAX_ITEMS
            && c.sizes.iter().all(|s| *s <= MAX_SIZE)
            && c.limit <= MAX_LIMIT
            && c.prefetch <= MAX_PREFETCH
            && c.limit.max(1).saturating_mul(c.prefetch.max(1)) <= MAX_PRODUCT
            && c.sizes.len().saturating_mul(c.sizes.iter().copied().max().unwrap_or(0)) <= (1 << 26);
        if !small_domain && c.sizes.len() > EXT_ITEMS {
            return None;
        }
        if !(0..2).contains(&c.ty) || c.seed >= 1 << 62 {
            return None;
        }
        if self.hung {
            return None;
        }
        let mut tags = vec![match (c.sort, c.shuffle) {
            (false, false) => "plain",
            (true, false) => "sort",
            (false, true) => "shuffle",
            (true, true) => "sort+shuffle",
        }
        .to_string()];
        tags.push(if c.ty == 0 { "batch_size".into() } else { "padded".into() });
        tags.push(if self.checked { "ovf:checked".into() } else { "ovf:wrapping".into() });
        let lp_overflows = (c.limit.max(1) as u128) * (c.prefetch.max(1) as u128) > usize::MAX as u128;
        let pad_overflows =
            c.ty == 1 && (c.sizes.len() as u128) * (c.sizes.iter().copied().max().unwrap_or(0) as u128) > usize::MAX as u128;
        if !is_small(&c) {
            tags.push("extreme".into());
            if c.limit >= 1 << 31 {
                tags.push("ext-limit".into());
            }
            if c.prefetch >= 1 << 31 {
                tags.push("ext-prefetch".into());
            }
            if c.sizes.iter().any(|s| *s >= 1 << 31) {
                tags.push("ext-size".into());
            }
            if lp_overflows && (c.sort || c.shuffle) {
                tags.push("ext-bound-overflows".into()); // limit * prefetch is no usize: site 4 of the machine model
            }
            if pad_overflows {
                tags.push("ext-padded-overflows".into()); // (number of items) * (largest size) is no usize: site 3 can be reached
            }
        }
        let first = self.watched(&c);
        let Some(fl) = first.as_l() else {
            return Some((first, tags));
        };
        if first == Val::hang() || first == Val::panic() || fl.first() == Some(&Val::I(2)) || fl.len() != 2 {
            return Some((first, tags));
        }
        let second = self.watched(&c);
        let rep = second == first;
        let (Some(bl), Some(pl)) = (fl[0].as_l(), fl[1].as_l()) else {
            return Some((first, tags));
        };
        let ids: Option<Vec<Vec<usize>>> =
            bl.iter().map(|b| b.as_l().and_then(|l| l.iter().map(|x| x.as_usize()).collect())).collect();
        let pulls: Option<Vec<usize>> = pl.iter().map(|x| x.as_usize()).collect();
        let obs = match (&ids, &pulls) {
            (Some(ids), Some(pulls)) => observe(&c, ids, pulls),
            _ => None,
        };
        if obs.is_some() {
            tags.push("exact-rng".into());
        }
        let batches = fl[0].clone();
        // non-trivial: at least two batches, one of them with two or more items, at least
        // two different sizes in the input
        let nb = bl.len();
        let multi = bl.iter().any(|b| b.as_l().map(|l| l.len() >= 2).unwrap_or(false));
        let mut ds = c.sizes.clone();
        ds.sort();
        ds.dedup();
        if nb >= 2 && multi && ds.len() >= 2 {
            tags.push("nt".into());
        }
        if c.sizes.iter().any(|s| *s == 0) {
            tags.push("zero-size".into());
        }
        let lim = c.limit.max(1);
        if c.sizes.iter().any(|s| *s > lim) && c.ty == 1 {
            tags.push("oversized".into());
        }
        // boundary situations that actually occurred
        if let (Some(ids), Some(pulls)) = (&ids, &pulls) {
            let value = |b: &Vec<usize>| -> u128 {
                let mx = b.iter().map(|i| c.sizes.get(*i).copied().unwrap_or(0)).max().unwrap_or(0);
                if c.ty == 0 { b.len() as u128 } else { b.len() as u128 * mx as u128 }
            };
            let lim = lim as u128;
            // known finding LIMIT-MAX: with a limit of usize::MAX the saturated product can never exceed the limit
            if c.ty == 1 && c.limit == usize::MAX && ids.iter().any(|b| b.len() >= 2 && value(b) > lim) {
                tags.push("class:LIMIT-MAX".into());
            }
            if ids.iter().any(|b| b.len() >= 2 && value(b) == lim) {
                tags.push("full-batch".into()); // a batch exactly at the limit
            }
            if ids.iter().any(|b| b.len() == 1 && value(b) > lim) {
                tags.push("alone-over".into()); // an oversized item alone in its batch
            }
            if (c.sort || c.shuffle) && pulls.first().map(|p| *p < c.sizes.len()).unwrap_or(false) {
                tags.push("partial-fill".into()); // the buffer fill stopped before the end of the input
            }
        }
        if !c.sizes.is_empty() && c.sizes.iter().all(|s| *s == 0) {
            tags.push("all-zero".into());
        }
        if c.prefetch <= 1 {
            tags.push("prefetch01".into());
        }
        // scale tags, derived from the input and the run
        {
            let maxb = ids.as_ref().map(|v| v.iter().map(|b| b.len()).max().unwrap_or(0)).unwrap_or(0);
            let dims = [
                (c.sizes.len() >= 255, "scale-items"),
                (c.limit >= 255, "scale-limit"),
                (c.prefetch >= 255, "scale-prefetch"),
                (c.sizes.iter().any(|s| *s >= 255), "scale-size"),
                (nb >= 255, "scale-batches"),
                (maxb >= 255, "scale-batchlen"),
            ];
            if is_small(&c) && dims.iter().any(|d| d.0) {
                tags.push("scale".into());
                tags.extend(dims.iter().filter(|d| d.0).map(|d| d.1.to_string()));
            }
        }
        Some((Val::L(vec![batches, Val::b(rep), Val::opt(obs, |x| x)]), tags))
    }

    fn canon(&mut self, input: &Val) -> Option<Val> {
        let l = input.as_l()?;
        if l.len() != 7 {
            return None;
        }
        // a case of the EXTREME domain stays what it is (the shrinker may drop items and lower numbers)
        if let Some(c) = parse_input(input) {
            if c.sizes.len() <= EXT_ITEMS && !is_small(&c) && (0..2).contains(&c.ty) && c.seed < 1 << 62 {
                return Some(to_val(&c));
            }
        }
        let u = |v: &Val, m: i64| v.as_i().unwrap_or(0).rem_euclid(m);
        let sizes: Vec<usize> = l[6].as_l()?.iter().take(MAX_ITEMS).map(|v| u(v, MAX_SIZE as i64 + 1) as usize).collect();
        let limit = u(&l[3], MAX_LIMIT as i64 + 1) as usize;
        let prefetch = (u(&l[2], MAX_PREFETCH as i64 + 1) as usize).min(MAX_PRODUCT / limit.max(1));
        Some(to_val(&Cfg {
            sort: u(&l[0], 2) == 1,
            shuffle: u(&l[1], 2) == 1,
            prefetch,
            limit,
            ty: u(&l[4], 2),
            seed: l[5].as_i()?.unsigned_abs() & ((1 << 62) - 1),
            sizes,
        }))
    }

    fn selfcheck(&mut self) -> Vec<String> {
        // different seeds give different batch sequences sometimes (shuffle modes)
        let mut errs = vec![];
        // the tie of the two profiles of the machine model: the debug harness must trap overflow, the release one wrap
        if cfg!(debug_assertions) != self.checked {
            errs.push(format!(
                "overflow behaviour of this binary (checked = {}) does not match its cargo profile (debug = {})",
                self.checked,
                cfg!(debug_assertions)
            ));
        }
        // wire format of huge numbers
        for u in [0usize, 1, (1 << 62) - 1, 1 << 62, (1 << 63) + 5, usize::MAX] {
            if big(&big_val(u)) != Some(u) {
                errs.push(format!("big/big_val round trip of {u}"));
            }
        }
        for sort in [false, true] {
            let mut distinct = std::collections::HashSet::new();
            for seed in 0..16u64 {
                let c = Cfg { sort, shuffle: true, prefetch: 2, limit: 3, ty: 0, seed, sizes: (0..12).map(|i| i % 4).collect() };
                distinct.insert(self.watched(&c).to_sexp());
            }
            if distinct.len() < 2 {
                errs.push(format!("shuffle (sort={sort}): 16 seeds gave one and the same batch sequence"));
            }
        }
        // the assumption behind the exact line: the draws of `shuffle` depend only on the slice
        // length (not on the element type), so an index vector replays a shuffle of items, and the
        // two generators stay in step afterwards
        for seed in [0u64, 1, 77, 1 << 40] {
            let mut r1 = ChaCha8Rng::seed_from_u64(seed);
            let mut r2 = ChaCha8Rng::seed_from_u64(seed);
            for n in 0..40usize {
                let mut idx: Vec<usize> = (0..n).collect();
                let mut items: Vec<Item> = (0..n).map(|id| Item { id, size: id * 7 }).collect();
                idx.shuffle(&mut r1);
                items.shuffle(&mut r2);
                if idx != items.iter().map(|x| x.id).collect::<Vec<_>>() {
                    errs.push(format!("shuffle of an index vector and of items differ (seed {seed}, n {n})"));
                }
                if n > 0 && r1.random_range(0..n) != r2.random_range(0..n) {
                    errs.push(format!("generators out of step after a shuffle (seed {seed}, n {n})"));
                }
                let p = lehmer(&idx);
                let mut rem: Vec<usize> = (0..n).collect();
                let back: Vec<usize> = p.iter().map(|i| rem.remove(*i)).collect();
                if back != idx {
                    errs.push(format!("selection sequence does not reproduce the permutation (seed {seed}, n {n})"));
                }
            }
        }
        errs
    }
}

fn main() {
    main_loop(C06 { hung: false, checked: overflow_checked() });
}

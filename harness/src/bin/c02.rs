//! C02: `BPETokenizer::tokenize(s, true)` / `de_tokenize(ids, true)` against the model.
//! input  = (tbl maxv toks prefix suffix text [file])
//!          file (optional 7th field) = ((byte ...)): the merge file is exactly these bytes instead of the
//!          crate's `save` of tbl (tbl is then `()` and ignored: the table is whatever the file holds)
//! output = ((id ...) dec vocab_size fb lv) with dec = () | ((byte ...)); () when the constructor fails;
//!          (-2 fb lv) when an explicit file loads but its ids are not 0..n-1 (nothing is tokenized);
//!          fb = the bytes of the merge file on disk, lv = ((id key) ...) = the real `MergeOps::load` of it
#[path = "../bpe_common.rs"]
mod bpe;
use bpe::*;
use text_utils::tokenization::{BPETokenizer, SpecialConfig, Tokenize};
use vh::*;

const DIR: &str = "/tmp/c02";
const SPECIALS: &[&str] = &["<pad>", "<bos>", "<eos>", "<unk>", "<x>", "[SEP]"];

struct C02 {
    cur: Option<(Vec<Val>, Table, Vec<&'static str>)>,
    left: usize,
    cache: Option<(Vec<Val>, Option<BPETokenizer>, MergeFile)>,
}

/// the optional 7th field: explicit file bytes
fn explicit_file(l: &[Val]) -> Option<Option<Vec<u8>>> {
    match l.get(6) {
        None => Some(None),
        Some(v) => match v.as_l()? {
            [] => Some(None),
            [b] => Some(Some(b.as_l()?.iter().map(|x| x.as_i().and_then(|i| u8::try_from(i).ok())).collect::<Option<Vec<u8>>>()?)),
            _ => None,
        },
    }
}

fn strs(v: &Val) -> Option<Vec<String>> {
    v.as_l()?.iter().map(|s| s.to_string_lossy()).collect()
}

fn eff_len(table: &Table, maxv: Option<usize>, ntoks: usize) -> usize {
    match maxv {
        None => table.len(),
        Some(m) => table.len().min(m.saturating_sub(ntoks).saturating_sub(256)),
    }
}

fn gen_config(rng: &mut Rng) -> (Vec<Val>, Table, Vec<&'static str>) {
    let (table, alpha) = gen_table(rng);
    let mut toks: Vec<&str> = vec!["<pad>"];
    for _ in 0..rng.below(4) {
        toks.push(*rng.pick(SPECIALS)); // duplicates possible: tokens.len() counts them, ids do not
    }
    if rng.chance(1, 40) {
        toks.clear();
    } else if rng.chance(1, 4) {
        rng.shuffle(&mut toks);
    }
    let pick_some = |rng: &mut Rng, toks: &[&str]| -> Vec<String> {
        let mut v = vec![];
        if toks.is_empty() {
            return v;
        }
        let n = match rng.below(6) {
            0..=2 => 0,
            3..=4 => 1,
            _ => 2,
        };
        for _ in 0..n {
            if rng.chance(1, 30) {
                v.push("<nope>".to_string()); // not a special token: constructor error
            } else {
                v.push(rng.pick(toks).to_string());
            }
        }
        v
    };
    let prefix = pick_some(rng, &toks);
    let suffix = pick_some(rng, &toks);
    let maxv = match rng.below(10) {
        0..=4 => None,
        5 => Some(rng.below(300)),
        _ => Some(256 + toks.len() + rng.below(table.len() + 3)),
    };
    let cfg = vec![
        table_val(&table),
        Val::opt(maxv, Val::u),
        Val::list(toks.iter(), |s| Val::str(s)),
        Val::list(prefix.iter(), |s| Val::str(s)),
        Val::list(suffix.iter(), |s| Val::str(s)),
    ];
    (cfg, table, alpha)
}

impl C02 {
    /// `cfg` = the first five fields and, for an explicit file, the seventh
    fn tokenizer(&mut self, cfg: &[Val], explicit: Option<&[u8]>) -> Option<(Option<&BPETokenizer>, &MergeFile)> {
        let hit = matches!(&self.cache, Some((c, _, _)) if c.as_slice() == cfg);
        if !hit {
            let table = if explicit.is_some() { vec![] } else { val_table(&cfg[0])? };
            let maxv = match cfg[1].as_l()? {
                [] => None,
                [x] => Some(x.as_usize()?),
                _ => return None,
            };
            let toks = strs(&cfg[2])?;
            let special = SpecialConfig {
                pad: toks.first().cloned().unwrap_or_else(|| "<pad>".to_string()),
                tokens: toks,
                prefix: strs(&cfg[3])?,
                suffix: strs(&cfg[4])?,
            };
            let g = cfg[0].as_l()?.len() % 2 == 1; // use_graphemes is not used by the BPE tokenizer; vary it anyway
            let (tok, mf) = build_tokenizer_file(DIR, &table, explicit, maxv, special, g);
            self.cache = Some((cfg.to_vec(), tok.ok(), mf));
        }
        let c = self.cache.as_ref().unwrap();
        Some((c.1.as_ref(), &c.2))
    }
}

impl Prop for C02 {
    fn gen(&mut self, rng: &mut Rng, _tier: Tier, _i: usize, _n: usize) -> Val {
        if self.left == 0 || self.cur.is_none() {
            let (mut cfg, table, alpha) = gen_config(rng);
            self.left = rng.range(6, 30);
            if rng.chance(1, 4) {
                // hand-made merge file (about 8 % of the cases: these configurations get fewer texts)
                let (fb, _kind) = gen_merge_file(rng, &table);
                cfg[0] = Val::L(vec![]);
                cfg.push(Val::some(Val::bytes(&fb)));
                self.left = rng.range(1, 6);
            }
            self.cur = Some((cfg, table, alpha));
        }
        self.left -= 1;
        let (cfg, table, alpha) = self.cur.as_ref().unwrap();
        let mut text = gen_text(rng, alpha, table);
        if rng.chance(1, 1500) {
            // scale stream: a document of 64 KiB .. 200 KiB (chunked or parallel processing of long inputs must not lose
            // or move whitespace): short words, separator runs of 1..3 whitespace characters everywhere, so that every
            // cut position a chunker could choose (32 KiB, 64 KiB, ... from either end) is likely to lie inside a run
            let target = *rng.pick(&[65_536usize, 65_600, 70_000, 98_304, 131_072, 131_200, 200_000]) + rng.below(64);
            text.clear();
            while text.len() < target {
                text.push_str(&gen_word(rng, alpha, 4));
                for _ in 0..rng.range(1, 3) {
                    text.push_str(*rng.pick(SEPS));
                }
            }
            if rng.chance(1, 2) {
                text.push_str(&gen_word(rng, alpha, 4));
            }
        }
        if rng.chance(1, 12) {
            // special-token spellings and near misses are ordinary text when special tokens are ignored
            let t = *rng.pick(&["<pad>", "<bos>", "<pad", "pad>", " <eos> ", "<<pad>>"]);
            if rng.chance(1, 2) {
                text.push_str(t);
            } else {
                text.insert_str(0, t);
            }
        }
        if rng.chance(1, 25) {
            // every White_Space code point can end / separate words
            let c = char::from_u32(*rng.pick(WS_TABLE)).unwrap();
            text.push(c);
            if rng.chance(1, 2) {
                text.push_str("ab");
            }
        }
        let mut l = cfg.clone();
        l.insert(5, Val::str(&text));
        Val::L(l)
    }

    /// thorough tier: EVERY byte string of length <= 4 over 16 marker / payload bytes as the merge file
    /// (69 904 files; plain configuration, text "ab ab"): the reader model against the real loader
    fn exhaustive(&mut self, _tier: Tier) -> Vec<Val> {
        const A: &[u8] = &[0x00, 0x01, 0x61, 0x62, 0x80, 0x81, 0x82, 0x91, 0x92, 0xc4, 0xcc, 0xcd, 0xd0, 0xdc, 0xde, 0xff];
        let mut files: Vec<Vec<u8>> = vec![vec![]];
        let mut all: Vec<Vec<u8>> = vec![vec![]];
        for _ in 0..4 {
            let mut next = vec![];
            for f in &files {
                for b in A {
                    let mut g = f.clone();
                    g.push(*b);
                    next.push(g);
                }
            }
            all.extend(next.iter().cloned());
            files = next;
        }
        all.iter()
            .map(|f| {
                Val::L(vec![
                    Val::L(vec![]),
                    Val::none(),
                    Val::list(["<pad>"].iter(), |s| Val::str(s)),
                    Val::L(vec![]),
                    Val::L(vec![]),
                    Val::str("ab ab"),
                    Val::some(Val::bytes(f)),
                ])
            })
            .collect()
    }

    fn run(&mut self, input: &Val) -> Option<(Val, Vec<String>)> {
        let l = input.as_l()?;
        if l.len() != 6 && l.len() != 7 {
            return None;
        }
        let text = val_text(&l[5])?;
        let explicit = explicit_file(l)?;
        let ntoks = l[2].as_l()?.len();
        let maxv = l[1].as_l()?.first().and_then(|x| x.as_usize());
        let mut tags = vec![];
        let mut key = l[..5].to_vec();
        if explicit.is_some() {
            if !l[0].as_l()?.is_empty() {
                return None;
            }
            key.push(l[6].clone());
        }
        let (tok, mf) = self.tokenizer(&key, explicit.as_deref())?;
        let mf = mf.clone();
        let table = match &explicit {
            None => val_table(&l[0])?,
            Some(_) => mf.well_formed().unwrap_or_default(),
        };
        if explicit.is_some() {
            tags.push("file".to_string());
            tags.push(match (&mf.loaded, mf.well_formed()) {
                (None, _) => "file:rejected",
                (Some(_), None) => "file:ill-formed",
                (Some(_), Some(_)) => "file:accepted",
            }.to_string());
        }
        let out = if explicit.is_some() && mf.loaded.is_some() && mf.well_formed().is_none() {
            // loads, but is not a merge table (ids with gaps / repetitions): only the load is compared
            Val::L(vec![Val::I(-2), mf.bytes_val(), mf.loaded_val()])
        } else {
            match tok {
                None => {
                    tags.push("ctor-error".to_string());
                    Val::L(vec![])
                }
                Some(tok) => {
                    let t2 = text.clone();
                    let (fb, lv) = (mf.bytes_val(), mf.loaded_val());
                    guard(std::panic::AssertUnwindSafe(|| match tok.tokenize(&t2, true) {
                        Err(_) => Val::L(vec![Val::I(-1)]),
                        Ok(t) => {
                            let dec = tok.de_tokenize(&t.token_ids, true).ok();
                            Val::L(vec![
                                Val::list(t.token_ids.iter(), |i| Val::I(*i as i64)),
                                Val::opt(dec, |s| Val::bytes(s.as_bytes())),
                                Val::u(tok.vocab_size()),
                                fb,
                                lv,
                            ])
                        }
                    }))
                }
            }
        };
        let n_eff = eff_len(&table, maxv, ntoks);
        let eff: Table = table[..n_eff].to_vec();
        let (nwords, merges, stale) = text_stats(&eff, &text);
        if n_eff < table.len() {
            tags.push("truncated".into());
        }
        if merges > 0 {
            tags.push("merge".into());
        }
        if stale > 0 {
            tags.push("stale".into());
        }
        if nwords > 1 {
            tags.push("words2+".into());
        }
        let trailing = text.chars().last().map_or(false, |c| c.is_whitespace());
        if trailing {
            tags.push("trailing-ws".into());
        }
        if !l[3].as_l()?.is_empty() || !l[4].as_l()?.is_empty() {
            tags.push("prefix/suffix".into());
        }
        if merges > 0 && text.chars().any(|c| c.is_whitespace()) && !tags.contains(&"ctor-error".to_string()) {
            tags.push("nt".into());
        }
        Some((out, tags))
    }

    fn canon(&mut self, input: &Val) -> Option<Val> {
        let l = input.as_l()?;
        if l.len() != 6 && l.len() != 7 {
            return None;
        }
        let maxv = match l[1].as_l()? {
            [] => Val::L(vec![]),
            [x, ..] => Val::L(vec![Val::I(x.as_i()?.max(0))]),
        };
        let strs_v = |v: &Val| -> Option<Val> { Some(Val::L(v.as_l()?.iter().map(canon_text).collect::<Option<Vec<_>>>()?)) };
        let mut out = vec![canon_table(&l[0])?, maxv, strs_v(&l[2])?, strs_v(&l[3])?, strs_v(&l[4])?, canon_text(&l[5])?];
        // an explicit file: bytes clamped, the table field is not used
        if let Some(Some(f)) = l.get(6).map(|v| v.as_l().and_then(|x| x.first())) {
            let b: Vec<u8> = f.as_l()?.iter().map(|x| x.as_i().unwrap_or(0).clamp(0, 255) as u8).collect();
            out[0] = Val::L(vec![]);
            out.push(Val::some(Val::bytes(&b)));
        }
        Some(Val::L(out))
    }

    fn selfcheck(&mut self) -> Vec<String> {
        let mut e = ws_table_selfcheck();
        e.extend(regex_ws_selfcheck());
        e
    }
}

fn main() {
    main_loop(C02 { cur: None, left: 0, cache: None });
}

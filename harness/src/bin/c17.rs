//! C17: token groups of the byte tokenizer, token_groups_to_sparse_coo_matrix, padding_mask,
//! pad_ids / Tensorize for Batch<TrainItem> against the model.
//! mode 0: (0 cfg mean ign texts oracles) -> (0) | (1 ((ids groups) ...) sparse? mask)
//! mode 1: (1 ((groups mean) ...) (len ...)) -> (1 sparse? mask?)
//! mode 2: (2 ((kind ids pad labels tids tpad) ...)) -> (1 (shape data) ...)
//! mode 3: (3 group mean) -> (1 (w ...))   TokenGroup::get_weights called directly
//! sparse = (((row0) (row1) (row2)) (values) size group_lengths)
//! every f32 (matrix value, weight) is sent as the fields of `to_bits`: (k s m e), compared bit for bit with
//! the binary32 model
#[path = "../tok_common.rs"]
mod tc;
use tc::*;
use text_utils::data::loading::Tensorize;
use text_utils::data::verif_hooks::tensorized_view;
use text_utils::data::{TrainData, TrainItem, TrainTaskInput};
use text_utils::tokenization::{
    padding_mask, token_groups_to_sparse_coo_matrix, ByteTokenizer, GroupAggregation, Grouping, TokenGroup,
    TokenizationInfo, Tokenize,
};
use text_utils::verif::{padding_mask_view, sparse_coo_view};
use vh::*;

struct C17;

fn tg_val(g: &TokenGroup) -> Val {
    match g {
        TokenGroup::Empty(n) => Val::L(vec![Val::I(0), Val::u(*n)]),
        TokenGroup::Full(n) => Val::L(vec![Val::I(1), Val::u(*n)]),
        TokenGroup::Nested(l) => Val::L(vec![Val::I(2), Val::list(l.iter(), tg_val)]),
    }
}

/// an f32 as the fields of `to_bits`: (k s m e) — k = 0 zero, 1 finite non-zero (value m * 2^e with the
/// canonical 24-bit or subnormal mantissa), 2 infinity, 3 NaN; s = 1 for negative
fn f32_val(x: f32) -> Val {
    let bits = x.to_bits();
    let s = (bits >> 31) as i64;
    let exp = ((bits >> 23) & 0xff) as i64;
    let frac = (bits & ((1u32 << 23) - 1)) as i64;
    let l = |k: i64, s: i64, m: i64, e: i64| Val::L(vec![Val::I(k), Val::I(s), Val::I(m), Val::I(e)]);
    if exp == 0xff {
        if frac == 0 {
            l(2, s, 0, 0)
        } else {
            l(3, 0, 0, 0)
        }
    } else if exp == 0 {
        if frac == 0 {
            l(0, s, 0, 0)
        } else {
            l(1, s, frac, -149)
        }
    } else {
        l(1, s, frac | (1i64 << 23), exp - 150)
    }
}

fn val_tg(v: &Val, depth: usize) -> Option<TokenGroup> {
    if depth > 12 {
        return None;
    }
    let l = v.as_l()?;
    if l.len() != 2 {
        return None;
    }
    Some(match l[0].as_i()? {
        0 => TokenGroup::Empty(l[1].as_usize().filter(|n| *n <= 512)?),
        1 => TokenGroup::Full(l[1].as_usize().filter(|n| *n <= 512)?),
        2 => {
            let sub = l[1].as_l()?;
            if sub.len() > 16 {
                return None;
            }
            TokenGroup::Nested(sub.iter().map(|x| val_tg(x, depth + 1)).collect::<Option<_>>()?)
        }
        _ => return None,
    })
}

fn agg(mean: bool) -> GroupAggregation {
    if mean {
        GroupAggregation::Mean
    } else {
        GroupAggregation::Sum
    }
}

/// the matrix as a value, `()` when the builder panics (its assertions) or errs
fn sparse_val(groupings: &[Grouping], lengths: &[usize]) -> (Val, Option<Vec<usize>>) {
    let refs: Vec<&Grouping> = groupings.iter().collect();
    let r = std::panic::catch_unwind(std::panic::AssertUnwindSafe(|| {
        token_groups_to_sparse_coo_matrix(&refs, lengths).ok().map(|m| sparse_coo_view(&m))
    }));
    match r {
        Ok(Some((rows, values, size, gl))) => (
            Val::some(Val::L(vec![
                Val::list(rows.iter(), |r| Val::list(r.iter(), |x| Val::I(*x as i64))),
                Val::list(values.iter(), |w| f32_val(*w)),
                Val::list(size.iter(), |x| Val::u(*x)),
                Val::list(gl.iter(), |x| Val::u(*x)),
            ])),
            Some(gl),
        ),
        _ => (Val::none(), None),
    }
}

fn mask_val(gl: &[usize]) -> Val {
    let m = padding_mask(gl);
    Val::list(padding_mask_view(&m).iter(), |r| Val::list(r.iter(), |b| Val::b(*b)))
}

fn gen_tg(rng: &mut Rng, depth: usize) -> TokenGroup {
    match rng.below(if depth >= 2 { 8 } else { 12 }) {
        0 => TokenGroup::Empty(rng.below(3)),
        1 => TokenGroup::Full(0),
        2..=7 => TokenGroup::Full(rng.range(1, 4)),
        _ => {
            let n = match rng.below(6) {
                0 => 0,
                _ => rng.range(1, 3),
            };
            TokenGroup::Nested((0..n).map(|_| gen_tg(rng, depth + 1)).collect())
        }
    }
}

/// a group length for the float stream: mostly numbers whose reciprocal is not a binary32 (3, 5, 6, 7, 9, ...),
/// sometimes a power of two (exact), rarely large
fn float_len(rng: &mut Rng) -> usize {
    match rng.below(10) {
        0 => 1 << rng.below(6),
        1 => rng.range(20, 64),
        _ => rng.range(1, 13),
    }
}

/// groups for the float stream: every nested part contains a token (so that the Mean weights of the group sum
/// to one), sizes with inexact reciprocals; `want` = nesting depth reached on at least one path (the other
/// children draw their own, smaller or equal), so that three and more factors meet on a path and the order in
/// which the code multiplies them shows in the last bit
fn gen_tg_float(rng: &mut Rng, depth: usize, budget: usize, want: usize) -> TokenGroup {
    if depth >= want || budget <= 1 {
        return TokenGroup::Full(float_len(rng).min(budget.max(1)));
    }
    let n = rng.range(1, 6).min(budget);
    let deep = rng.below(n);
    let mut sub: Vec<TokenGroup> = (0..n)
        .map(|i| {
            let w = if i == deep { want } else { depth + 1 + rng.below(want - depth) };
            gen_tg_float(rng, depth + 1, budget / n, w)
        })
        .collect();
    if rng.chance(1, 12) {
        let k = rng.below(3);
        sub.push(TokenGroup::Empty(k));
    }
    TokenGroup::Nested(sub)
}

/// a size whose reciprocal is not a binary32, mostly
fn odd_len(rng: &mut Rng) -> usize {
    *rng.pick(&[3usize, 3, 5, 6, 7, 9, 10, 11, 12, 13, 2, 1])
}

fn gen_mode3(rng: &mut Rng) -> Val {
    let g = match rng.below(10) {
        0 => gen_tg(rng, 0),
        1 => TokenGroup::Full(match rng.below(4) {
            0 => 0,
            1 => rng.range(65, 512),
            _ => float_len(rng),
        }),
        2 | 3 => {
            // a chain: one token under k nested levels of sizes with inexact reciprocals (many roundings on one path)
            let k = rng.range(1, 10);
            let mut g = TokenGroup::Full(odd_len(rng));
            for _ in 0..k {
                let n = odd_len(rng);
                let mut sub = vec![g];
                for _ in 1..n {
                    sub.push(TokenGroup::Full(1));
                }
                g = TokenGroup::Nested(sub);
            }
            g
        }
        _ => {
            let want = rng.range(1, 6);
            gen_tg_float(rng, 0, 96, want)
        }
    };
    Val::L(vec![Val::I(3), tg_val(&g), Val::b(rng.chance(3, 4))])
}

fn gen_mode0(rng: &mut Rng) -> Val {
    let cfg = gen_cfg(rng, false);
    let n = rng.range(1, 6);
    let ign = rng.chance(1, 3);
    let texts: Vec<String> = (0..n).map(|_| gen_text(rng, &cfg, 10, &[])).collect();
    mode0_input(&cfg, rng.chance(2, 3), ign, &texts)
}

fn mode0_input(cfg: &TokCfg, mean: bool, ign: bool, texts: &[String]) -> Val {
    Val::L(vec![
        Val::I(0),
        Val::L(cfg.to_vals(&[])),
        Val::b(mean),
        Val::b(ign),
        Val::list(texts.iter(), |s| Val::str(s)),
        Val::list(texts.iter(), |s| oracle(cfg, s, ign)),
    ])
}

fn gen_mode1(rng: &mut Rng) -> Val {
    let n = match rng.below(10) {
        0 => 0,
        _ => rng.range(1, 5),
    };
    let mut items = vec![];
    let mut lengths = vec![];
    let all_mean = rng.chance(1, 3);
    for _ in 0..n {
        let k = rng.below(7);
        let fl = rng.chance(1, 3);
        let groups: Vec<TokenGroup> = (0..k)
            .map(|_| if fl { let want = rng.range(1, 5); gen_tg_float(rng, 0, 24, want) } else { gen_tg(rng, 0) })
            .collect();
        let total: usize = groups.iter().map(|g| g.len()).sum();
        lengths.push(total);
        items.push(Val::L(vec![Val::list(groups.iter(), tg_val), Val::b(all_mean || rng.chance(1, 2))]));
    }
    // malformed stream: a wrong length, a missing or extra length
    match rng.below(12) {
        0 if !lengths.is_empty() => {
            let i = rng.below(lengths.len());
            lengths[i] += 1;
        }
        1 if !lengths.is_empty() => {
            let i = rng.below(lengths.len());
            lengths[i] = lengths[i].saturating_sub(1);
        }
        2 => lengths.push(rng.below(3)),
        3 => {
            lengths.pop();
        }
        4 if lengths.len() >= 2 => {
            // sums agree in total but not per item
            lengths[0] += 1;
            let l = lengths.len() - 1;
            lengths[l] = lengths[l].saturating_sub(1);
        }
        _ => {}
    }
    Val::L(vec![Val::I(1), Val::L(items), Val::list(lengths.iter(), |x| Val::u(*x))])
}

fn gen_mode2(rng: &mut Rng) -> Val {
    let n = rng.range(1, 6);
    let kind = rng.below(4);
    let mixed = rng.chance(1, 10);
    let equal_len = rng.chance(1, 6);
    let l0 = rng.below(7);
    let mut items = vec![];
    for _ in 0..n {
        let k = if mixed { rng.below(4) } else { kind };
        let nid = if equal_len { l0 } else { rng.below(9) };
        let ids: Vec<Val> = (0..nid).map(|_| Val::u(rng.below(300))).collect();
        let nl = if k == 0 {
            1
        } else if rng.chance(1, 2) {
            nid
        } else {
            rng.below(9)
        };
        let labels: Vec<Val> = (0..nl).map(|_| Val::I(rng.below(7) as i64 - 1)).collect();
        let nt = rng.below(6);
        let tids: Vec<Val> = (0..nt).map(|_| Val::u(rng.below(300))).collect();
        items.push(Val::L(vec![
            Val::u(k),
            Val::L(ids),
            Val::u(256 + rng.below(4)),
            Val::L(labels),
            Val::L(tids),
            Val::u(256 + rng.below(4)),
        ]));
    }
    Val::L(vec![Val::I(2), Val::L(items)])
}

fn val_u32s(v: &Val) -> Option<Vec<u32>> {
    v.as_l()?.iter().map(|x| x.as_i().and_then(|i| u32::try_from(i).ok())).collect()
}
fn val_i32s(v: &Val) -> Option<Vec<i32>> {
    v.as_l()?.iter().map(|x| x.as_i().and_then(|i| i32::try_from(i).ok())).collect()
}

fn run_mode0(l: &[Val]) -> Option<(Val, Vec<String>)> {
    if l.len() != 6 {
        return None;
    }
    let cfg = TokCfg::from_vals(l[1].as_l()?)?;
    if cfg.is_char {
        return None;
    }
    let mean = l[2].as_bool()?;
    let ign = l[3].as_bool()?;
    let texts: Vec<String> = l[4].as_l()?.iter().map(|x| x.to_string_lossy()).collect::<Option<_>>()?;
    if texts.is_empty() || texts.len() > 12 {
        return None;
    }
    if l[5] != Val::list(texts.iter(), |s| oracle(&cfg, s, ign)) || l[1] != Val::L(cfg.to_vals(&[])) {
        return None;
    }
    let cfg2 = cfg.clone();
    let texts2 = texts.clone();
    let out = guard(move || {
        let tok = match ByteTokenizer::new(cfg2.byte_cfg(agg(mean)), cfg2.special()) {
            Ok(t) => t,
            Err(_) => return Val::L(vec![Val::I(0)]),
        };
        let mut toks = vec![];
        let mut groupings: Vec<Grouping> = vec![];
        let mut lengths = vec![];
        for s in &texts2 {
            let t = match tok.tokenize(s, ign) {
                Ok(t) => t,
                Err(_) => return Val::L(vec![Val::I(2)]),
            };
            let grouping = match &t.info {
                TokenizationInfo::TokenGroups(m) if m.len() == 1 => m.values().next().unwrap().clone(),
                _ => return Val::L(vec![Val::I(3)]),
            };
            if grouping.1 != agg(mean) {
                return Val::L(vec![Val::I(4)]);
            }
            toks.push(Val::L(vec![ids_val(&t.token_ids), Val::list(grouping.0.iter(), tg_val)]));
            lengths.push(t.token_ids.len());
            groupings.push(grouping);
        }
        let (sp, _) = sparse_val(&groupings, &lengths);
        let gl: Vec<usize> = groupings.iter().map(|g| g.0.len()).collect();
        Val::L(vec![Val::I(1), Val::L(toks), sp, mask_val(&gl)])
    });
    let mut tags = vec!["groups".to_string(), if mean { "mean" } else { "sum" }.to_string()];
    tags.push(if cfg.code_point_groups { "cpg" } else { "bytegroups" }.to_string());
    if cfg.g {
        tags.push("g".into());
    }
    let ctor_ok = out.nth(0).and_then(|v| v.as_i()) == Some(1);
    if !ctor_ok {
        tags.push("ctor-err".into());
    }
    if !cfg.prefix_free() {
        tags.push("overlap".into());
    }
    let multi = texts.iter().any(|s| s.chars().any(|c| c.len_utf8() > 1));
    if ctor_ok && texts.len() >= 2 && multi {
        tags.push("nt".into());
    }
    Some((out, tags))
}

fn run_mode1(l: &[Val]) -> Option<(Val, Vec<String>)> {
    if l.len() != 3 {
        return None;
    }
    let items = l[1].as_l()?;
    if items.len() > 12 {
        return None;
    }
    let mut groupings: Vec<Grouping> = vec![];
    for it in items {
        let gs = it.nth(0)?.as_l()?;
        if gs.len() > 16 {
            return None;
        }
        let groups: Vec<TokenGroup> = gs.iter().map(|g| val_tg(g, 0)).collect::<Option<_>>()?;
        groupings.push((groups, agg(it.nth(1)?.as_bool()?)));
        if it.as_l()?.len() != 2 {
            return None;
        }
    }
    let lengths: Vec<usize> = l[2].as_l()?.iter().map(|x| x.as_usize().filter(|n| *n <= 4096)).collect::<Option<_>>()?;
    if lengths.len() > 16 {
        return None;
    }
    let g2 = groupings.clone();
    let l2 = lengths.clone();
    let out = guard(move || {
        let (sp, gl) = sparse_val(&g2, &l2);
        let mask = match gl {
            Some(gl) => Val::some(mask_val(&gl)),
            None => Val::none(),
        };
        Val::L(vec![Val::I(1), sp, mask])
    });
    let mut tags = vec!["sparse".to_string()];
    let eq = groupings.len() == lengths.len()
        && groupings.iter().zip(&lengths).all(|(g, l)| g.0.iter().map(|x| x.len()).sum::<usize>() == *l);
    if !eq {
        tags.push("mismatch".into());
    }
    let nested = groupings.iter().any(|g| g.0.iter().any(|x| matches!(x, TokenGroup::Nested(_))));
    if eq && groupings.len() >= 2 && nested {
        tags.push("nt".into());
    }
    Some((out, tags))
}

fn run_mode2(l: &[Val]) -> Option<(Val, Vec<String>)> {
    if l.len() != 2 {
        return None;
    }
    let items = l[1].as_l()?;
    if items.is_empty() || items.len() > 16 {
        return None;
    }
    let mut batch: Vec<TrainItem> = vec![];
    let mut kinds = vec![];
    for it in items {
        let f = it.as_l()?;
        if f.len() != 6 {
            return None;
        }
        let kind = f[0].as_usize()?;
        let token_ids = val_u32s(&f[1])?;
        let pad_token_id = u32::try_from(f[2].as_i()?).ok()?;
        let labels = val_i32s(&f[3])?;
        let target_token_ids = val_u32s(&f[4])?;
        let target_pad_token_id = u32::try_from(f[5].as_i()?).ok()?;
        if token_ids.len() > 64 || labels.len() > 64 || target_token_ids.len() > 64 {
            return None;
        }
        let input = match kind {
            0 => {
                if labels.len() != 1 {
                    return None;
                }
                TrainTaskInput::Classification { token_ids, pad_token_id, label: labels[0] }
            }
            1 => TrainTaskInput::SequenceClassification { token_ids, pad_token_id, labels },
            2 => TrainTaskInput::Generation { token_ids, pad_token_id, labels },
            3 => TrainTaskInput::ConditionalGeneration {
                token_ids,
                pad_token_id,
                target_token_ids,
                target_pad_token_id,
                labels,
            },
            _ => return None,
        };
        kinds.push(kind);
        batch.push(TrainItem::new(TrainData::new(String::new(), None), input));
    }
    let out = guard(move || {
        let t = batch.tensorize();
        let mut out = vec![Val::I(1)];
        for (_, shape, data) in tensorized_view(&t) {
            out.push(Val::L(vec![Val::list(shape.iter(), |x| Val::u(*x)), Val::list(data.iter(), |x| Val::I(*x))]));
        }
        Val::L(out)
    });
    let mut tags = vec!["tensorize".to_string(), format!("kind{}", kinds[0])];
    if kinds.iter().any(|k| *k != kinds[0]) {
        tags.push("mixed".into());
    }
    let lens: Vec<usize> = items.iter().filter_map(|it| it.nth(1).and_then(|x| x.as_l()).map(|x| x.len())).collect();
    if lens.len() >= 2 && lens.iter().any(|x| *x != lens[0]) {
        tags.push("nt".into());
    }
    Some((out, tags))
}

fn tg_size(g: &TokenGroup) -> usize {
    match g {
        TokenGroup::Nested(l) => 1 + l.iter().map(tg_size).sum::<usize>(),
        _ => 1,
    }
}

fn run_mode3(l: &[Val]) -> Option<(Val, Vec<String>)> {
    if l.len() != 3 {
        return None;
    }
    let g = val_tg(&l[1], 0)?;
    if g.len() > 4096 || tg_size(&g) > 4096 {
        return None;
    }
    let mean = l[2].as_bool()?;
    let g2 = g.clone();
    let out = guard(move || {
        let w = g2.get_weights(agg(mean));
        Val::L(vec![Val::I(1), Val::list(w.iter(), |x| f32_val(*x))])
    });
    let mut tags = vec!["weights".to_string(), if mean { "mean" } else { "sum" }.to_string()];
    // non-trivial: Mean, nested, and some weight is not a power of two (a rounding happened)
    let inexact = out
        .nth(1)
        .and_then(|v| v.as_l())
        .map(|ws| ws.iter().any(|w| w.nth(2).and_then(|m| m.as_i()).map(|m| m != 0 && m != (1 << 23)).unwrap_or(false)))
        .unwrap_or(false);
    if inexact {
        tags.push("inexact".into());
    }
    if mean && matches!(g, TokenGroup::Nested(_)) && inexact {
        tags.push("nt".into());
    }
    Some((out, tags))
}

impl Prop for C17 {
    fn gen(&mut self, rng: &mut Rng, _tier: Tier, _i: usize, _n: usize) -> Val {
        match rng.below(20) {
            0..=8 => gen_mode0(rng),
            9..=13 => gen_mode1(rng),
            14..=16 => gen_mode2(rng),
            _ => gen_mode3(rng),
        }
    }

    fn run(&mut self, input: &Val) -> Option<(Val, Vec<String>)> {
        let l = input.as_l()?;
        match l.first()?.as_i()? {
            0 => run_mode0(l),
            1 => run_mode1(l),
            2 => run_mode2(l),
            3 => run_mode3(l),
            _ => None,
        }
    }

    fn canon(&mut self, input: &Val) -> Option<Val> {
        let l = input.as_l()?;
        match l.first()?.as_i()? {
            0 => {
                if l.len() != 6 {
                    return None;
                }
                let cfg = TokCfg::from_vals(l[1].as_l()?)?;
                let texts: Vec<String> = l[4].as_l()?.iter().map(|x| x.to_string_lossy()).collect::<Option<_>>()?;
                let mut cfg = cfg;
                cfg.is_char = false;
                Some(mode0_input(&cfg, l[2].as_bool()?, l[3].as_bool()?, &texts))
            }
            _ => Some(input.clone()),
        }
    }
}

fn main() {
    main_loop(C17);
}

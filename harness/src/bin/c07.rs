//! C07: MultiTrainDataGenerator (sequential / interleaved / weighted) against the model.
//! input  = (strat seed srcs orc)   srcs = ((kind id) ...) per source, see `line`
//! output = (1 items rep len) | (0) constructor error | (2 items) more items than exist
//!          | (-777) panic | (-778) hang;   items = ((tag ok id) ...)
//! Every drain of the real generator runs on a helper thread under a watchdog.
use std::io::Write as _;
use std::path::PathBuf;
use text_utils::data::loading::{
    train_data_generator_from_jsonl, GenerationStrategy, MultiTrainDataGenerator, TrainDataGenerator,
};
use vh::*;

const KINDS: i64 = 8;
const TIMEOUT_MS: u64 = 300;
const CONFIRM_MS: u64 = 2500;
/// in a child process (only used after a first confirmed hang) the confirmation is shorter
const CHILD_CONFIRM_MS: u64 = 700;
/// a source that is pulled this often after it returned None is being spun on
const SPIN_LIMIT: usize = 20_000;

/// Transparent wrapper around a real source generator that notices an endless stream of
/// pulls after exhaustion (a hang that can be detected without waiting for the watchdog).
struct Counted {
    inner: TrainDataGenerator,
    after_end: usize,
}

struct Spin;

impl Iterator for Counted {
    type Item = anyhow::Result<text_utils::data::TrainData>;
    fn next(&mut self) -> Option<Self::Item> {
        let r = self.inner.next();
        if r.is_none() {
            self.after_end += 1;
            if self.after_end > SPIN_LIMIT {
                std::panic::panic_any(Spin);
            }
        }
        r
    }
    fn size_hint(&self) -> (usize, Option<usize>) {
        self.inner.size_hint()
    }
}

impl ExactSizeIterator for Counted {}

struct C07 {
    dir: PathBuf,
    run_mode: bool,
    /// this process was started by another c07 process after a confirmed hang
    child: bool,
    /// a helper thread of this process is stuck in the implementation
    hung: bool,
}

/// one jsonl line (without the line terminator) per item kind; the id is recoverable
/// from the Ok data (kinds 0, 1, 2) or from the error message (the others)
fn line(kind: i64, id: i64) -> String {
    match kind {
        0 | 2 => format!("{{\"input\":\"{id}\"}}"), // kind 2 is written with a CRLF line end
        1 => format!("{{\"input\":\"{id}\",\"target\":\"t{id}\"}}"),
        3 => format!("{{\"input\": {id}"),          // malformed json
        4 => format!("{{\"id\":{id}}}"),            // key 'input' missing
        5 => format!("{{\"input\":{id}}}"),         // input not a string
        6 => format!("[{id}]"),                     // not an object
        _ => format!("{{\"input\":\"x\",\"target\":{id}}}"), // target not a string
    }
}

/// kinds 0..2 parse to Ok data, kinds 3..7 are Err items (the model uses the same rule)
fn kind_ok(kind: i64) -> bool {
    kind < 3
}

fn last_number(s: &str) -> i64 {
    let b = s.as_bytes();
    let mut end = b.len();
    while end > 0 && !b[end - 1].is_ascii_digit() {
        end -= 1;
    }
    let mut start = end;
    while start > 0 && b[start - 1].is_ascii_digit() {
        start -= 1;
    }
    s[start..end].parse().unwrap_or(-1)
}

fn decode(item: &anyhow::Result<text_utils::data::TrainData>) -> (bool, i64) {
    match item {
        Ok(td) => (true, td.verif_input().parse().unwrap_or(-1)),
        Err(e) => (false, last_number(&e.to_string())),
    }
}

fn strategy(s: i64) -> GenerationStrategy {
    match s {
        1 => GenerationStrategy::Interleaved,
        2 => GenerationStrategy::Weighted,
        _ => GenerationStrategy::Sequential,
    }
}

/// build the real generators over the files and drain the combined one
fn drain(files: &[PathBuf], strat: i64, seed: u64, cap: usize) -> Val {
    let gens: Result<Vec<TrainDataGenerator>, _> = files
        .iter()
        .map(|f| {
            train_data_generator_from_jsonl(f)
                .map(|g| Box::new(Counted { inner: g, after_end: 0 }) as TrainDataGenerator)
        })
        .collect();
    let Ok(gens) = gens else {
        return Val::L(vec![Val::I(-5)]);
    };
    match MultiTrainDataGenerator::new(gens, strategy(strat), Some(seed)) {
        Err(_) => Val::L(vec![Val::I(0)]),
        Ok(g) => {
            let len = g.len();
            let mut items = vec![];
            for (data, tag) in g {
                let (ok, id) = decode(&data);
                items.push(Val::L(vec![Val::u(tag), Val::b(ok), Val::I(id)]));
                if items.len() > cap {
                    return Val::L(vec![Val::I(2), Val::L(items)]);
                }
            }
            Val::L(vec![Val::I(1), Val::L(items), Val::u(len)])
        }
    }
}

fn is_hang(v: &Val) -> bool {
    *v == Val::hang()
}

/// `drain`, with the spin marker of `Counted` turned into a value
fn drain_caught(files: &[PathBuf], strat: i64, seed: u64, cap: usize) -> Val {
    match std::panic::catch_unwind(std::panic::AssertUnwindSafe(|| drain(files, strat, seed, cap))) {
        Ok(v) => v,
        Err(e) if e.downcast_ref::<Spin>().is_some() => Val::L(vec![Val::I(-778), Val::I(0)]),
        Err(_) => Val::panic(),
    }
}

type Srcs = Vec<Vec<(i64, i64)>>;

fn parse_input(input: &Val) -> Option<(i64, u64, Srcs)> {
    let l = input.as_l()?;
    if l.len() != 4 {
        return None;
    }
    let strat = l[0].as_i()?;
    let seed = u64::try_from(l[1].as_i()?).ok()?;
    let mut srcs = vec![];
    for s in l[2].as_l()? {
        let mut v = vec![];
        for it in s.as_l()? {
            v.push((it.nth(0)?.as_i()?, it.nth(1)?.as_i()?));
        }
        srcs.push(v);
    }
    l[3].as_l()?;
    Some((strat, seed, srcs))
}

impl C07 {
    fn new() -> Self {
        let run_mode = std::env::args().nth(1).as_deref() == Some("run");
        let dir = PathBuf::from(format!("/tmp/c07/h{}", std::process::id()));
        let _ = std::fs::create_dir_all(&dir);
        let child = std::env::var("C07_CHILD").is_ok();
        C07 { dir, run_mode, child, hung: false }
    }

    fn write_files(&self, srcs: &Srcs) -> Option<Vec<PathBuf>> {
        let mut files = vec![];
        for (j, s) in srcs.iter().enumerate() {
            let p = self.dir.join(format!("{j}.jsonl"));
            let mut f = std::io::BufWriter::new(std::fs::File::create(&p).ok()?);
            for (kind, id) in s {
                let eol = if *kind == 2 { "\r\n" } else { "\n" };
                write!(f, "{}{}", line(*kind, *id), eol).ok()?;
            }
            f.flush().ok()?;
            files.push(p);
        }
        Some(files)
    }

    /// one watched drain -> (output, a helper thread is stuck). A timeout is confirmed once
    /// with a longer limit so that a loaded machine cannot produce a false hang; endless
    /// pulling of an exhausted source is reported as a hang at once (no thread stays behind).
    fn watched(&self, files: &[PathBuf], strat: i64, seed: u64, cap: usize) -> (Val, bool) {
        let spin = Val::L(vec![Val::I(-778), Val::I(0)]);
        let f1 = files.to_vec();
        let v = with_timeout(TIMEOUT_MS, move || drain_caught(&f1, strat, seed, cap));
        if v == spin {
            return (Val::hang(), false);
        }
        if !is_hang(&v) {
            return (v, false);
        }
        let f2 = files.to_vec();
        let confirm = if self.child { CHILD_CONFIRM_MS } else { CONFIRM_MS };
        let v = with_timeout(confirm, move || drain_caught(&f2, strat, seed, cap));
        if v == spin {
            return (Val::hang(), true);
        }
        let stuck = is_hang(&v);
        (v, stuck)
    }

    /// after a hang in `run` mode the remaining inputs go through a child process each,
    /// so that stuck helper threads do not pile up in this one
    fn run_via_child(&self, input: &Val) -> Option<(Val, Vec<String>)> {
        let exe = std::env::current_exe().ok()?;
        let mut child = std::process::Command::new(exe)
            .arg("run")
            .env("C07_CHILD", "1")
            .stdin(std::process::Stdio::piped())
            .stdout(std::process::Stdio::piped())
            .stderr(std::process::Stdio::null())
            .spawn()
            .ok()?;
        {
            let mut stdin = child.stdin.take()?;
            writeln!(stdin, "{}", input.to_sexp()).ok()?;
        }
        let out = child.wait_with_output().ok()?;
        let text = String::from_utf8_lossy(&out.stdout);
        let first = text.lines().next()?;
        let mut parts = first.split('\t');
        let o = parts.next()?;
        if o == "INVALID" {
            return None;
        }
        let tags = parts
            .next()
            .map(|t| t.split(',').filter(|s| !s.is_empty()).map(|s| s.to_string()).collect())
            .unwrap_or_default();
        Some((Val::parse(o)?, tags))
    }

    fn tags(strat: i64, srcs: &Srcs) -> Vec<String> {
        let mut tags = vec![match strat {
            1 => "interleaved",
            2 => "weighted",
            _ => "sequential",
        }
        .to_string()];
        let lens: Vec<usize> = srcs.iter().map(|s| s.len()).collect();
        let (mn, mx) = (*lens.iter().min().unwrap(), *lens.iter().max().unwrap());
        if lens.len() == 1 {
            tags.push("single".into());
        }
        if mn == 0 {
            tags.push("empty-src".into());
        }
        if srcs.iter().flatten().any(|(k, _)| !kind_ok(*k)) {
            tags.push("err-items".into());
        }
        // a source runs dry while another still has at least two items to go, or a
        // single source with at least two items: the selection after exhaustion is exercised
        if (lens.len() >= 2 && mx >= mn + 2) || (lens.len() == 1 && mx >= 2) {
            tags.push("nt".into());
        }
        tags
    }
}

impl Drop for C07 {
    fn drop(&mut self) {
        let _ = std::fs::remove_dir_all(&self.dir);
    }
}

fn gen_source(rng: &mut Rng, j: usize, len: usize, malformed: bool) -> Val {
    Val::L(
        (0..len)
            .map(|k| {
                let kind = if malformed && rng.chance(1, 3) {
                    rng.range(3, 7) as i64
                } else {
                    *rng.pick(&[0, 0, 0, 1, 2])
                };
                Val::L(vec![Val::I(kind), Val::I((j * 1000 + k) as i64)])
            })
            .collect(),
    )
}

fn case(strat: i64, seed: u64, lens: &[usize], rng: &mut Rng, malformed: bool) -> Val {
    let total: usize = lens.iter().sum();
    let srcs: Vec<Val> = lens
        .iter()
        .enumerate()
        .map(|(j, l)| gen_source(rng, j, *l, malformed))
        .collect();
    let orc: Vec<Val> = (0..total + lens.len() + 2).map(|_| Val::u(rng.below(6))).collect();
    Val::L(vec![Val::I(strat), Val::I(seed as i64), Val::L(srcs), Val::L(orc)])
}

impl Prop for C07 {
    fn gen(&mut self, rng: &mut Rng, tier: Tier, _i: usize, _n: usize) -> Val {
        let strat = rng.below(3) as i64;
        let seed = match rng.below(8) {
            0 => 0,
            1 => rng.below(4) as u64,
            _ => rng.next_u64() >> 3,
        };
        let big = if tier == Tier::Thorough { 24 } else { 12 };
        let stream = rng.below(100);
        let lens: Vec<usize> = if stream < 15 {
            // a single source
            vec![rng.below(7)]
        } else if stream < 45 {
            // short sources, empties only by chance for the weighted strategy
            let n = rng.range(2, 5);
            let lo = if strat == 2 && !rng.chance(1, 8) { 1 } else { 0 };
            (0..n).map(|_| rng.range(lo, 4)).collect()
        } else if stream < 70 {
            // one or two long sources among short ones: long tail on few unfinished sources
            let n = rng.range(2, 5);
            let lo = if strat == 2 { 1 } else { 0 };
            let mut l: Vec<usize> = (0..n).map(|_| rng.range(lo, 2)).collect();
            let k = rng.below(n);
            l[k] = rng.range(3, big);
            if rng.chance(1, 3) {
                let k2 = rng.below(n);
                l[k2] = rng.range(3, big);
            }
            l
        } else if stream < 80 {
            // all equal
            let n = rng.range(2, 5);
            let len = rng.range(if strat == 2 { 1 } else { 0 }, 5);
            vec![len; n]
        } else if stream < 90 {
            // staircase, ascending or descending
            let n = rng.range(2, 6);
            let mut l: Vec<usize> = (0..n).map(|k| k + if strat == 2 { 1 } else { 0 }).collect();
            if rng.chance(1, 2) {
                l.reverse();
            }
            l
        } else {
            // edge: many empties, also for weighted (constructor error)
            let n = rng.range(1, 6);
            (0..n).map(|_| if rng.chance(1, 2) { 0 } else { rng.range(1, 3) }).collect()
        };
        let malformed = rng.chance(1, 4);
        case(strat, seed, &lens, rng, malformed)
    }

    fn exhaustive(&mut self, _tier: Tier) -> Vec<Val> {
        // every length vector of <= 3 sources with lengths <= 4 and of 4 sources with
        // lengths <= 3, all strategies (weighted with three seeds)
        let mut rng = Rng::new(7);
        let mut all = vec![];
        let mut vecs: Vec<Vec<usize>> = vec![];
        for n in 1..=4usize {
            let m: usize = if n == 4 { 4 } else { 5 };
            let count = m.pow(n as u32);
            for code in 0..count {
                let mut c = code;
                let mut v = vec![];
                for _ in 0..n {
                    v.push(c % m);
                    c /= m;
                }
                vecs.push(v);
            }
        }
        for v in &vecs {
            for strat in 0..3i64 {
                let seeds: &[u64] = if strat == 2 { &[0, 1, 2] } else { &[0] };
                for s in seeds {
                    all.push(case(strat, *s, v, &mut rng, false));
                }
            }
        }
        all
    }

    fn run(&mut self, input: &Val) -> Option<(Val, Vec<String>)> {
        let (strat, seed, srcs) = parse_input(input)?;
        if !(0..3).contains(&strat) || srcs.is_empty() || srcs.len() > 8 {
            return None; // the callers of the generator refuse an empty file list
        }
        if srcs.iter().any(|s| s.len() > 64) || seed >= 1 << 62 {
            return None;
        }
        // ids must be unique and kinds known (canon establishes both)
        let mut seen = std::collections::HashSet::new();
        for (k, id) in srcs.iter().flatten() {
            if !(0..KINDS).contains(k) || *id < 0 || !seen.insert(*id) {
                return None;
            }
        }
        if self.hung {
            if self.run_mode {
                return self.run_via_child(input);
            }
            // gen mode: one stuck helper thread is enough, stop exploring in this process
            return None;
        }
        let files = self.write_files(&srcs)?;
        let total: usize = srcs.iter().map(|s| s.len()).sum();
        let cap = total + srcs.len() + 4;
        let tags = C07::tags(strat, &srcs);
        let (first, stuck) = self.watched(&files, strat, seed, cap);
        self.hung |= stuck;
        if is_hang(&first) {
            return Some((first, tags));
        }
        let l = first.as_l()?;
        if l.first() != Some(&Val::I(1)) {
            return Some((first.clone(), tags));
        }
        let (second, stuck) = self.watched(&files, strat, seed, cap);
        self.hung |= stuck;
        if is_hang(&second) {
            return Some((second, tags));
        }
        let rep = second == first;
        Some((
            Val::L(vec![Val::I(1), l[1].clone(), Val::b(rep), l[2].clone()]),
            tags,
        ))
    }

    fn canon(&mut self, input: &Val) -> Option<Val> {
        let l = input.as_l()?;
        if l.len() != 4 {
            return None;
        }
        let strat = l[0].as_i()?.rem_euclid(3);
        let seed = l[1].as_i()?.unsigned_abs() & ((1 << 62) - 1);
        let mut srcs = vec![];
        for (j, s) in l[2].as_l()?.iter().enumerate() {
            let items: Vec<Val> = s
                .as_l()?
                .iter()
                .enumerate()
                .map(|(k, it)| {
                    let kind = it.nth(0).and_then(|v| v.as_i()).unwrap_or(0).rem_euclid(KINDS);
                    Val::L(vec![Val::I(kind), Val::I((j * 1000 + k) as i64)])
                })
                .collect();
            srcs.push(Val::L(items));
        }
        let orc: Vec<Val> = l[3]
            .as_l()?
            .iter()
            .map(|v| Val::I(v.as_i().unwrap_or(0).rem_euclid(64)))
            .collect();
        Some(Val::L(vec![Val::I(strat), Val::I(seed as i64), Val::L(srcs), Val::L(orc)]))
    }

    fn selfcheck(&mut self) -> Vec<String> {
        let mut errs = vec![];
        // (1) the item encoding the model is given is what a single real generator yields
        let src: Vec<(i64, i64)> = (0..KINDS).map(|k| (k, 100 + k)).collect();
        let Some(files) = self.write_files(&vec![src.clone()]) else {
            return vec!["cannot write under /tmp/c07".into()];
        };
        match train_data_generator_from_jsonl(&files[0]) {
            Ok(g) => {
                if g.len() != src.len() {
                    errs.push(format!("single generator len() = {} for {} lines", g.len(), src.len()));
                }
                let got: Vec<(bool, i64)> = g.map(|d| decode(&d)).collect();
                let want: Vec<(bool, i64)> = src.iter().map(|(k, id)| (kind_ok(*k), *id)).collect();
                if got != want {
                    errs.push(format!("single generator yields {got:?}, expected {want:?}"));
                }
            }
            Err(e) => errs.push(format!("cannot open generator: {e}")),
        }
        // (2) different seeds give different weighted streams sometimes
        let srcs: Srcs = (0..3).map(|j| (0..4).map(|k| (0, j * 1000 + k)).collect()).collect();
        if let Some(files) = self.write_files(&srcs) {
            let mut distinct = std::collections::HashSet::new();
            for seed in 0..16u64 {
                distinct.insert(self.watched(&files, 2, seed, 40).0.to_sexp());
            }
            if distinct.len() < 2 {
                errs.push("weighted: 16 seeds gave one and the same stream".into());
            }
        }
        errs
    }
}

fn main() {
    main_loop(C07::new());
}

//! C07: MultiTrainDataGenerator (sequential / interleaved / weighted) against the model.
//! input  = (strat seed srcs orc)   srcs = ((kind id) ...) per source, see `line`
//! output = (1 items rep len) | (0) constructor error | (2 items) more items than exist
//!          | (-777) panic | (-778) hang;   items = ((tag ok id) ...)
//! Every drain of the real generator runs on a helper thread under a watchdog.
//! rng cases (strat = 3): input = (3 (seed-hi seed-lo) script ()); the REAL
//! `ChaCha8Rng::seed_from_u64(seed)` (rand_chacha / rand of /repo's lock file) is driven through the
//! script of sampler calls; output = (results (block-hi block-lo offset)), see `rng_script`.
//! file cases (strat 4 / 5 / 6 = sequential / interleaved / weighted): input = (k seed (file ...) orc), a file = its RAW
//! BYTES, written as they are; the real `train_data_generator_from_jsonl` reads them; output as above with
//! items = ((tag (1 input target)) | (tag (0 error-class)) ...). JSON cases (7): text -> serde_json's Value as a tree.
//! print cases (8 w): (input [target]) -> serde_json::to_string of the object (w = 0) / Python's json.dumps line (w = 1). line cases (9): bytes -> the strings
//! `LossyUtf8Reader::lines()` yields and their count. See C07_Files.v.
use rand::distr::weighted::WeightedIndex;
use rand::distr::Distribution as _;
use rand::seq::SliceRandom;
use rand::{Rng as _, RngCore, SeedableRng};
use rand_chacha::ChaCha8Rng;
use std::io::Write as _;
use std::path::PathBuf;
use text_utils::data::loading::{
    train_data_generator_from_jsonl, GenerationStrategy, LossyUtf8Reader, MultiTrainDataGenerator, TrainDataGenerator,
};
use vh::*;

const KINDS: i64 = 8;
const TIMEOUT_MS: u64 = 300;
const CONFIRM_MS: u64 = 2500;
/// in a child process (only used after a first confirmed hang) the confirmation is shorter
const CHILD_CONFIRM_MS: u64 = 700;
/// a source that is pulled this often after it returned None is being spun on
const SPIN_LIMIT: usize = 20_000;

/// Transparent wrapper around a real source generator that notices an endless stream of
/// pulls after exhaustion (a hang that can be detected without waiting for the watchdog).
struct Counted {
    inner: TrainDataGenerator,
    after_end: usize,
}

struct Spin;

impl Iterator for Counted {
    type Item = anyhow::Result<text_utils::data::TrainData>;
    fn next(&mut self) -> Option<Self::Item> {
        let r = self.inner.next();
        if r.is_none() {
            self.after_end += 1;
            if self.after_end > SPIN_LIMIT {
                std::panic::panic_any(Spin);
            }
        }
        r
    }
    fn size_hint(&self) -> (usize, Option<usize>) {
        self.inner.size_hint()
    }
}

impl ExactSizeIterator for Counted {}

struct C07 {
    dir: PathBuf,
    run_mode: bool,
    /// this process was started by another c07 process after a confirmed hang
    child: bool,
    /// a helper thread of this process is stuck in the implementation
    hung: bool,
}

/// one jsonl line (without the line terminator) per item kind; the id is recoverable
/// from the Ok data (kinds 0, 1, 2) or from the error message (the others)
fn line(kind: i64, id: i64) -> String {
    match kind {
        0 | 2 => format!("{{\"input\":\"{id}\"}}"), // kind 2 is written with a CRLF line end
        1 => format!("{{\"input\":\"{id}\",\"target\":\"t{id}\"}}"),
        3 => format!("{{\"input\": {id}"),          // malformed json
        4 => format!("{{\"id\":{id}}}"),            // key 'input' missing
        5 => format!("{{\"input\":{id}}}"),         // input not a string
        6 => format!("[{id}]"),                     // not an object
        _ => format!("{{\"input\":\"x\",\"target\":{id}}}"), // target not a string
    }
}

/// kinds 0..2 parse to Ok data, kinds 3..7 are Err items (the model uses the same rule)
fn kind_ok(kind: i64) -> bool {
    kind < 3
}

fn last_number(s: &str) -> i64 {
    let b = s.as_bytes();
    let mut end = b.len();
    while end > 0 && !b[end - 1].is_ascii_digit() {
        end -= 1;
    }
    let mut start = end;
    while start > 0 && b[start - 1].is_ascii_digit() {
        start -= 1;
    }
    s[start..end].parse().unwrap_or(-1)
}

fn decode(item: &anyhow::Result<text_utils::data::TrainData>) -> (bool, i64) {
    match item {
        Ok(td) => (true, td.verif_input().parse().unwrap_or(-1)),
        Err(e) => (false, last_number(&e.to_string())),
    }
}

fn strategy(s: i64) -> GenerationStrategy {
    match s {
        1 => GenerationStrategy::Interleaved,
        2 => GenerationStrategy::Weighted,
        _ => GenerationStrategy::Sequential,
    }
}

/// the class of an Err item, from the fixed head of its message (JSON_Model.item_err)
fn err_class(msg: &str) -> i64 {
    if msg.starts_with("failed to parse json line") {
        0
    } else if msg.starts_with("json line must be an object") {
        1
    } else if msg.starts_with("key 'input' not found") {
        2
    } else if msg.starts_with("key 'input' must be a string") {
        3
    } else if msg.starts_with("key 'target' must be a string") {
        4
    } else {
        9
    }
}

/// an item of a file case: (1 input target) | (0 error-class)
fn decode_raw(item: &anyhow::Result<text_utils::data::TrainData>) -> Val {
    match item {
        Ok(td) => Val::L(vec![Val::I(1), Val::str(td.verif_input()), Val::str(td.verif_target())]),
        Err(e) => Val::L(vec![Val::I(0), Val::I(err_class(&e.to_string()))]),
    }
}

/// build the real generators over the files and drain the combined one
/// how many items the `j`-th call of a walk skips before it takes one (`Iterator::nth(k)`): a function of the walk seed
fn walk_step(state: &mut u64) -> usize {
    *state = state.wrapping_mul(6364136223846793005).wrapping_add(1442695040888963407);
    [0usize, 0, 0, 1, 2, 3, 5][((*state >> 33) % 7) as usize]
}

/// what a walk must deliver, given the stream `next()` alone delivers: the iterator contract
/// (`nth(k)` = `k` calls of `next()` whose results are dropped, then `next()`; `skip`, `step_by`, `take` are built on it)
fn project_walk(items: &[Val], walk: u64) -> Vec<Val> {
    let (mut st, mut pos, mut out) = (walk, 0usize, vec![]);
    loop {
        pos += walk_step(&mut st);
        if pos >= items.len() {
            return out;
        }
        out.push(items[pos].clone());
        pos += 1;
    }
}

fn drain(files: &[PathBuf], strat: i64, seed: u64, cap: usize, raw: bool) -> Val {
    drain_walk(files, strat, seed, cap, raw, None)
}

/// `walk = Some(w)`: the generator is consumed through `nth(k)` calls with the skips of `walk_step` instead of `next()`
fn drain_walk(files: &[PathBuf], strat: i64, seed: u64, cap: usize, raw: bool, walk: Option<u64>) -> Val {
    let gens: Result<Vec<TrainDataGenerator>, _> = files
        .iter()
        .map(|f| {
            train_data_generator_from_jsonl(f)
                .map(|g| Box::new(Counted { inner: g, after_end: 0 }) as TrainDataGenerator)
        })
        .collect();
    let Ok(gens) = gens else {
        return Val::L(vec![Val::I(-5)]);
    };
    match MultiTrainDataGenerator::new(gens, strategy(strat), Some(seed)) {
        Err(_) => Val::L(vec![Val::I(0)]),
        Ok(g) => {
            let len = g.len();
            let mut items = vec![];
            let mut g = g;
            let mut st = walk;
            loop {
                let got = match &mut st {
                    None => g.next(),
                    Some(w) => g.nth(walk_step(w)),
                };
                let Some((data, tag)) = got else { break };
                if raw {
                    items.push(Val::L(vec![Val::u(tag), decode_raw(&data)]));
                } else {
                    let (ok, id) = decode(&data);
                    items.push(Val::L(vec![Val::u(tag), Val::b(ok), Val::I(id)]));
                }
                if items.len() > cap {
                    return Val::L(vec![Val::I(2), Val::L(items)]);
                }
            }
            Val::L(vec![Val::I(1), Val::L(items), Val::u(len)])
        }
    }
}

fn is_hang(v: &Val) -> bool {
    *v == Val::hang()
}

/// `drain`, with the spin marker of `Counted` turned into a value
fn drain_caught(files: &[PathBuf], strat: i64, seed: u64, cap: usize, raw: bool) -> Val {
    drain_caught_walk(files, strat, seed, cap, raw, None)
}

fn drain_caught_walk(files: &[PathBuf], strat: i64, seed: u64, cap: usize, raw: bool, walk: Option<u64>) -> Val {
    match std::panic::catch_unwind(std::panic::AssertUnwindSafe(|| drain_walk(files, strat, seed, cap, raw, walk))) {
        Ok(v) => v,
        Err(e) if e.downcast_ref::<Spin>().is_some() => Val::L(vec![Val::I(-778), Val::I(0)]),
        Err(_) => Val::panic(),
    }
}


// ---------------------------------------------------------------- rng scripts (RNG_Model.v)

/// a u64 as two 32-bit halves (numbers on the wire stay below 2^62)
fn hl(x: u64) -> Val {
    Val::L(vec![Val::I((x >> 32) as i64), Val::I((x & 0xffff_ffff) as i64)])
}

fn un_hl(v: &Val) -> Option<u64> {
    let l = v.as_l()?;
    if l.len() != 2 {
        return None;
    }
    let (h, lo) = (l[0].as_i()?, l[1].as_i()?);
    if !(0..1i64 << 32).contains(&h) || !(0..1i64 << 32).contains(&lo) {
        return None;
    }
    Some(((h as u64) << 32) | lo as u64)
}

/// f64 weight on the wire: (0 m e) = m * 2^e canonical (-0.0 is sent as zero), (1 0 0) +inf,
/// (2 0 0) NaN, (3 0 0) negative
fn f64_val(x: f64) -> Val {
    let t = |k: i64, m: i64, e: i64| Val::L(vec![Val::I(k), Val::I(m), Val::I(e)]);
    if x.is_nan() {
        t(2, 0, 0)
    } else if x == f64::INFINITY {
        t(1, 0, 0)
    } else if x < 0.0 {
        t(3, 0, 0)
    } else {
        let b = x.to_bits() & !(1u64 << 63);
        let (e, f) = ((b >> 52) as i64, (b & ((1u64 << 52) - 1)) as i64);
        if e == 0 {
            t(0, f, -1074)
        } else {
            t(0, f + (1i64 << 52), e - 1075)
        }
    }
}

/// inverse of `f64_val`; `None` unless canonical
fn val_f64(v: &Val) -> Option<f64> {
    let l = v.as_l()?;
    if l.len() != 3 {
        return None;
    }
    let (k, m, e) = (l[0].as_i()?, l[1].as_i()?, l[2].as_i()?);
    match k {
        1 if m == 0 && e == 0 => Some(f64::INFINITY),
        2 if m == 0 && e == 0 => Some(f64::NAN),
        3 if m == 0 && e == 0 => Some(-1.0),
        0 => {
            if (0..1i64 << 52).contains(&m) && e == -1074 {
                Some(f64::from_bits(m as u64))
            } else if (1i64 << 52..1i64 << 53).contains(&m) && (-1074..=971).contains(&e) {
                Some(f64::from_bits((((e + 1075) as u64) << 52) | (m as u64 - (1u64 << 52))))
            } else {
                None
            }
        }
        _ => None,
    }
}

#[derive(Clone, Debug)]
enum Call {
    U32,
    U64,
    F64,
    Range(u64),
    Shuffle(usize),
    WeightedN(Vec<u64>),
    WeightedF(Vec<f64>),
    SetPos(u64, u32),
    Partial(u64, usize, bool),
    UniformF(f64),
}

const MAX_SHUFFLE: usize = 1000;
const MAX_PARTIAL_SHOWN: u64 = 1 << 21;

fn call_val(c: &Call) -> Val {
    match c {
        Call::U32 => Val::L(vec![Val::I(0)]),
        Call::U64 => Val::L(vec![Val::I(1)]),
        Call::F64 => Val::L(vec![Val::I(2)]),
        Call::Range(n) => Val::L(vec![Val::I(3), hl(*n)]),
        Call::Shuffle(m) => Val::L(vec![Val::I(4), Val::u(*m)]),
        Call::WeightedN(ws) => Val::L(vec![Val::I(5), Val::L(ws.iter().map(|w| hl(*w)).collect())]),
        Call::WeightedF(ws) => Val::L(vec![Val::I(6), Val::L(ws.iter().map(|w| f64_val(*w)).collect())]),
        Call::SetPos(b, off) => Val::L(vec![Val::I(7), hl(*b), Val::I(*off as i64)]),
        Call::Partial(len, amount, show) => Val::L(vec![Val::I(8), hl(*len), Val::u(*amount), Val::b(*show)]),
        Call::UniformF(h) => Val::L(vec![Val::I(9), f64_val(*h)]),
    }
}

fn val_call(v: &Val) -> Option<Call> {
    let l = v.as_l()?;
    let arity = |n: usize| if l.len() == n { Some(()) } else { None };
    Some(match l.first()?.as_i()? {
        0 => {
            arity(1)?;
            Call::U32
        }
        1 => {
            arity(1)?;
            Call::U64
        }
        2 => {
            arity(1)?;
            Call::F64
        }
        3 => {
            arity(2)?;
            Call::Range(un_hl(&l[1])?)
        }
        4 => {
            arity(2)?;
            let m = l[1].as_usize()?;
            if m > MAX_SHUFFLE {
                return None;
            }
            Call::Shuffle(m)
        }
        5 => {
            arity(2)?;
            let ws = l[1].as_l()?;
            if ws.len() > 16 {
                return None;
            }
            Call::WeightedN(ws.iter().map(un_hl).collect::<Option<Vec<u64>>>()?)
        }
        6 => {
            arity(2)?;
            let ws = l[1].as_l()?;
            if ws.len() > 16 {
                return None;
            }
            Call::WeightedF(ws.iter().map(val_f64).collect::<Option<Vec<f64>>>()?)
        }
        7 => {
            arity(3)?;
            let off = l[2].as_i()?;
            if !(0..16).contains(&off) {
                return None;
            }
            Call::SetPos(un_hl(&l[1])?, off as u32)
        }
        8 => {
            arity(4)?;
            let (len, amount, show) = (un_hl(&l[1])?, l[2].as_usize()?, l[3].as_bool()?);
            if amount > 64 || (show && len > MAX_PARTIAL_SHOWN) || len > (1u64 << 40) {
                return None;
            }
            Call::Partial(len, amount, show)
        }
        9 => {
            arity(2)?;
            let h = val_f64(&l[1])?;
            if h.is_nan() {
                return None; // the order of the constructor's tests depends on debug assertions for NaN
            }
            Call::UniformF(h)
        }
        _ => return None,
    })
}

fn werr_code(e: rand::distr::weighted::Error) -> i64 {
    use rand::distr::weighted::Error as E;
    match e {
        E::InvalidInput => 1,
        E::InvalidWeight => 2,
        E::InsufficientNonZero => 3,
        E::Overflow => 4,
        _ => 9,
    }
}

fn werr(code: i64) -> Val {
    Val::L(vec![Val::I(-1), Val::I(code)])
}

/// the indices `partial_shuffle` drew, recovered from the slice it left behind: going backwards,
/// before the swap of step i position i still held its initial value i
fn partial_indices(v: &mut [u32], m: usize) -> Vec<usize> {
    let len = v.len();
    let mut pos = vec![0u32; len];
    for (p, x) in v.iter().enumerate() {
        pos[*x as usize] = p as u32;
    }
    let mut idx = vec![0usize; len - m];
    for i in (m..len).rev() {
        let j = pos[i] as usize;
        idx[i - m] = j;
        let (a, b) = (v[i], v[j]);
        v.swap(i, j);
        pos[a as usize] = j as u32;
        pos[b as usize] = i as u32;
    }
    idx
}

/// drive the REAL generator through the script; tags say what the draws exercised
fn rng_script(seed: u64, script: &[Call], tags: &mut Vec<String>) -> Val {
    use std::panic::{catch_unwind, AssertUnwindSafe};
    let mut r = ChaCha8Rng::seed_from_u64(seed);
    let mut outs = vec![];
    let mut tag = |t: &str| {
        if !tags.iter().any(|x| x == t) {
            tags.push(t.to_string());
        }
    };
    for c in script {
        let before = r.get_word_pos();
        let straddles = |words: u128| before % 64 + words > 64 && before % 64 != 0;
        let o = match c {
            Call::U32 => Val::I(r.next_u32() as i64),
            Call::U64 => {
                if straddles(2) {
                    tag("straddle");
                }
                hl(r.next_u64())
            }
            Call::F64 => {
                let x: f64 = r.random();
                let k = x * 9007199254740992.0;
                if !(0.0..9007199254740992.0).contains(&k) || k.fract() != 0.0 {
                    return Val::L(vec![Val::I(-6)]);
                }
                Val::I(k as i64)
            }
            Call::Range(n) => {
                let n = *n as usize;
                match catch_unwind(AssertUnwindSafe(|| r.random_range(0..n))) {
                    Ok(x) => {
                        let width: u128 = if n > u32::MAX as usize { 2 } else { 1 };
                        if width == 2 {
                            tag("range64");
                        }
                        if r.get_word_pos().wrapping_sub(before) > width {
                            tag("redraw");
                        }
                        hl(x as u64)
                    }
                    Err(_) => Val::panic(),
                }
            }
            Call::Shuffle(m) => {
                let mut v: Vec<usize> = (0..*m).collect();
                v.shuffle(&mut r);
                if r.get_word_pos().wrapping_sub(before) > 1 {
                    tag("chunks");
                }
                Val::list(v, Val::u)
            }
            Call::WeightedN(ws) => {
                let ws: Vec<usize> = ws.iter().map(|w| *w as usize).collect();
                let total: u128 = ws.iter().map(|w| *w as u128).sum();
                match catch_unwind(AssertUnwindSafe(|| WeightedIndex::new(ws))) {
                    Err(_) => werr(5),
                    Ok(Err(e)) => werr(werr_code(e)),
                    Ok(Ok(d)) => {
                        let i = r.sample(d);
                        let width: u128 = if total > (1u128 << 32) { 2 } else { 1 };
                        if width == 2 {
                            tag("weighted64");
                        }
                        if r.get_word_pos().wrapping_sub(before) > width {
                            tag("reject");
                        }
                        Val::L(vec![Val::u(i)])
                    }
                }
            }
            Call::WeightedF(ws) => match catch_unwind(AssertUnwindSafe(|| WeightedIndex::new(ws.clone()))) {
                Err(_) => werr(5),
                Ok(Err(e)) => werr(werr_code(e)),
                Ok(Ok(d)) => {
                    let i = d.sample(&mut r);
                    Val::L(vec![Val::u(i), f64_val(d.total_weight())])
                }
            },
            Call::UniformF(h) => match rand::distr::Uniform::<f64>::new(0.0, *h) {
                Ok(u) => f64_val(u.sample(&mut r)),
                Err(rand::distr::uniform::Error::EmptyRange) => werr(1),
                Err(rand::distr::uniform::Error::NonFinite) => werr(2),
            },
            Call::SetPos(b, off) => {
                r.set_word_pos((*b as u128) * 16 + *off as u128);
                Val::L(vec![])
            }
            Call::Partial(len, amount, show) => {
                let len = *len as usize;
                if *show {
                    let mut v: Vec<u32> = (0..len as u32).collect();
                    v.partial_shuffle(&mut r, *amount);
                    let m = len.saturating_sub(*amount);
                    Val::list(partial_indices(&mut v, m), Val::u)
                } else {
                    // a slice of zero-sized elements: only the draws happen
                    let mut v = vec![(); len];
                    v.partial_shuffle(&mut r, *amount);
                    if len >= u32::MAX as usize {
                        tag("shuffle-slow-path");
                    }
                    Val::L(vec![])
                }
            }
        };
        outs.push(o);
    }
    let wp = r.get_word_pos();
    let block = (wp / 16) as u64;
    Val::L(vec![
        Val::L(outs),
        Val::L(vec![Val::I((block >> 32) as i64), Val::I((block & 0xffff_ffff) as i64), Val::I((wp % 16) as i64)]),
    ])
}

/// n dense around the powers of two, around 2^32 (where the sampled width switches) and where
/// the second draw of the range sampler is likely (n close to 2^32 resp. 2^64)
fn gen_bound(rng: &mut Rng) -> u64 {
    let around = |rng: &mut Rng, c: u64| -> u64 {
        let d = rng.below(7) as u64;
        if rng.chance(1, 2) { c.wrapping_add(d) } else { c.wrapping_sub(d) }
    };
    match rng.below(100) {
        0..=1 => 0,
        2..=19 => rng.range(1, 20) as u64,
        20..=39 => {
            let k = rng.below(64) as u32;
            around(rng, 1u64 << k).max(1)
        }
        40..=54 => around(rng, 1u64 << 32),
        55..=64 => (1u64 << 31) + (rng.next_u64() >> 33),      // u32, second draw in half the cases
        65..=72 => (1u64 << 63) + (rng.next_u64() >> 1),       // u64, second draw in most cases
        73..=78 => u64::MAX - rng.below(4) as u64,
        79..=84 => (1u64 << 32) - 1 - rng.below(4) as u64,
        85..=89 => rng.next_u64() >> rng.below(64),
        // exact powers of two: the low half of the widening product hits the comparison's boundary
        90..=95 => 1u64 << rng.range(1, 63),
        _ => rng.range(21, 5000) as u64,
    }
}

fn gen_weights_n(rng: &mut Rng) -> Vec<u64> {
    let n = match rng.below(20) {
        0 => 0,
        1..=3 => 1,
        _ => rng.range(2, 6),
    };
    let mut ws: Vec<u64> = (0..n)
        .map(|_| match rng.below(10) {
            0..=2 => 0,
            3..=7 => rng.range(1, 6) as u64,
            _ => rng.range(7, 1000) as u64,
        })
        .collect();
    if n == 0 {
        return ws;
    }
    // push the total near a boundary of the uniform sampler
    let k = rng.below(n);
    match rng.below(14) {
        0 => ws[k] = (1u64 << 31) + (rng.next_u64() >> 34),
        1 => ws[k] = (1u64 << 32) - rng.below(6) as u64,
        2 => {
            // total exactly 2^32 (range 0: every u32 is taken)
            let rest: u64 = ws.iter().enumerate().filter(|(i, _)| *i != k).map(|(_, w)| *w).sum();
            ws[k] = (1u64 << 32) - rest;
        }
        3 => ws[k] = (1u64 << 32) + rng.below(6) as u64,
        4 => ws[k] = (1u64 << 63) + (rng.next_u64() >> 2),
        5 => {
            // overflow of the sum
            ws[k] = u64::MAX - rng.below(3) as u64;
        }
        6 => ws[k] = (rng.next_u64() >> rng.below(64)).max(1),
        7 => ws.iter_mut().for_each(|w| *w = 0),
        8 | 9 => {
            // total an exact power of two: threshold 0, and the low half of the product is 0 for
            // every draw whose low bits are 0 (the boundary `lo >= thresh` of the rejection rule)
            let t = 1u64 << (if rng.chance(1, 2) { rng.range(28, 31) } else { rng.range(1, 63) });
            let rest: u64 = ws.iter().enumerate().filter(|(i, _)| *i != k).map(|(_, w)| *w).sum();
            if rest < t {
                ws[k] = t - rest;
            }
        }
        _ => {}
    }
    ws
}

fn gen_weights_f(rng: &mut Rng) -> Vec<f64> {
    let n = match rng.below(20) {
        0 => 0,
        1..=3 => 1,
        _ => rng.range(2, 6),
    };
    let style = rng.below(10);
    if style == 6 {
        // a handful of the smallest subnormals: the sample takes few values and meets the cumulative weights exactly
        return (0..n).map(|_| f64::from_bits(rng.below(4) as u64)).collect();
    }
    if style == 7 {
        // small integers: short mantissas, the product with the 52-bit draw is a rounding tie every other time
        return (0..n).map(|_| *rng.pick(&[0.0, 1.0, 3.0, 5.0, 7.0, 9.0, 1.5, 2.5])).collect();
    }
    (0..n)
        .map(|_| match rng.below(24) {
            0..=4 => 0.0,
            5 => -0.0,
            6..=9 => *rng.pick(&[1.0, 0.5, 0.25, 3.0, 2.0, 0.1, 0.3, 1e-3, 7.0]),
            10..=15 => {
                // random mantissa, moderate exponent
                let e = 1023 + rng.range(0, 20) as u64 - 10;
                f64::from_bits((e << 52) | (rng.next_u64() >> 12))
            }
            16 if style == 0 => f64::from_bits(rng.next_u64() >> 12 >> rng.below(52)), // subnormal
            17 if style == 1 => f64::MAX / (1.0 + rng.below(3) as f64),                   // the sum overflows
            18 if style == 2 => f64::INFINITY,
            19 if style == 3 => f64::NAN,
            20 if style == 4 => -1.5,
            21 if style == 5 => f64::from_bits(rng.next_u64() >> 1),                      // anything non-negative
            _ => rng.range(1, 9) as f64 / 8.0,
        })
        .collect()
}

fn gen_call(rng: &mut Rng) -> Call {
    match rng.below(100) {
        0..=9 => Call::U32,
        10..=19 => Call::U64,
        20..=29 => Call::F64,
        30..=51 => Call::Range(gen_bound(rng)),
        52..=65 => Call::Shuffle(match rng.below(24) {
            0..=1 => rng.below(3),
            2..=11 => rng.range(2, 16),
            12..=17 => rng.range(10, 40),
            18..=22 => rng.range(40, 200),
            _ => rng.range(200, MAX_SHUFFLE),
        }),
        66..=79 => Call::WeightedN(gen_weights_n(rng)),
        80..=86 => Call::WeightedF(gen_weights_f(rng)),
        87..=89 => Call::UniformF(match rng.below(12) {
            0 => 0.0,
            1 => -2.0,
            2 => f64::INFINITY,
            3 => f64::MAX,
            4 => f64::from_bits(rng.below(6) as u64),                                   // tiniest subnormals
            5 => f64::from_bits(rng.next_u64() >> 12 >> rng.below(52)),                 // subnormal
            6..=8 => *rng.pick(&[1.0, 3.0, 5.0, 7.0, 0.75, 1.25, 6.0, 10.0, 1e3]),      // short mantissas: ties
            9 => f64::from_bits(((1023 + rng.range(0, 40) as u64 - 20) << 52) | (rng.next_u64() >> 12)),
            _ => {
                let x = f64::from_bits(rng.next_u64() >> 1);
                if x.is_nan() { 1.0 } else { x }
            }
        }),
        90..=93 => {
            // jump: around 2^32 blocks (the counter's low word carries), around 2^64 (it wraps), anywhere
            let b = match rng.below(4) {
                0 => (1u64 << 32).wrapping_sub(rng.range(1, 9) as u64),
                1 => 0u64.wrapping_sub(rng.range(1, 9) as u64),
                2 => rng.next_u64(),
                _ => rng.below(1000) as u64,
            };
            Call::SetPos(b, rng.below(16) as u32)
        }
        _ => {
            if rng.chance(3, 4) {
                // indices reported: product sizes of IncreasingUniform change with n
                let len = match rng.below(5) {
                    0 => rng.range(0, 30) as u64,
                    1 => rng.range(30, 2000) as u64,
                    2 => rng.range(1500, 1800) as u64,       // n (n+1) (n+2) around 2^32
                    3 => rng.range(65_400, 65_700) as u64,   // n (n+1) around 2^32
                    _ => rng.range(2000, MAX_PARTIAL_SHOWN as usize) as u64,
                };
                Call::Partial(len, rng.range(0, 12), true)
            } else {
                let len = match rng.below(3) {
                    0 => (u32::MAX as u64).wrapping_sub(rng.below(4) as u64).wrapping_add(rng.below(4) as u64),
                    1 => (1u64 << 32) + rng.below(1000) as u64,
                    _ => (1u64 << 33) + (rng.next_u64() >> 30),
                };
                Call::Partial(len, rng.range(0, 6), false)
            }
        }
    }
}

fn gen_rng_case(rng: &mut Rng) -> Val {
    let seed = match rng.below(12) {
        0 => 0,
        1 => 1,
        2 => 22,
        3 => 1u64 << 63,
        4 => u64::MAX,
        5 => rng.below(1000) as u64,
        _ => rng.next_u64(),
    };
    let n = if rng.chance(1, 10) { rng.range(1, 3) } else { rng.range(1, 40) };
    let mut script: Vec<Call> = vec![];
    // sometimes start just before the end of the 64-word buffer so that u64 draws straddle it
    if rng.chance(1, 4) {
        let k = if rng.chance(1, 3) { 63 } else { rng.range(57, 63) };
        for _ in 0..k {
            script.push(Call::U32);
        }
    }
    // a run of one kind now and then (rejections and re-draws are rare events per call)
    let mono = if rng.chance(1, 5) { Some(gen_call(rng)) } else { None };
    for _ in 0..n {
        script.push(match &mono {
            Some(c) if rng.chance(3, 4) => match c {
                Call::Range(_) => Call::Range(gen_bound(rng)),
                Call::WeightedN(ws) if rng.chance(1, 2) => Call::WeightedN(ws.clone()),
                other => other.clone(),
            },
            _ => gen_call(rng),
        });
    }
    script.truncate(100);
    rng_case(seed, &script)
}

fn rng_case(seed: u64, script: &[Call]) -> Val {
    Val::L(vec![Val::I(3), hl(seed), Val::L(script.iter().map(call_val).collect()), Val::L(vec![])])
}

fn run_rng_case(input: &Val) -> Option<(Val, Vec<String>)> {
    let l = input.as_l()?;
    if l.len() != 4 || !l[3].as_l()?.is_empty() {
        return None;
    }
    let seed = un_hl(&l[1])?;
    let script: Vec<Call> = l[2].as_l()?.iter().map(val_call).collect::<Option<Vec<Call>>>()?;
    if script.len() > 200 {
        return None;
    }
    let mut tags = vec!["rng".to_string()];
    let out = rng_script(seed, &script, &mut tags);
    let samplers = script
        .iter()
        .filter(|c| matches!(c, Call::Range(_) | Call::Shuffle(_) | Call::WeightedN(_) | Call::WeightedF(_) | Call::Partial(..) | Call::UniformF(_)))
        .count();
    if script.len() >= 3 && samplers >= 1 {
        tags.push("nt".into());
    }
    Some((out, tags))
}

/// repair a (shrunk / hand-written) rng case: drop calls that cannot be read, clamp fields
fn canon_rng_case(input: &Val) -> Option<Val> {
    let l = input.as_l()?;
    if l.len() != 4 {
        return None;
    }
    let fix_hl = |v: &Val| -> Val {
        let h = v.nth(0).and_then(|x| x.as_i()).unwrap_or(0).rem_euclid(1 << 32);
        let lo = v.nth(1).and_then(|x| x.as_i()).unwrap_or(0).rem_euclid(1 << 32);
        Val::L(vec![Val::I(h), Val::I(lo)])
    };
    let seed = fix_hl(&l[1]);
    let mut script = vec![];
    for c in l[2].as_l()? {
        let Some(cl) = c.as_l() else { continue };
        let kind = cl.first().and_then(|x| x.as_i()).unwrap_or(0).rem_euclid(10);
        let arg = |k: usize| cl.get(k).cloned().unwrap_or(Val::L(vec![]));
        let num = |k: usize, m: i64| Val::I(cl.get(k).and_then(|x| x.as_i()).unwrap_or(0).rem_euclid(m));
        let fixed = match kind {
            0..=2 => Val::L(vec![Val::I(kind)]),
            3 => Val::L(vec![Val::I(3), fix_hl(&arg(1))]),
            4 => Val::L(vec![Val::I(4), num(1, MAX_SHUFFLE as i64 + 1)]),
            5 => Val::L(vec![
                Val::I(5),
                Val::L(arg(1).as_l().unwrap_or(&[]).iter().take(16).map(fix_hl).collect()),
            ]),
            6 => Val::L(vec![
                Val::I(6),
                Val::L(
                    arg(1)
                        .as_l()
                        .unwrap_or(&[])
                        .iter()
                        .take(16)
                        .map(|w| val_f64(w).map(f64_val).unwrap_or_else(|| f64_val(0.0)))
                        .collect(),
                ),
            ]),
            7 => Val::L(vec![Val::I(7), fix_hl(&arg(1)), num(2, 16)]),
            9 => Val::L(vec![
                Val::I(9),
                val_f64(&arg(1)).filter(|x| !x.is_nan()).map(f64_val).unwrap_or_else(|| f64_val(1.0)),
            ]),
            _ => {
                let show = cl.get(3).and_then(|x| x.as_bool()).unwrap_or(true);
                let len = un_hl(&fix_hl(&arg(1))).unwrap_or(0);
                let len = if show { len.min(MAX_PARTIAL_SHOWN) } else { len.min(1 << 40) };
                Val::L(vec![Val::I(8), hl(len), num(2, 65), Val::b(show)])
            }
        };
        script.push(fixed);
    }
    Some(Val::L(vec![Val::I(3), seed, Val::L(script), Val::L(vec![])]))
}

// ---------------------------------------------------------------- files, lines, JSON (Lines_Model.v, JSON_Model.v, C07_Files.v)

/// serde_json's Value as the model renders it (C07_Files.tree_v)
fn tree(v: &serde_json::Value) -> Val {
    use serde_json::Value as V;
    let hl2 = |k: i64, x: u64| Val::L(vec![Val::I(2), Val::I(k), Val::I((x >> 32) as i64), Val::I((x & 0xffff_ffff) as i64)]);
    match v {
        V::Null => Val::L(vec![Val::I(0)]),
        V::Bool(b) => Val::L(vec![Val::I(1), Val::b(*b)]),
        V::Number(n) => {
            if let Some(u) = n.as_u64() {
                hl2(0, u)
            } else if let Some(i) = n.as_i64() {
                hl2(1, i.unsigned_abs())
            } else {
                Val::L(vec![Val::I(2), Val::I(2)])
            }
        }
        V::String(s) => Val::L(vec![Val::I(3), Val::str(s)]),
        V::Array(a) => Val::L(vec![Val::I(4), Val::L(a.iter().map(tree).collect())]),
        V::Object(m) => Val::L(vec![
            Val::I(5),
            Val::L(m.iter().map(|(k, x)| Val::L(vec![Val::str(k), tree(x)])).collect()),
        ]),
    }
}

/// payload strings: escapes of every kind are needed, non-ASCII of every UTF-8 length, the key names
const STR_UNITS: &[&str] = &[
    "a", "b", "x", "0", " ", "é", "€", "😀", "\u{2028}", "\"", "\\", "/", "\n", "\r", "\t", "\u{8}", "\u{c}", "\u{0}",
    "\u{1f}", "\u{7f}", "\u{80}", "\u{7ff}", "\u{800}", "\u{d7ff}", "\u{e000}", "\u{fffd}", "\u{ffff}", "\u{10000}",
    "\u{10ffff}", "input", "target", "{", "}", ",", ":",
];

fn gen_payload(rng: &mut Rng) -> String {
    let n = match rng.below(10) {
        0 => 0,
        1..=6 => rng.range(1, 4),
        _ => rng.range(5, 9),
    };
    (0..n).map(|_| *rng.pick(STR_UNITS)).collect()
}

/// json.dumps(s) of Python with ensure_ascii (JSON_Model.json_string_ascii)
fn py_string(s: &str) -> String {
    let mut o = String::from("\"");
    for c in s.chars() {
        match c {
            '"' => o.push_str("\\\""),
            '\\' => o.push_str("\\\\"),
            '\n' => o.push_str("\\n"),
            '\r' => o.push_str("\\r"),
            '\t' => o.push_str("\\t"),
            '\u{8}' => o.push_str("\\b"),
            '\u{c}' => o.push_str("\\f"),
            ' '..='~' => o.push(c),
            _ => {
                let mut b = [0u16; 2];
                for u in c.encode_utf16(&mut b) {
                    o.push_str(&format!("\\u{:04x}", u));
                }
            }
        }
    }
    o.push('"');
    o
}

/// a JSON string literal for `s` in which every character is written in a randomly chosen legal way
fn exotic_string(rng: &mut Rng, s: &str) -> String {
    let mut o = String::from("\"");
    for c in s.chars() {
        let must = c == '"' || c == '\\' || (c as u32) < 0x20;
        let style = if must { rng.range(1, 2) } else { rng.below(4) };
        let simple = match c {
            '"' => Some("\\\""),
            '\\' => Some("\\\\"),
            '/' => Some("\\/"),
            '\n' => Some("\\n"),
            '\r' => Some("\\r"),
            '\t' => Some("\\t"),
            '\u{8}' => Some("\\b"),
            '\u{c}' => Some("\\f"),
            _ => None,
        };
        match (style, simple) {
            (1, Some(e)) => o.push_str(e),
            (1, None) | (2, _) => {
                let mut b = [0u16; 2];
                for u in c.encode_utf16(&mut b) {
                    if rng.chance(1, 2) {
                        o.push_str(&format!("\\u{:04x}", u));
                    } else {
                        o.push_str(&format!("\\u{:04X}", u));
                    }
                }
            }
            _ => o.push(c),
        }
    }
    o.push('"');
    o
}

fn json_ws(rng: &mut Rng) -> &'static str {
    match rng.below(12) {
        0 => " ",
        1 => "  ",
        2 => "\t",
        3 => "\r",
        4 => " \t ",
        _ => "",
    }
}

fn render_string(rng: &mut Rng, style: usize, s: &str) -> String {
    match style {
        0 => serde_json::to_string(s).unwrap(),
        1 => py_string(s),
        _ => exotic_string(rng, s),
    }
}

fn render_any(rng: &mut Rng, s: &str) -> String {
    let style = rng.below(3);
    render_string(rng, style, s)
}

/// a well-formed item line in one of three writer styles
fn item_line(rng: &mut Rng, input: &str, target: Option<&str>) -> String {
    let style = rng.below(3);
    let (colon, comma) = match style {
        0 => (":".to_string(), ",".to_string()),
        1 => (": ".to_string(), ", ".to_string()),
        _ => (format!("{}:{}", json_ws(rng), json_ws(rng)), format!("{},{}", json_ws(rng), json_ws(rng))),
    };
    let mut members = vec![format!("\"input\"{}{}", colon, render_string(rng, style, input))];
    if let Some(t) = target {
        members.push(format!("\"target\"{}{}", colon, render_string(rng, style, t)));
    }
    if style == 2 && rng.chance(1, 3) {
        members.push(format!("\"id\"{}{}", colon, rng.below(100)));
    }
    if style == 2 && rng.chance(1, 2) {
        rng.shuffle(&mut members);
    }
    let (open, close) = if style == 2 { (format!("{}{{{}", json_ws(rng), json_ws(rng)), format!("{}}}{}", json_ws(rng), json_ws(rng))) } else { ("{".into(), "}".into()) };
    format!("{}{}{}", open, members.join(&comma), close)
}

/// the decimal digits of 2^1024 - 2^970 (the smallest real that rounds to infinity), for boundary mantissas
const INF_EDGE: &str = "1797693134862315807937289714053034150799341327100378269361737789804449682927647509466490179775872070963302864166928879109465555478519404026306574886715058206819";

fn number_zoo(rng: &mut Rng) -> String {
    const FIXED: &[&str] = &[
        "0", "-0", "1", "-1", "01", "00", "-", "-a", "+1", "1.", "1.0", ".5", "1e", "1e+", "1e-", "1e5", "1E5", "1e+5", "1e-5",
        "1.5e3", "0.0", "0e0", "0e999", "0e99999999999", "-0e-99999999999", "0.0e99999999999", "1e308", "1e309", "10e307",
        "10e308", "0.1e309", "0.1e310", "1e-400", "1e-99999999999", "1e99999999999", "1e2147483647", "1e2147483648",
        "0e2147483648", "1e-2147483648", "1e-2147483649", "18446744073709551615", "18446744073709551616",
        "-9223372036854775808", "-9223372036854775809", "9223372036854775807", "9223372036854775808",
        "-18446744073709551615", "-18446744073709551616", "1.7976931348623157e308", "1.7976931348623158e308",
        "1.7976931348623159e308", "17976931348623157e292", "17976931348623158e292", "17976931348623159e292",
        "1844674407370955161.5", "1844674407370955161.6", "18446744073709551615.5", "184467440737095516150",
        "0.18446744073709551615123", "0.18446744073709551616", "123456789012345678901234567890e280",
        "123456789012345678901234567890e279", "4.9e-324", "2.2250738585072014e-308", "1e23", "8.5e307", "1e1e1", "1.2.3",
        "1ee5", "1e5.5", "0x10", "1_000", "1e+-5", "--1", "-01", "-0.0e-0", "9007199254740993", "0.000000000000000000000001e332",
        "100000000000000000000000000000000000000000000000000000000000000000000000000000000000000000000000000000000000000000000000000000000000000000000000000000000000000000000000000000000000000000000000000000000000000000000000000000000000000000000000000000000000000000000000000000000000000000000000000000000000000000000",
        "1000000000000000000000000000000000000000000000000000000000000000000000000000000000000000000000000000000000000000000000000000000000000000000000000000000000000000000000000000000000000000000000000000000000000000000000000000000000000000000000000000000000000000000000000000000000000000000000000000000000000000000000",
    ];
    match rng.below(10) {
        0..=3 => (*rng.pick(FIXED)).to_string(),
        4..=6 => {
            // a k-digit mantissa at the edge of the binary64 range: the leading digits of 2^1024 - 2^970, last digit moved
            let k = rng.range(1, 40);
            let mut m: Vec<u8> = INF_EDGE.as_bytes()[..k].to_vec();
            let d = rng.below(5) as i64 - 2;
            let last = (m[k - 1] - b'0') as i64 + d;
            if (0..=9).contains(&last) {
                m[k - 1] = b'0' + last as u8;
            }
            let exp = 309 - k as i64 + rng.below(3) as i64 - 1;
            let m = String::from_utf8(m).unwrap();
            match rng.below(3) {
                0 => format!("{m}e{exp}"),
                1 if k > 1 => format!("{}.{}e{}", &m[..1], &m[1..], exp + k as i64 - 1),
                _ => format!("{m}E+{exp}"),
            }
        }
        _ => {
            // random lexeme: digits around the u64 limit, fraction, exponent
            let digits = |rng: &mut Rng, n: usize| -> String { (0..n).map(|_| (b'0' + rng.below(10) as u8) as char).collect() };
            let nd = *rng.pick(&[1, 2, 5, 18, 19, 20, 21, 25]);
            let mut s = digits(rng, nd);
            if s.len() > 1 && s.starts_with('0') && !rng.chance(1, 8) {
                s.replace_range(0..1, "1");
            }
            if rng.chance(1, 3) {
                s.insert(0, '-');
            }
            if rng.chance(1, 2) {
                s.push('.');
                let nf = *rng.pick(&[0, 1, 3, 19, 22]);
                s.push_str(&digits(rng, nf));
            }
            if rng.chance(1, 2) {
                s.push(if rng.chance(1, 2) { 'e' } else { 'E' });
                s.push_str(*rng.pick(&["", "+", "-"]));
                let e = match rng.below(4) {
                    0 => rng.below(30) as i64,
                    1 => 280 + rng.below(40) as i64,
                    2 => 300 - nd as i64 + rng.below(12) as i64,
                    _ => rng.below(5000) as i64,
                };
                s.push_str(&e.to_string());
            }
            s
        }
    }
}

/// a random JSON value as text (not necessarily an item), depth <= 3
fn json_value_text(rng: &mut Rng, depth: usize) -> String {
    let w = |rng: &mut Rng| json_ws(rng).to_string();
    let k = if depth == 0 { rng.below(5) } else { rng.below(8) };
    match k {
        0 => (*rng.pick(&["null", "true", "false", "nul", "truee", "False", "NaN", "None", "Infinity"])).to_string(),
        1 | 2 => {
            let p = gen_payload(rng);
            render_any(rng, &p)
        }
        3 => number_zoo(rng),
        4 => (*rng.pick(&["[]", "{}", "[ ]", "{ }", "[,]", "{,}", "[1,]", "{\"a\":1,}", "[1 2]", "{\"a\" 1}", "{a:1}", "{1:1}", "{\"a\":}", "[", "{", "]", "}"])).to_string(),
        5 | 6 => {
            let n = rng.below(4);
            let elems: Vec<String> = (0..n).map(|_| format!("{}{}{}", w(rng), json_value_text(rng, depth - 1), w(rng))).collect();
            format!("[{}]", elems.join(","))
        }
        _ => {
            let n = rng.below(4);
            let keys = ["a", "b", "input", "target", "a", "", "é", "a\u{0}"];
            let elems: Vec<String> = (0..n)
                .map(|_| {
                    let key = *rng.pick(&keys);
                    format!("{}{}{}:{}{}", w(rng), render_any(rng, key), w(rng), w(rng), json_value_text(rng, depth - 1))
                })
                .collect();
            format!("{{{}}}", elems.join(","))
        }
    }
}

fn nest(rng: &mut Rng) -> String {
    let n = *rng.pick(&[1, 2, 125, 126, 127, 128, 129, 130, 200]);
    match rng.below(3) {
        0 => format!("{}{}", "[".repeat(n), "]".repeat(n)),
        1 => format!("{}1{}", "{\"a\":".repeat(n), "}".repeat(n)),
        _ => {
            let mut open = String::new();
            let mut close = String::new();
            for i in 0..n {
                if (i + n) % 2 == 0 {
                    open.push('[');
                    close.insert(0, ']');
                } else {
                    open.push_str("{\"k\":");
                    close.insert(0, '}');
                }
            }
            format!("{open}\"x\"{close}")
        }
    }
}

fn mutate_bytes(rng: &mut Rng, b: &mut Vec<u8>) {
    const POOL: &[u8] = b"\"\\{}[]:,01e.-+ \tnutrfalse\x00\x1f\x7f\x80\xbf\xc3\xa9\xe2\x82\xf0\x9f\xed\xa0\xff\xef\xbb";
    for _ in 0..rng.range(1, 3) {
        let pos = if b.is_empty() { 0 } else { rng.below(b.len() + 1) };
        match rng.below(3) {
            0 => b.insert(pos, *rng.pick(POOL)),
            1 if pos < b.len() => {
                b.remove(pos);
            }
            _ if pos < b.len() => b[pos] = *rng.pick(POOL),
            _ => b.push(*rng.pick(POOL)),
        }
    }
}

/// one line of a jsonl file, without terminator; never contains '\n' (mutations may insert '\r')
fn gen_line(rng: &mut Rng) -> Vec<u8> {
    let mut b: Vec<u8> = match rng.below(100) {
        0..=49 => {
            let i = gen_payload(rng);
            let t = if rng.chance(1, 2) { Some(gen_payload(rng)) } else { None };
            item_line(rng, &i, t.as_deref()).into_bytes()
        }
        50..=61 => {
            // keys missing, of the wrong type, duplicated
            let v = |rng: &mut Rng| -> String {
                match rng.below(8) {
                    0..=3 => {
                        let p = gen_payload(rng);
                        render_any(rng, &p)
                    }
                    4 => number_zoo(rng),
                    5 => (*rng.pick(&["null", "true", "false"])).to_string(),
                    6 => "[\"a\"]".to_string(),
                    _ => "{\"input\":\"inner\"}".to_string(),
                }
            };
            let n = rng.range(0, 4);
            let members: Vec<String> = (0..n)
                .map(|_| {
                    let key = *rng.pick(&["\"input\"", "\"input\"", "\"target\"", "\"target\"", "\"Input\"", "\"inpu\\u0074\"", "\"\\u0069nput\"", "\"input \"", "\"id\""]);
                    format!("{}:{}", key, v(rng))
                })
                .collect();
            format!("{{{}}}", members.join(",")).into_bytes()
        }
        62..=71 => json_value_text(rng, 3).into_bytes(),
        72..=81 => {
            let i = gen_payload(rng);
            let mut b = item_line(rng, &i, None).into_bytes();
            mutate_bytes(rng, &mut b);
            b
        }
        82..=86 => {
            let n = number_zoo(rng);
            match rng.below(3) {
                0 => format!("{{\"input\":\"x\",\"n\":{n}}}").into_bytes(),
                1 => format!("{{\"input\":{n}}}").into_bytes(),
                _ => n.into_bytes(),
            }
        }
        87..=90 => {
            let t = nest(rng);
            if rng.chance(1, 2) { format!("{{\"input\":\"x\",\"z\":{t}}}").into_bytes() } else { t.into_bytes() }
        }
        91..=94 => (*rng.pick(&[
            &b""[..], b" ", b"\t", b"\r", b"\xef\xbb\xbf{\"input\":\"a\"}", b"\xef\xbb\xbf", b"{\"input\":\"a\"} x", b"{\"input\":\"a\"}{\"input\":\"b\"}",
            b"{\"input\":\"a\"},", b"// c", b"{\"input\":\"a\"} \t\r", b"\x00", b"{\"input\":\"a\x00\"}", b"{\"input\":\"a\tb\"}", b"{\"input\":\"\\ud800\"}",
            b"{\"input\":\"\\udc00\"}", b"{\"input\":\"\\ud800\\u0041\"}", b"{\"input\":\"\\ud800\\ud800\"}", b"{\"input\":\"\\ud83d\\ude00\"}",
            b"{\"input\":\"\\uD83D\\uDE00\"}", b"{\"input\":\"\\ud83d\"}", b"{\"input\":\"\\ud83dx\"}", b"{\"input\":\"\\ud83d\\n\"}", b"{\"input\":\"\\u00g0\"}",
            b"{\"input\":\"\\u00\"}", b"{\"input\":\"\\u\"}", b"{\"input\":\"\\", b"{\"input\":\"\\x41\"}", b"{\"input\":\"\\a\"}", b"{\"input\":\"\\u0000\"}",
            b"{\"input\":\"\\/\"}", b"{\"input\":\"a", b"{\"input\":", b"{\"input\"", b"{\"input\":\"\xc3\xa9\"}", b"{\"input\":\"\\u00\xc3\xa9\"}",
        ]))
        .to_vec(),
        _ => {
            // invalid UTF-8 inside and outside the strings
            let bad: &[u8] = *rng.pick(&[&b"\xff"[..], b"\xc3", b"\xe2\x82", b"\xf0\x9f\x98", b"\xed\xa0\x80", b"\xc0\xaf", b"\xf4\x90\x80\x80", b"\x80", b"\xe0\x80\x80"]);
            let mut b = b"{\"input\":\"a".to_vec();
            match rng.below(3) {
                0 => {
                    b.extend_from_slice(bad);
                    b.extend_from_slice(b"b\"}");
                }
                1 => {
                    b.extend_from_slice(b"\"}");
                    b.extend_from_slice(bad);
                }
                _ => {
                    b.extend_from_slice(bad);
                    b.extend_from_slice(b"\",\"target\":\"");
                    b.extend_from_slice(bad);
                    b.extend_from_slice(b"\"}");
                }
            }
            b
        }
    };
    b.retain(|c| *c != b'\n');
    b
}

fn gen_file(rng: &mut Rng, max_lines: usize, min_lines: usize) -> Vec<u8> {
    let n = rng.range(min_lines, max_lines.max(min_lines));
    let mut f = vec![];
    let crlf_file = rng.chance(1, 6);
    for k in 0..n {
        f.extend_from_slice(&gen_line(rng));
        let last = k + 1 == n;
        if last && rng.chance(1, 5) {
            break; // no final newline
        }
        if crlf_file || rng.chance(1, 10) {
            f.push(b'\r');
        }
        f.push(b'\n');
    }
    f
}

fn gen_file_case(rng: &mut Rng) -> Val {
    let strat = rng.below(3) as i64;
    let seed = match rng.below(6) {
        0 => 0,
        1 => rng.below(4) as u64,
        _ => rng.next_u64() >> 3,
    };
    let nfiles = match rng.below(10) {
        0..=3 => 1,
        4..=7 => 2,
        _ => rng.range(3, 4),
    };
    let min_lines = if strat == 2 && !rng.chance(1, 10) { 1 } else { 0 };
    let files: Vec<Vec<u8>> = (0..nfiles)
        .map(|_| {
            let f = gen_file(rng, if nfiles == 1 { 6 } else { 4 }, min_lines);
            // a weighted case with an accidentally empty file would only test the constructor error
            if min_lines == 1 && f.is_empty() { b"\n".to_vec() } else { f }
        })
        .collect();
    file_case(strat, seed, &files, rng)
}

fn file_case(strat: i64, seed: u64, files: &[Vec<u8>], rng: &mut Rng) -> Val {
    let lines: usize = files.iter().map(|f| f.iter().filter(|c| **c == b'\n').count() + 1).sum();
    let orc: Vec<Val> = (0..lines + files.len() + 2).map(|_| Val::u(rng.below(6))).collect();
    Val::L(vec![Val::I(4 + strat), Val::I(seed as i64), Val::L(files.iter().map(|f| Val::bytes(f)).collect()), Val::L(orc)])
}

fn gen_json_case(rng: &mut Rng) -> Val {
    let mut text = match rng.below(10) {
        0..=4 => json_value_text(rng, 3),
        5 => number_zoo(rng),
        6 => nest(rng),
        7 => {
            let i = gen_payload(rng);
            let t = gen_payload(rng);
            item_line(rng, &i, Some(&t))
        }
        _ => {
            let p = gen_payload(rng);
            format!("{}{}{}", json_ws(rng), render_any(rng, &p), json_ws(rng))
        }
    };
    if rng.chance(1, 6) {
        // character-level damage (the text stays a string: no invalid UTF-8 here)
        let mut cs: Vec<char> = text.chars().collect();
        const POOL: &[char] = &['"', '\\', '{', '}', '[', ']', ':', ',', '0', '1', 'e', '.', '-', '+', ' ', '\n', 'n', 'u', '\u{0}', '\u{1f}', 'é', '😀', '\u{feff}'];
        let pos = if cs.is_empty() { 0 } else { rng.below(cs.len() + 1) };
        match rng.below(3) {
            0 => cs.insert(pos, *rng.pick(POOL)),
            1 if pos < cs.len() => {
                cs.remove(pos);
            }
            _ if pos < cs.len() => cs[pos] = *rng.pick(POOL),
            _ => cs.push(*rng.pick(POOL)),
        }
        text = cs.into_iter().collect();
    }
    Val::L(vec![Val::I(7), Val::I(0), Val::str(&text), Val::L(vec![])])
}

fn gen_print_case(rng: &mut Rng) -> Val {
    let i = gen_payload(rng);
    let mut a = vec![Val::str(&i)];
    if rng.chance(1, 2) {
        a.push(Val::str(&gen_payload(rng)));
    }
    Val::L(vec![Val::I(8), Val::I(rng.below(2) as i64), Val::L(a), Val::L(vec![])])
}

/// bytes that make the lossy decoder work: leads of every length, continuation bytes, the special second bytes
const LINE_BYTES: &[u8] = &[
    b'a', b'a', b'\n', b'\n', b'\r', b'\r', 0, 0x7f, 0x80, 0x9f, 0xa0, 0xbf, 0xc0, 0xc1, 0xc2, 0xc3, 0xa9, 0xdf, 0xe0, 0xe1, 0xe2, 0x82, 0xac,
    0xec, 0xed, 0xee, 0xef, 0xf0, 0x8f, 0x90, 0x9f, 0x98, 0xf1, 0xf3, 0xf4, 0xf5, 0xff,
];

fn gen_lines_case(rng: &mut Rng) -> Val {
    let n = match rng.below(10) {
        0 => 0,
        1..=6 => rng.range(1, 12),
        _ => rng.range(13, 40),
    };
    let b: Vec<u8> = match rng.below(4) {
        // a valid text with the occasional broken byte
        0 => {
            let mut s: Vec<u8> = (0..n).flat_map(|_| rng.pick(&["a", "é", "€", "😀", "\n", "\r\n", "\r", "\u{fffd}"]).as_bytes().to_vec()).collect();
            if rng.chance(2, 3) {
                mutate_bytes(rng, &mut s);
            }
            s
        }
        _ => (0..n).map(|_| *rng.pick(LINE_BYTES)).collect(),
    };
    let cap = *rng.pick(&[1usize, 2, 3, 5, 8, 8192]);
    lines_case(cap, &b)
}

fn lines_case(cap: usize, b: &[u8]) -> Val {
    Val::L(vec![Val::I(9), Val::u(cap), Val::bytes(b), Val::L(vec![])])
}

fn val_bytes(v: &Val) -> Option<Vec<u8>> {
    v.as_l()?.iter().map(|x| x.as_i().and_then(|i| u8::try_from(i).ok())).collect()
}

fn run_json_case(input: &Val) -> Option<(Val, Vec<String>)> {
    let text = input.nth(2)?.to_string_lossy()?;
    if text.len() > 20_000 {
        return None;
    }
    let mut tags = vec!["json".to_string()];
    let out = match serde_json::from_str::<serde_json::Value>(&text) {
        Ok(v) => {
            tags.push("json-ok".into());
            if matches!(v, serde_json::Value::Array(_) | serde_json::Value::Object(_)) || text.contains('\\') {
                tags.push("nt".into());
            }
            Val::L(vec![Val::I(1), tree(&v)])
        }
        Err(e) => {
            tags.push("json-err".into());
            if e.to_string().starts_with("number out of range") {
                tags.push("out-of-range".into());
            }
            if e.to_string().starts_with("recursion limit") {
                tags.push("depth-limit".into());
            }
            if text.len() >= 3 {
                tags.push("nt".into());
            }
            Val::L(vec![Val::I(0)])
        }
    };
    Some((out, tags))
}

fn run_print_case(input: &Val) -> Option<(Val, Vec<String>)> {
    let a = input.nth(2)?.as_l()?;
    if a.is_empty() || a.len() > 2 {
        return None;
    }
    let i = a[0].to_string_lossy()?;
    if input.nth(1)?.as_i()? == 1 {
        // the line json.dumps of Python writes, re-implemented here (`py_string`)
        let mut line = format!("{{\"input\": {}", py_string(&i));
        if a.len() == 2 {
            line.push_str(&format!(", \"target\": {}", py_string(&a[1].to_string_lossy()?)));
        }
        line.push('}');
        return Some((Val::str(&line), vec!["print".into(), "py".into(), "nt".into()]));
    }
    let mut m = serde_json::Map::new();
    if a.len() == 2 {
        // inserted first on purpose: the map orders the keys itself
        m.insert("target".to_string(), serde_json::Value::String(a[1].to_string_lossy()?));
    }
    m.insert("input".to_string(), serde_json::Value::String(i.clone()));
    let line = serde_json::to_string(&serde_json::Value::Object(m)).ok()?;
    let mut tags = vec!["print".to_string()];
    if i.chars().any(|c| (c as u32) < 0x20 || c == '"' || c == '\\' || (c as u32) > 0x7e) {
        tags.push("nt".into());
    }
    Some((Val::str(&line), tags))
}

fn run_lines_case(input: &Val) -> Option<(Val, Vec<String>)> {
    let cap = input.nth(1)?.as_usize()?;
    let b = val_bytes(input.nth(2)?)?;
    if !(1..=65536).contains(&cap) || b.len() > 4000 {
        return None;
    }
    let reader = |b: &[u8]| LossyUtf8Reader::new(std::io::BufReader::with_capacity(cap, std::io::Cursor::new(b.to_vec())));
    let mut lines = vec![];
    for l in reader(&b).lines() {
        match l {
            Ok(s) => lines.push(Val::str(&s)),
            Err(_) => return Some((Val::L(vec![Val::I(-5)]), vec!["lines".into()])),
        }
    }
    let count = reader(&b).lines().count();
    let mut tags = vec!["lines".to_string()];
    if std::str::from_utf8(&b).is_err() {
        tags.push("invalid-utf8".into());
    }
    if !b.is_empty() && *b.last().unwrap() != b'\n' {
        tags.push("no-final-nl".into());
    }
    if b.len() >= 3 && (b.contains(&b'\n') || std::str::from_utf8(&b).is_err()) {
        tags.push("nt".into());
    }
    Some((Val::L(vec![Val::L(lines), Val::u(count)]), tags))
}

/// repair a shrunk / hand-written input of kinds 4..9: bytes into 0..=255, code points into scalar values
fn canon_file_level(k: i64, l: &[Val]) -> Option<Val> {
    let byte = |v: &Val| Val::I(v.as_i().unwrap_or(97).rem_euclid(256));
    let cp = |v: &Val| {
        let c = v.as_i().unwrap_or(97).rem_euclid(0x110000);
        Val::I(if (0xd800..0xe000).contains(&c) { 0xfffd } else { c })
    };
    let list = |v: &Val, f: &dyn Fn(&Val) -> Val| Val::L(v.as_l().unwrap_or(&[]).iter().map(f).collect());
    Some(match k {
        4..=6 => {
            let seed = l[1].as_i()?.unsigned_abs() & ((1 << 62) - 1);
            let files: Vec<Val> = l[2].as_l()?.iter().take(6).map(|f| list(f, &byte)).collect();
            let orc: Vec<Val> = l[3].as_l()?.iter().map(|v| Val::I(v.as_i().unwrap_or(0).rem_euclid(64))).collect();
            Val::L(vec![Val::I(k), Val::I(seed as i64), Val::L(files), Val::L(orc)])
        }
        7 => Val::L(vec![Val::I(7), Val::I(0), list(&l[2], &cp), Val::L(vec![])]),
        8 => {
            let a: Vec<Val> = l[2].as_l()?.iter().take(2).map(|s| list(s, &cp)).collect();
            let a = if a.is_empty() { vec![Val::L(vec![])] } else { a };
            Val::L(vec![Val::I(8), Val::I(l[1].as_i().unwrap_or(0).rem_euclid(2)), Val::L(a), Val::L(vec![])])
        }
        _ => {
            let cap = l[1].as_i().unwrap_or(1).rem_euclid(64).max(1);
            Val::L(vec![Val::I(9), Val::I(cap), list(&l[2], &byte), Val::L(vec![])])
        }
    })
}

type Srcs = Vec<Vec<(i64, i64)>>;

fn parse_input(input: &Val) -> Option<(i64, u64, Srcs)> {
    let l = input.as_l()?;
    if l.len() != 4 {
        return None;
    }
    let strat = l[0].as_i()?;
    let seed = u64::try_from(l[1].as_i()?).ok()?;
    let mut srcs = vec![];
    for s in l[2].as_l()? {
        let mut v = vec![];
        for it in s.as_l()? {
            v.push((it.nth(0)?.as_i()?, it.nth(1)?.as_i()?));
        }
        srcs.push(v);
    }
    l[3].as_l()?;
    Some((strat, seed, srcs))
}

impl C07 {
    fn new() -> Self {
        let run_mode = std::env::args().nth(1).as_deref() == Some("run");
        let dir = PathBuf::from(format!("/tmp/c07/h{}", std::process::id()));
        let _ = std::fs::create_dir_all(&dir);
        let child = std::env::var("C07_CHILD").is_ok();
        C07 { dir, run_mode, child, hung: false }
    }

    fn write_files(&self, srcs: &Srcs) -> Option<Vec<PathBuf>> {
        let mut files = vec![];
        for (j, s) in srcs.iter().enumerate() {
            let p = self.dir.join(format!("{j}.jsonl"));
            let mut f = std::io::BufWriter::new(std::fs::File::create(&p).ok()?);
            for (kind, id) in s {
                let eol = if *kind == 2 { "\r\n" } else { "\n" };
                write!(f, "{}{}", line(*kind, *id), eol).ok()?;
            }
            f.flush().ok()?;
            files.push(p);
        }
        Some(files)
    }

    /// one watched drain -> (output, a helper thread is stuck). A timeout is confirmed once
    /// with a longer limit so that a loaded machine cannot produce a false hang; endless
    /// pulling of an exhausted source is reported as a hang at once (no thread stays behind).
    fn watched(&self, files: &[PathBuf], strat: i64, seed: u64, cap: usize, raw: bool) -> (Val, bool) {
        self.watched_walk(files, strat, seed, cap, raw, None)
    }

    /// the second drain of a case: the same stream must come out however it is consumed. Every other case walks the
    /// generator with `nth(k)` (what `skip` / `step_by` / `take` of the loader call); the result is compared with the
    /// projection of the first drain (`project_walk`).
    fn second_drain(&self, files: &[PathBuf], strat: i64, seed: u64, cap: usize, raw: bool, first_items: &[Val]) -> (Option<bool>, Val, bool) {
        let walk = if (seed ^ (strat as u64) ^ first_items.len() as u64) % 2 == 0 { Some(seed.wrapping_mul(31).wrapping_add(7)) } else { None };
        let (second, stuck) = self.watched_walk(files, strat, seed, cap, raw, walk);
        if is_hang(&second) {
            return (None, second, stuck);
        }
        let same = match (walk, second.as_l()) {
            (None, _) => None,
            (Some(w), Some(l)) if l.first() == Some(&Val::I(1)) => {
                Some(l.get(1).and_then(|x| x.as_l()).map(|x| x.to_vec()) == Some(project_walk(first_items, w)))
            }
            _ => Some(false),
        };
        (same, second, stuck)
    }

    fn watched_walk(&self, files: &[PathBuf], strat: i64, seed: u64, cap: usize, raw: bool, walk: Option<u64>) -> (Val, bool) {
        let spin = Val::L(vec![Val::I(-778), Val::I(0)]);
        let f1 = files.to_vec();
        let v = with_timeout(TIMEOUT_MS, move || drain_caught_walk(&f1, strat, seed, cap, raw, walk));
        if v == spin {
            return (Val::hang(), false);
        }
        if !is_hang(&v) {
            return (v, false);
        }
        let f2 = files.to_vec();
        let confirm = if self.child { CHILD_CONFIRM_MS } else { CONFIRM_MS };
        let v = with_timeout(confirm, move || drain_caught_walk(&f2, strat, seed, cap, raw, walk));
        if v == spin {
            return (Val::hang(), true);
        }
        let stuck = is_hang(&v);
        (v, stuck)
    }

    /// after a hang in `run` mode the remaining inputs go through a child process each,
    /// so that stuck helper threads do not pile up in this one
    fn run_via_child(&self, input: &Val) -> Option<(Val, Vec<String>)> {
        let exe = std::env::current_exe().ok()?;
        let mut child = std::process::Command::new(exe)
            .arg("run")
            .env("C07_CHILD", "1")
            .stdin(std::process::Stdio::piped())
            .stdout(std::process::Stdio::piped())
            .stderr(std::process::Stdio::null())
            .spawn()
            .ok()?;
        {
            let mut stdin = child.stdin.take()?;
            writeln!(stdin, "{}", input.to_sexp()).ok()?;
        }
        let out = child.wait_with_output().ok()?;
        let text = String::from_utf8_lossy(&out.stdout);
        let first = text.lines().next()?;
        let mut parts = first.split('\t');
        let o = parts.next()?;
        if o == "INVALID" {
            return None;
        }
        let tags = parts
            .next()
            .map(|t| t.split(',').filter(|s| !s.is_empty()).map(|s| s.to_string()).collect())
            .unwrap_or_default();
        Some((Val::parse(o)?, tags))
    }

    fn write_raw(&self, files: &[Vec<u8>]) -> Option<Vec<PathBuf>> {
        let mut paths = vec![];
        for (j, b) in files.iter().enumerate() {
            let p = self.dir.join(format!("r{j}.jsonl"));
            std::fs::write(&p, b).ok()?;
            paths.push(p);
        }
        Some(paths)
    }

    /// files of raw bytes through the real generators: (1 items rep len) | (0) | hang / panic
    fn run_file_case(&mut self, input: &Val) -> Option<(Val, Vec<String>)> {
        let l = input.as_l()?;
        if l.len() != 4 {
            return None;
        }
        let strat = l[0].as_i()? - 4;
        let seed = u64::try_from(l[1].as_i()?).ok()?;
        let files: Vec<Vec<u8>> = l[2].as_l()?.iter().map(val_bytes).collect::<Option<_>>()?;
        l[3].as_l()?;
        if !(0..3).contains(&strat) || files.is_empty() || files.len() > 6 || seed >= 1 << 62 {
            return None;
        }
        if files.iter().any(|f| f.len() > 4000) {
            return None;
        }
        if self.hung {
            if self.run_mode {
                return self.run_via_child(input);
            }
            return None;
        }
        let paths = self.write_raw(&files)?;
        let nl: usize = files.iter().map(|f| f.iter().filter(|c| **c == b'\n').count() + 1).sum();
        let cap = nl + files.len() + 4;
        let mut tags = vec![
            "file".to_string(),
            match strat {
                1 => "interleaved",
                2 => "weighted",
                _ => "sequential",
            }
            .to_string(),
        ];
        let all: Vec<u8> = files.concat();
        let open_end = files.iter().any(|f| !f.is_empty() && *f.last().unwrap() != b'\n');
        if open_end {
            tags.push("no-final-nl".into());
        }
        if files.iter().any(|f| std::str::from_utf8(f).is_err()) {
            tags.push("invalid-utf8".into());
        }
        if all.windows(2).any(|w| w == b"\r\n") {
            tags.push("crlf".into());
        }
        let (first, stuck) = self.watched(&paths, strat, seed, cap, true);
        self.hung |= stuck;
        if is_hang(&first) {
            return Some((first, tags));
        }
        let fl = first.as_l()?;
        if fl.first() != Some(&Val::I(1)) {
            return Some((first.clone(), tags));
        }
        let items = fl[1].as_l()?;
        let errs = items.iter().filter(|it| it.nth(1).and_then(|x| x.nth(0)) == Some(&Val::I(0))).count();
        if errs > 0 {
            tags.push("err-items".into());
        }
        if errs < items.len() {
            tags.push("ok-items".into());
        }
        if nl - files.len() >= 2 && (errs > 0 || open_end || all.iter().any(|c| *c >= 0x80 || *c == b'\\')) {
            tags.push("nt".into());
        }
        let (walked, second, stuck) = self.second_drain(&paths, strat, seed, cap, true, items);
        self.hung |= stuck;
        if is_hang(&second) {
            return Some((second, tags));
        }
        if walked.is_some() {
            tags.push("walk".into());
        }
        let rep = walked.unwrap_or_else(|| second == first);
        Some((Val::L(vec![Val::I(1), fl[1].clone(), Val::b(rep), fl[2].clone()]), tags))
    }

    fn tags(strat: i64, srcs: &Srcs) -> Vec<String> {
        let mut tags = vec![match strat {
            1 => "interleaved",
            2 => "weighted",
            _ => "sequential",
        }
        .to_string()];
        let lens: Vec<usize> = srcs.iter().map(|s| s.len()).collect();
        let (mn, mx) = (*lens.iter().min().unwrap(), *lens.iter().max().unwrap());
        if lens.len() == 1 {
            tags.push("single".into());
        }
        if mn == 0 {
            tags.push("empty-src".into());
        }
        if srcs.iter().flatten().any(|(k, _)| !kind_ok(*k)) {
            tags.push("err-items".into());
        }
        // a source runs dry while another still has at least two items to go, or a
        // single source with at least two items: the selection after exhaustion is exercised
        if (lens.len() >= 2 && mx >= mn + 2) || (lens.len() == 1 && mx >= 2) {
            tags.push("nt".into());
        }
        tags
    }
}

impl Drop for C07 {
    fn drop(&mut self) {
        let _ = std::fs::remove_dir_all(&self.dir);
    }
}

fn gen_source(rng: &mut Rng, j: usize, len: usize, malformed: bool) -> Val {
    Val::L(
        (0..len)
            .map(|k| {
                let kind = if malformed && rng.chance(1, 3) {
                    rng.range(3, 7) as i64
                } else {
                    *rng.pick(&[0, 0, 0, 1, 2])
                };
                Val::L(vec![Val::I(kind), Val::I((j * 1000 + k) as i64)])
            })
            .collect(),
    )
}

fn case(strat: i64, seed: u64, lens: &[usize], rng: &mut Rng, malformed: bool) -> Val {
    let total: usize = lens.iter().sum();
    let srcs: Vec<Val> = lens
        .iter()
        .enumerate()
        .map(|(j, l)| gen_source(rng, j, *l, malformed))
        .collect();
    let orc: Vec<Val> = (0..total + lens.len() + 2).map(|_| Val::u(rng.below(6))).collect();
    Val::L(vec![Val::I(strat), Val::I(seed as i64), Val::L(srcs), Val::L(orc)])
}

impl Prop for C07 {
    fn gen(&mut self, rng: &mut Rng, tier: Tier, _i: usize, _n: usize) -> Val {
        // the loader's input files (C07_Files.v): 45 % of the quick tier, 30 % of the thorough tier
        let share = if tier == Tier::Thorough { 30 } else { 45 };
        let k = rng.below(100);
        if k < share {
            return match k * 45 / share {
                0..=21 => gen_file_case(rng),
                22..=33 => gen_json_case(rng),
                34..=41 => gen_lines_case(rng),
                _ => gen_print_case(rng),
            };
        }
        // rng scripts: 30 % of the remaining quick tier, 70 % of the remaining thorough tier
        if rng.chance(if tier == Tier::Thorough { 7 } else { 3 }, 10) {
            return gen_rng_case(rng);
        }
        let strat = rng.below(3) as i64;
        let seed = match rng.below(8) {
            0 => 0,
            1 => rng.below(4) as u64,
            _ => rng.next_u64() >> 3,
        };
        let big = if tier == Tier::Thorough { 24 } else { 12 };
        let stream = rng.below(100);
        let lens: Vec<usize> = if stream < 15 {
            // a single source
            vec![rng.below(7)]
        } else if stream < 45 {
            // short sources, empties only by chance for the weighted strategy
            let n = rng.range(2, 5);
            let lo = if strat == 2 && !rng.chance(1, 8) { 1 } else { 0 };
            (0..n).map(|_| rng.range(lo, 4)).collect()
        } else if stream < 70 {
            // one or two long sources among short ones: long tail on few unfinished sources
            let n = rng.range(2, 5);
            let lo = if strat == 2 { 1 } else { 0 };
            let mut l: Vec<usize> = (0..n).map(|_| rng.range(lo, 2)).collect();
            let k = rng.below(n);
            l[k] = rng.range(3, big);
            if rng.chance(1, 3) {
                let k2 = rng.below(n);
                l[k2] = rng.range(3, big);
            }
            l
        } else if stream < 80 {
            // all equal
            let n = rng.range(2, 5);
            let len = rng.range(if strat == 2 { 1 } else { 0 }, 5);
            vec![len; n]
        } else if stream < 90 {
            // staircase, ascending or descending
            let n = rng.range(2, 6);
            let mut l: Vec<usize> = (0..n).map(|k| k + if strat == 2 { 1 } else { 0 }).collect();
            if rng.chance(1, 2) {
                l.reverse();
            }
            l
        } else {
            // edge: many empties, also for weighted (constructor error)
            let n = rng.range(1, 6);
            (0..n).map(|_| if rng.chance(1, 2) { 0 } else { rng.range(1, 3) }).collect()
        };
        let malformed = rng.chance(1, 4);
        case(strat, seed, &lens, rng, malformed)
    }

    fn exhaustive(&mut self, _tier: Tier) -> Vec<Val> {
        // every length vector of <= 3 sources with lengths <= 4 and of 4 sources with
        // lengths <= 3, all strategies (weighted with three seeds)
        let mut rng = Rng::new(7);
        let mut all = vec![];
        let mut vecs: Vec<Vec<usize>> = vec![];
        for n in 1..=4usize {
            let m: usize = if n == 4 { 4 } else { 5 };
            let count = m.pow(n as u32);
            for code in 0..count {
                let mut c = code;
                let mut v = vec![];
                for _ in 0..n {
                    v.push(c % m);
                    c /= m;
                }
                vecs.push(v);
            }
        }
        for v in &vecs {
            for strat in 0..3i64 {
                let seeds: &[u64] = if strat == 2 { &[0, 1, 2] } else { &[0] };
                for s in seeds {
                    all.push(case(strat, *s, v, &mut rng, false));
                }
            }
        }
        // the line reader on every byte string of length <= 5 over {a, \n, \r, 0xC3, 0xA9, 0xF0}
        let alpha = [b'a', b'\n', b'\r', 0xc3, 0xa9, 0xf0];
        for len in 0..=5usize {
            for code in 0..alpha.len().pow(len as u32) {
                let mut c = code;
                let b: Vec<u8> = (0..len)
                    .map(|_| {
                        let x = alpha[c % alpha.len()];
                        c /= alpha.len();
                        x
                    })
                    .collect();
                all.push(lines_case(1 + code % 3, &b));
            }
        }
        all
    }

    fn run(&mut self, input: &Val) -> Option<(Val, Vec<String>)> {
        match input.nth(0).and_then(|v| v.as_i()) {
            Some(3) => return run_rng_case(input),
            Some(4..=6) => return self.run_file_case(input),
            Some(7) => return run_json_case(input),
            Some(8) => return run_print_case(input),
            Some(9) => return run_lines_case(input),
            _ => {}
        }
        let (strat, seed, srcs) = parse_input(input)?;
        if !(0..3).contains(&strat) || srcs.is_empty() || srcs.len() > 8 {
            return None; // the callers of the generator refuse an empty file list
        }
        if srcs.iter().any(|s| s.len() > 64) || seed >= 1 << 62 {
            return None;
        }
        // ids must be unique and kinds known (canon establishes both)
        let mut seen = std::collections::HashSet::new();
        for (k, id) in srcs.iter().flatten() {
            if !(0..KINDS).contains(k) || *id < 0 || !seen.insert(*id) {
                return None;
            }
        }
        if self.hung {
            if self.run_mode {
                return self.run_via_child(input);
            }
            // gen mode: one stuck helper thread is enough, stop exploring in this process
            return None;
        }
        let files = self.write_files(&srcs)?;
        let total: usize = srcs.iter().map(|s| s.len()).sum();
        let cap = total + srcs.len() + 4;
        let tags = C07::tags(strat, &srcs);
        let (first, stuck) = self.watched(&files, strat, seed, cap, false);
        self.hung |= stuck;
        if is_hang(&first) {
            return Some((first, tags));
        }
        let l = first.as_l()?;
        if l.first() != Some(&Val::I(1)) {
            return Some((first.clone(), tags));
        }
        let first_items: Vec<Val> = l.get(1).and_then(|x| x.as_l()).map(|x| x.to_vec()).unwrap_or_default();
        let (walked, second, stuck) = self.second_drain(&files, strat, seed, cap, false, &first_items);
        self.hung |= stuck;
        if is_hang(&second) {
            return Some((second, tags));
        }
        let mut tags = tags;
        if walked.is_some() {
            tags.push("walk".into());
        }
        let rep = walked.unwrap_or_else(|| second == first);
        Some((
            Val::L(vec![Val::I(1), l[1].clone(), Val::b(rep), l[2].clone()]),
            tags,
        ))
    }

    fn canon(&mut self, input: &Val) -> Option<Val> {
        let l = input.as_l()?;
        if l.len() != 4 {
            return None;
        }
        if l[0].as_i() == Some(3) {
            return canon_rng_case(input);
        }
        if let Some(k @ 4..=9) = l[0].as_i() {
            return canon_file_level(k, l);
        }
        let strat = l[0].as_i()?.rem_euclid(3);
        let seed = l[1].as_i()?.unsigned_abs() & ((1 << 62) - 1);
        let mut srcs = vec![];
        for (j, s) in l[2].as_l()?.iter().enumerate() {
            let items: Vec<Val> = s
                .as_l()?
                .iter()
                .enumerate()
                .map(|(k, it)| {
                    let kind = it.nth(0).and_then(|v| v.as_i()).unwrap_or(0).rem_euclid(KINDS);
                    Val::L(vec![Val::I(kind), Val::I((j * 1000 + k) as i64)])
                })
                .collect();
            srcs.push(Val::L(items));
        }
        let orc: Vec<Val> = l[3]
            .as_l()?
            .iter()
            .map(|v| Val::I(v.as_i().unwrap_or(0).rem_euclid(64)))
            .collect();
        Some(Val::L(vec![Val::I(strat), Val::I(seed as i64), Val::L(srcs), Val::L(orc)]))
    }

    fn selfcheck(&mut self) -> Vec<String> {
        let mut errs = vec![];
        // (1) the item encoding the model is given is what a single real generator yields
        let src: Vec<(i64, i64)> = (0..KINDS).map(|k| (k, 100 + k)).collect();
        let Some(files) = self.write_files(&vec![src.clone()]) else {
            return vec!["cannot write under /tmp/c07".into()];
        };
        match train_data_generator_from_jsonl(&files[0]) {
            Ok(g) => {
                if g.len() != src.len() {
                    errs.push(format!("single generator len() = {} for {} lines", g.len(), src.len()));
                }
                let got: Vec<(bool, i64)> = g.map(|d| decode(&d)).collect();
                let want: Vec<(bool, i64)> = src.iter().map(|(k, id)| (kind_ok(*k), *id)).collect();
                if got != want {
                    errs.push(format!("single generator yields {got:?}, expected {want:?}"));
                }
            }
            Err(e) => errs.push(format!("cannot open generator: {e}")),
        }
        // (2) different seeds give different weighted streams sometimes
        let srcs: Srcs = (0..3).map(|j| (0..4).map(|k| (0, j * 1000 + k)).collect()).collect();
        if let Some(files) = self.write_files(&srcs) {
            let mut distinct = std::collections::HashSet::new();
            for seed in 0..16u64 {
                distinct.insert(self.watched(&files, 2, seed, 40, false).0.to_sexp());
            }
            if distinct.len() < 2 {
                errs.push("weighted: 16 seeds gave one and the same stream".into());
            }
        }
        errs
    }
}

fn main() {
    main_loop(C07::new());
}

//! C07: MultiTrainDataGenerator (sequential / interleaved / weighted) against the model.
//! input  = (strat seed srcs orc)   srcs = ((kind id) ...) per source, see `line`
//! output = (1 items rep len) | (0) constructor error | (2 items) more items than exist
//!          | (-777) panic | (-778) hang;   items = ((tag ok id) ...)
//! Every drain of the real generator runs on a helper thread under a watchdog.
//! rng cases (strat = 3): input = (3 (seed-hi seed-lo) script ()); the REAL
//! `ChaCha8Rng::seed_from_u64(seed)` (rand_chacha / rand of /repo's lock file) is driven through the
//! script of sampler calls; output = (results (block-hi block-lo offset)), see `rng_script`.
use rand::distr::weighted::WeightedIndex;
use rand::distr::Distribution as _;
use rand::seq::SliceRandom;
use rand::{Rng as _, RngCore, SeedableRng};
use rand_chacha::ChaCha8Rng;
use std::io::Write as _;
use std::path::PathBuf;
use text_utils::data::loading::{
    train_data_generator_from_jsonl, GenerationStrategy, MultiTrainDataGenerator, TrainDataGenerator,
};
use vh::*;

const KINDS: i64 = 8;
const TIMEOUT_MS: u64 = 300;
const CONFIRM_MS: u64 = 2500;
/// in a child process (only used after a first confirmed hang) the confirmation is shorter
const CHILD_CONFIRM_MS: u64 = 700;
/// a source that is pulled this often after it returned None is being spun on
const SPIN_LIMIT: usize = 20_000;

/// Transparent wrapper around a real source generator that notices an endless stream of
/// pulls after exhaustion (a hang that can be detected without waiting for the watchdog).
struct Counted {
    inner: TrainDataGenerator,
    after_end: usize,
}

struct Spin;

impl Iterator for Counted {
    type Item = anyhow::Result<text_utils::data::TrainData>;
    fn next(&mut self) -> Option<Self::Item> {
        let r = self.inner.next();
        if r.is_none() {
            self.after_end += 1;
            if self.after_end > SPIN_LIMIT {
                std::panic::panic_any(Spin);
            }
        }
        r
    }
    fn size_hint(&self) -> (usize, Option<usize>) {
        self.inner.size_hint()
    }
}

impl ExactSizeIterator for Counted {}

struct C07 {
    dir: PathBuf,
    run_mode: bool,
    /// this process was started by another c07 process after a confirmed hang
    child: bool,
    /// a helper thread of this process is stuck in the implementation
    hung: bool,
}

/// one jsonl line (without the line terminator) per item kind; the id is recoverable
/// from the Ok data (kinds 0, 1, 2) or from the error message (the others)
fn line(kind: i64, id: i64) -> String {
    match kind {
        0 | 2 => format!("{{\"input\":\"{id}\"}}"), // kind 2 is written with a CRLF line end
        1 => format!("{{\"input\":\"{id}\",\"target\":\"t{id}\"}}"),
        3 => format!("{{\"input\": {id}"),          // malformed json
        4 => format!("{{\"id\":{id}}}"),            // key 'input' missing
        5 => format!("{{\"input\":{id}}}"),         // input not a string
        6 => format!("[{id}]"),                     // not an object
        _ => format!("{{\"input\":\"x\",\"target\":{id}}}"), // target not a string
    }
}

/// kinds 0..2 parse to Ok data, kinds 3..7 are Err items (the model uses the same rule)
fn kind_ok(kind: i64) -> bool {
    kind < 3
}

fn last_number(s: &str) -> i64 {
    let b = s.as_bytes();
    let mut end = b.len();
    while end > 0 && !b[end - 1].is_ascii_digit() {
        end -= 1;
    }
    let mut start = end;
    while start > 0 && b[start - 1].is_ascii_digit() {
        start -= 1;
    }
    s[start..end].parse().unwrap_or(-1)
}

fn decode(item: &anyhow::Result<text_utils::data::TrainData>) -> (bool, i64) {
    match item {
        Ok(td) => (true, td.verif_input().parse().unwrap_or(-1)),
        Err(e) => (false, last_number(&e.to_string())),
    }
}

fn strategy(s: i64) -> GenerationStrategy {
    match s {
        1 => GenerationStrategy::Interleaved,
        2 => GenerationStrategy::Weighted,
        _ => GenerationStrategy::Sequential,
    }
}

/// build the real generators over the files and drain the combined one
fn drain(files: &[PathBuf], strat: i64, seed: u64, cap: usize) -> Val {
    let gens: Result<Vec<TrainDataGenerator>, _> = files
        .iter()
        .map(|f| {
            train_data_generator_from_jsonl(f)
                .map(|g| Box::new(Counted { inner: g, after_end: 0 }) as TrainDataGenerator)
        })
        .collect();
    let Ok(gens) = gens else {
        return Val::L(vec![Val::I(-5)]);
    };
    match MultiTrainDataGenerator::new(gens, strategy(strat), Some(seed)) {
        Err(_) => Val::L(vec![Val::I(0)]),
        Ok(g) => {
            let len = g.len();
            let mut items = vec![];
            for (data, tag) in g {
                let (ok, id) = decode(&data);
                items.push(Val::L(vec![Val::u(tag), Val::b(ok), Val::I(id)]));
                if items.len() > cap {
                    return Val::L(vec![Val::I(2), Val::L(items)]);
                }
            }
            Val::L(vec![Val::I(1), Val::L(items), Val::u(len)])
        }
    }
}

fn is_hang(v: &Val) -> bool {
    *v == Val::hang()
}

/// `drain`, with the spin marker of `Counted` turned into a value
fn drain_caught(files: &[PathBuf], strat: i64, seed: u64, cap: usize) -> Val {
    match std::panic::catch_unwind(std::panic::AssertUnwindSafe(|| drain(files, strat, seed, cap))) {
        Ok(v) => v,
        Err(e) if e.downcast_ref::<Spin>().is_some() => Val::L(vec![Val::I(-778), Val::I(0)]),
        Err(_) => Val::panic(),
    }
}


// ---------------------------------------------------------------- rng scripts (RNG_Model.v)

/// a u64 as two 32-bit halves (numbers on the wire stay below 2^62)
fn hl(x: u64) -> Val {
    Val::L(vec![Val::I((x >> 32) as i64), Val::I((x & 0xffff_ffff) as i64)])
}

fn un_hl(v: &Val) -> Option<u64> {
    let l = v.as_l()?;
    if l.len() != 2 {
        return None;
    }
    let (h, lo) = (l[0].as_i()?, l[1].as_i()?);
    if !(0..1i64 << 32).contains(&h) || !(0..1i64 << 32).contains(&lo) {
        return None;
    }
    Some(((h as u64) << 32) | lo as u64)
}

/// f64 weight on the wire: (0 m e) = m * 2^e canonical (-0.0 is sent as zero), (1 0 0) +inf,
/// (2 0 0) NaN, (3 0 0) negative
fn f64_val(x: f64) -> Val {
    let t = |k: i64, m: i64, e: i64| Val::L(vec![Val::I(k), Val::I(m), Val::I(e)]);
    if x.is_nan() {
        t(2, 0, 0)
    } else if x == f64::INFINITY {
        t(1, 0, 0)
    } else if x < 0.0 {
        t(3, 0, 0)
    } else {
        let b = x.to_bits() & !(1u64 << 63);
        let (e, f) = ((b >> 52) as i64, (b & ((1u64 << 52) - 1)) as i64);
        if e == 0 {
            t(0, f, -1074)
        } else {
            t(0, f + (1i64 << 52), e - 1075)
        }
    }
}

/// inverse of `f64_val`; `None` unless canonical
fn val_f64(v: &Val) -> Option<f64> {
    let l = v.as_l()?;
    if l.len() != 3 {
        return None;
    }
    let (k, m, e) = (l[0].as_i()?, l[1].as_i()?, l[2].as_i()?);
    match k {
        1 if m == 0 && e == 0 => Some(f64::INFINITY),
        2 if m == 0 && e == 0 => Some(f64::NAN),
        3 if m == 0 && e == 0 => Some(-1.0),
        0 => {
            if (0..1i64 << 52).contains(&m) && e == -1074 {
                Some(f64::from_bits(m as u64))
            } else if (1i64 << 52..1i64 << 53).contains(&m) && (-1074..=971).contains(&e) {
                Some(f64::from_bits((((e + 1075) as u64) << 52) | (m as u64 - (1u64 << 52))))
            } else {
                None
            }
        }
        _ => None,
    }
}

#[derive(Clone, Debug)]
enum Call {
    U32,
    U64,
    F64,
    Range(u64),
    Shuffle(usize),
    WeightedN(Vec<u64>),
    WeightedF(Vec<f64>),
    SetPos(u64, u32),
    Partial(u64, usize, bool),
    UniformF(f64),
}

const MAX_SHUFFLE: usize = 1000;
const MAX_PARTIAL_SHOWN: u64 = 1 << 21;

fn call_val(c: &Call) -> Val {
    match c {
        Call::U32 => Val::L(vec![Val::I(0)]),
        Call::U64 => Val::L(vec![Val::I(1)]),
        Call::F64 => Val::L(vec![Val::I(2)]),
        Call::Range(n) => Val::L(vec![Val::I(3), hl(*n)]),
        Call::Shuffle(m) => Val::L(vec![Val::I(4), Val::u(*m)]),
        Call::WeightedN(ws) => Val::L(vec![Val::I(5), Val::L(ws.iter().map(|w| hl(*w)).collect())]),
        Call::WeightedF(ws) => Val::L(vec![Val::I(6), Val::L(ws.iter().map(|w| f64_val(*w)).collect())]),
        Call::SetPos(b, off) => Val::L(vec![Val::I(7), hl(*b), Val::I(*off as i64)]),
        Call::Partial(len, amount, show) => Val::L(vec![Val::I(8), hl(*len), Val::u(*amount), Val::b(*show)]),
        Call::UniformF(h) => Val::L(vec![Val::I(9), f64_val(*h)]),
    }
}

fn val_call(v: &Val) -> Option<Call> {
    let l = v.as_l()?;
    let arity = |n: usize| if l.len() == n { Some(()) } else { None };
    Some(match l.first()?.as_i()? {
        0 => {
            arity(1)?;
            Call::U32
        }
        1 => {
            arity(1)?;
            Call::U64
        }
        2 => {
            arity(1)?;
            Call::F64
        }
        3 => {
            arity(2)?;
            Call::Range(un_hl(&l[1])?)
        }
        4 => {
            arity(2)?;
            let m = l[1].as_usize()?;
            if m > MAX_SHUFFLE {
                return None;
            }
            Call::Shuffle(m)
        }
        5 => {
            arity(2)?;
            let ws = l[1].as_l()?;
            if ws.len() > 16 {
                return None;
            }
            Call::WeightedN(ws.iter().map(un_hl).collect::<Option<Vec<u64>>>()?)
        }
        6 => {
            arity(2)?;
            let ws = l[1].as_l()?;
            if ws.len() > 16 {
                return None;
            }
            Call::WeightedF(ws.iter().map(val_f64).collect::<Option<Vec<f64>>>()?)
        }
        7 => {
            arity(3)?;
            let off = l[2].as_i()?;
            if !(0..16).contains(&off) {
                return None;
            }
            Call::SetPos(un_hl(&l[1])?, off as u32)
        }
        8 => {
            arity(4)?;
            let (len, amount, show) = (un_hl(&l[1])?, l[2].as_usize()?, l[3].as_bool()?);
            if amount > 64 || (show && len > MAX_PARTIAL_SHOWN) || len > (1u64 << 40) {
                return None;
            }
            Call::Partial(len, amount, show)
        }
        9 => {
            arity(2)?;
            let h = val_f64(&l[1])?;
            if h.is_nan() {
                return None; // the order of the constructor's tests depends on debug assertions for NaN
            }
            Call::UniformF(h)
        }
        _ => return None,
    })
}

fn werr_code(e: rand::distr::weighted::Error) -> i64 {
    use rand::distr::weighted::Error as E;
    match e {
        E::InvalidInput => 1,
        E::InvalidWeight => 2,
        E::InsufficientNonZero => 3,
        E::Overflow => 4,
        _ => 9,
    }
}

fn werr(code: i64) -> Val {
    Val::L(vec![Val::I(-1), Val::I(code)])
}

/// the indices `partial_shuffle` drew, recovered from the slice it left behind: going backwards,
/// before the swap of step i position i still held its initial value i
fn partial_indices(v: &mut [u32], m: usize) -> Vec<usize> {
    let len = v.len();
    let mut pos = vec![0u32; len];
    for (p, x) in v.iter().enumerate() {
        pos[*x as usize] = p as u32;
    }
    let mut idx = vec![0usize; len - m];
    for i in (m..len).rev() {
        let j = pos[i] as usize;
        idx[i - m] = j;
        let (a, b) = (v[i], v[j]);
        v.swap(i, j);
        pos[a as usize] = j as u32;
        pos[b as usize] = i as u32;
    }
    idx
}

/// drive the REAL generator through the script; tags say what the draws exercised
fn rng_script(seed: u64, script: &[Call], tags: &mut Vec<String>) -> Val {
    use std::panic::{catch_unwind, AssertUnwindSafe};
    let mut r = ChaCha8Rng::seed_from_u64(seed);
    let mut outs = vec![];
    let mut tag = |t: &str| {
        if !tags.iter().any(|x| x == t) {
            tags.push(t.to_string());
        }
    };
    for c in script {
        let before = r.get_word_pos();
        let straddles = |words: u128| before % 64 + words > 64 && before % 64 != 0;
        let o = match c {
            Call::U32 => Val::I(r.next_u32() as i64),
            Call::U64 => {
                if straddles(2) {
                    tag("straddle");
                }
                hl(r.next_u64())
            }
            Call::F64 => {
                let x: f64 = r.random();
                let k = x * 9007199254740992.0;
                if !(0.0..9007199254740992.0).contains(&k) || k.fract() != 0.0 {
                    return Val::L(vec![Val::I(-6)]);
                }
                Val::I(k as i64)
            }
            Call::Range(n) => {
                let n = *n as usize;
                match catch_unwind(AssertUnwindSafe(|| r.random_range(0..n))) {
                    Ok(x) => {
                        let width: u128 = if n > u32::MAX as usize { 2 } else { 1 };
                        if width == 2 {
                            tag("range64");
                        }
                        if r.get_word_pos().wrapping_sub(before) > width {
                            tag("redraw");
                        }
                        hl(x as u64)
                    }
                    Err(_) => Val::panic(),
                }
            }
            Call::Shuffle(m) => {
                let mut v: Vec<usize> = (0..*m).collect();
                v.shuffle(&mut r);
                if r.get_word_pos().wrapping_sub(before) > 1 {
                    tag("chunks");
                }
                Val::list(v, Val::u)
            }
            Call::WeightedN(ws) => {
                let ws: Vec<usize> = ws.iter().map(|w| *w as usize).collect();
                let total: u128 = ws.iter().map(|w| *w as u128).sum();
                match catch_unwind(AssertUnwindSafe(|| WeightedIndex::new(ws))) {
                    Err(_) => werr(5),
                    Ok(Err(e)) => werr(werr_code(e)),
                    Ok(Ok(d)) => {
                        let i = r.sample(d);
                        let width: u128 = if total > (1u128 << 32) { 2 } else { 1 };
                        if width == 2 {
                            tag("weighted64");
                        }
                        if r.get_word_pos().wrapping_sub(before) > width {
                            tag("reject");
                        }
                        Val::L(vec![Val::u(i)])
                    }
                }
            }
            Call::WeightedF(ws) => match catch_unwind(AssertUnwindSafe(|| WeightedIndex::new(ws.clone()))) {
                Err(_) => werr(5),
                Ok(Err(e)) => werr(werr_code(e)),
                Ok(Ok(d)) => {
                    let i = d.sample(&mut r);
                    Val::L(vec![Val::u(i), f64_val(d.total_weight())])
                }
            },
            Call::UniformF(h) => match rand::distr::Uniform::<f64>::new(0.0, *h) {
                Ok(u) => f64_val(u.sample(&mut r)),
                Err(rand::distr::uniform::Error::EmptyRange) => werr(1),
                Err(rand::distr::uniform::Error::NonFinite) => werr(2),
            },
            Call::SetPos(b, off) => {
                r.set_word_pos((*b as u128) * 16 + *off as u128);
                Val::L(vec![])
            }
            Call::Partial(len, amount, show) => {
                let len = *len as usize;
                if *show {
                    let mut v: Vec<u32> = (0..len as u32).collect();
                    v.partial_shuffle(&mut r, *amount);
                    let m = len.saturating_sub(*amount);
                    Val::list(partial_indices(&mut v, m), Val::u)
                } else {
                    // a slice of zero-sized elements: only the draws happen
                    let mut v = vec![(); len];
                    v.partial_shuffle(&mut r, *amount);
                    if len >= u32::MAX as usize {
                        tag("shuffle-slow-path");
                    }
                    Val::L(vec![])
                }
            }
        };
        outs.push(o);
    }
    let wp = r.get_word_pos();
    let block = (wp / 16) as u64;
    Val::L(vec![
        Val::L(outs),
        Val::L(vec![Val::I((block >> 32) as i64), Val::I((block & 0xffff_ffff) as i64), Val::I((wp % 16) as i64)]),
    ])
}

/// n dense around the powers of two, around 2^32 (where the sampled width switches) and where
/// the second draw of the range sampler is likely (n close to 2^32 resp. 2^64)
fn gen_bound(rng: &mut Rng) -> u64 {
    let around = |rng: &mut Rng, c: u64| -> u64 {
        let d = rng.below(7) as u64;
        if rng.chance(1, 2) { c.wrapping_add(d) } else { c.wrapping_sub(d) }
    };
    match rng.below(100) {
        0..=1 => 0,
        2..=19 => rng.range(1, 20) as u64,
        20..=39 => {
            let k = rng.below(64) as u32;
            around(rng, 1u64 << k).max(1)
        }
        40..=54 => around(rng, 1u64 << 32),
        55..=64 => (1u64 << 31) + (rng.next_u64() >> 33),      // u32, second draw in half the cases
        65..=72 => (1u64 << 63) + (rng.next_u64() >> 1),       // u64, second draw in most cases
        73..=78 => u64::MAX - rng.below(4) as u64,
        79..=84 => (1u64 << 32) - 1 - rng.below(4) as u64,
        85..=89 => rng.next_u64() >> rng.below(64),
        // exact powers of two: the low half of the widening product hits the comparison's boundary
        90..=95 => 1u64 << rng.range(1, 63),
        _ => rng.range(21, 5000) as u64,
    }
}

fn gen_weights_n(rng: &mut Rng) -> Vec<u64> {
    let n = match rng.below(20) {
        0 => 0,
        1..=3 => 1,
        _ => rng.range(2, 6),
    };
    let mut ws: Vec<u64> = (0..n)
        .map(|_| match rng.below(10) {
            0..=2 => 0,
            3..=7 => rng.range(1, 6) as u64,
            _ => rng.range(7, 1000) as u64,
        })
        .collect();
    if n == 0 {
        return ws;
    }
    // push the total near a boundary of the uniform sampler
    let k = rng.below(n);
    match rng.below(14) {
        0 => ws[k] = (1u64 << 31) + (rng.next_u64() >> 34),
        1 => ws[k] = (1u64 << 32) - rng.below(6) as u64,
        2 => {
            // total exactly 2^32 (range 0: every u32 is taken)
            let rest: u64 = ws.iter().enumerate().filter(|(i, _)| *i != k).map(|(_, w)| *w).sum();
            ws[k] = (1u64 << 32) - rest;
        }
        3 => ws[k] = (1u64 << 32) + rng.below(6) as u64,
        4 => ws[k] = (1u64 << 63) + (rng.next_u64() >> 2),
        5 => {
            // overflow of the sum
            ws[k] = u64::MAX - rng.below(3) as u64;
        }
        6 => ws[k] = (rng.next_u64() >> rng.below(64)).max(1),
        7 => ws.iter_mut().for_each(|w| *w = 0),
        8 | 9 => {
            // total an exact power of two: threshold 0, and the low half of the product is 0 for
            // every draw whose low bits are 0 (the boundary `lo >= thresh` of the rejection rule)
            let t = 1u64 << (if rng.chance(1, 2) { rng.range(28, 31) } else { rng.range(1, 63) });
            let rest: u64 = ws.iter().enumerate().filter(|(i, _)| *i != k).map(|(_, w)| *w).sum();
            if rest < t {
                ws[k] = t - rest;
            }
        }
        _ => {}
    }
    ws
}

fn gen_weights_f(rng: &mut Rng) -> Vec<f64> {
    let n = match rng.below(20) {
        0 => 0,
        1..=3 => 1,
        _ => rng.range(2, 6),
    };
    let style = rng.below(10);
    if style == 6 {
        // a handful of the smallest subnormals: the sample takes few values and meets the cumulative weights exactly
        return (0..n).map(|_| f64::from_bits(rng.below(4) as u64)).collect();
    }
    if style == 7 {
        // small integers: short mantissas, the product with the 52-bit draw is a rounding tie every other time
        return (0..n).map(|_| *rng.pick(&[0.0, 1.0, 3.0, 5.0, 7.0, 9.0, 1.5, 2.5])).collect();
    }
    (0..n)
        .map(|_| match rng.below(24) {
            0..=4 => 0.0,
            5 => -0.0,
            6..=9 => *rng.pick(&[1.0, 0.5, 0.25, 3.0, 2.0, 0.1, 0.3, 1e-3, 7.0]),
            10..=15 => {
                // random mantissa, moderate exponent
                let e = 1023 + rng.range(0, 20) as u64 - 10;
                f64::from_bits((e << 52) | (rng.next_u64() >> 12))
            }
            16 if style == 0 => f64::from_bits(rng.next_u64() >> 12 >> rng.below(52)), // subnormal
            17 if style == 1 => f64::MAX / (1.0 + rng.below(3) as f64),                   // the sum overflows
            18 if style == 2 => f64::INFINITY,
            19 if style == 3 => f64::NAN,
            20 if style == 4 => -1.5,
            21 if style == 5 => f64::from_bits(rng.next_u64() >> 1),                      // anything non-negative
            _ => rng.range(1, 9) as f64 / 8.0,
        })
        .collect()
}

fn gen_call(rng: &mut Rng) -> Call {
    match rng.below(100) {
        0..=9 => Call::U32,
        10..=19 => Call::U64,
        20..=29 => Call::F64,
        30..=51 => Call::Range(gen_bound(rng)),
        52..=65 => Call::Shuffle(match rng.below(24) {
            0..=1 => rng.below(3),
            2..=11 => rng.range(2, 16),
            12..=17 => rng.range(10, 40),
            18..=22 => rng.range(40, 200),
            _ => rng.range(200, MAX_SHUFFLE),
        }),
        66..=79 => Call::WeightedN(gen_weights_n(rng)),
        80..=86 => Call::WeightedF(gen_weights_f(rng)),
        87..=89 => Call::UniformF(match rng.below(12) {
            0 => 0.0,
            1 => -2.0,
            2 => f64::INFINITY,
            3 => f64::MAX,
            4 => f64::from_bits(rng.below(6) as u64),                                   // tiniest subnormals
            5 => f64::from_bits(rng.next_u64() >> 12 >> rng.below(52)),                 // subnormal
            6..=8 => *rng.pick(&[1.0, 3.0, 5.0, 7.0, 0.75, 1.25, 6.0, 10.0, 1e3]),      // short mantissas: ties
            9 => f64::from_bits(((1023 + rng.range(0, 40) as u64 - 20) << 52) | (rng.next_u64() >> 12)),
            _ => {
                let x = f64::from_bits(rng.next_u64() >> 1);
                if x.is_nan() { 1.0 } else { x }
            }
        }),
        90..=93 => {
            // jump: around 2^32 blocks (the counter's low word carries), around 2^64 (it wraps), anywhere
            let b = match rng.below(4) {
                0 => (1u64 << 32).wrapping_sub(rng.range(1, 9) as u64),
                1 => 0u64.wrapping_sub(rng.range(1, 9) as u64),
                2 => rng.next_u64(),
                _ => rng.below(1000) as u64,
            };
            Call::SetPos(b, rng.below(16) as u32)
        }
        _ => {
            if rng.chance(3, 4) {
                // indices reported: product sizes of IncreasingUniform change with n
                let len = match rng.below(5) {
                    0 => rng.range(0, 30) as u64,
                    1 => rng.range(30, 2000) as u64,
                    2 => rng.range(1500, 1800) as u64,       // n (n+1) (n+2) around 2^32
                    3 => rng.range(65_400, 65_700) as u64,   // n (n+1) around 2^32
                    _ => rng.range(2000, MAX_PARTIAL_SHOWN as usize) as u64,
                };
                Call::Partial(len, rng.range(0, 12), true)
            } else {
                let len = match rng.below(3) {
                    0 => (u32::MAX as u64).wrapping_sub(rng.below(4) as u64).wrapping_add(rng.below(4) as u64),
                    1 => (1u64 << 32) + rng.below(1000) as u64,
                    _ => (1u64 << 33) + (rng.next_u64() >> 30),
                };
                Call::Partial(len, rng.range(0, 6), false)
            }
        }
    }
}

fn gen_rng_case(rng: &mut Rng) -> Val {
    let seed = match rng.below(12) {
        0 => 0,
        1 => 1,
        2 => 22,
        3 => 1u64 << 63,
        4 => u64::MAX,
        5 => rng.below(1000) as u64,
        _ => rng.next_u64(),
    };
    let n = if rng.chance(1, 10) { rng.range(1, 3) } else { rng.range(1, 40) };
    let mut script: Vec<Call> = vec![];
    // sometimes start just before the end of the 64-word buffer so that u64 draws straddle it
    if rng.chance(1, 4) {
        let k = if rng.chance(1, 3) { 63 } else { rng.range(57, 63) };
        for _ in 0..k {
            script.push(Call::U32);
        }
    }
    // a run of one kind now and then (rejections and re-draws are rare events per call)
    let mono = if rng.chance(1, 5) { Some(gen_call(rng)) } else { None };
    for _ in 0..n {
        script.push(match &mono {
            Some(c) if rng.chance(3, 4) => match c {
                Call::Range(_) => Call::Range(gen_bound(rng)),
                Call::WeightedN(ws) if rng.chance(1, 2) => Call::WeightedN(ws.clone()),
                other => other.clone(),
            },
            _ => gen_call(rng),
        });
    }
    script.truncate(100);
    rng_case(seed, &script)
}

fn rng_case(seed: u64, script: &[Call]) -> Val {
    Val::L(vec![Val::I(3), hl(seed), Val::L(script.iter().map(call_val).collect()), Val::L(vec![])])
}

fn run_rng_case(input: &Val) -> Option<(Val, Vec<String>)> {
    let l = input.as_l()?;
    if l.len() != 4 || !l[3].as_l()?.is_empty() {
        return None;
    }
    let seed = un_hl(&l[1])?;
    let script: Vec<Call> = l[2].as_l()?.iter().map(val_call).collect::<Option<Vec<Call>>>()?;
    if script.len() > 200 {
        return None;
    }
    let mut tags = vec!["rng".to_string()];
    let out = rng_script(seed, &script, &mut tags);
    let samplers = script
        .iter()
        .filter(|c| matches!(c, Call::Range(_) | Call::Shuffle(_) | Call::WeightedN(_) | Call::WeightedF(_) | Call::Partial(..) | Call::UniformF(_)))
        .count();
    if script.len() >= 3 && samplers >= 1 {
        tags.push("nt".into());
    }
    Some((out, tags))
}

/// repair a (shrunk / hand-written) rng case: drop calls that cannot be read, clamp fields
fn canon_rng_case(input: &Val) -> Option<Val> {
    let l = input.as_l()?;
    if l.len() != 4 {
        return None;
    }
    let fix_hl = |v: &Val| -> Val {
        let h = v.nth(0).and_then(|x| x.as_i()).unwrap_or(0).rem_euclid(1 << 32);
        let lo = v.nth(1).and_then(|x| x.as_i()).unwrap_or(0).rem_euclid(1 << 32);
        Val::L(vec![Val::I(h), Val::I(lo)])
    };
    let seed = fix_hl(&l[1]);
    let mut script = vec![];
    for c in l[2].as_l()? {
        let Some(cl) = c.as_l() else { continue };
        let kind = cl.first().and_then(|x| x.as_i()).unwrap_or(0).rem_euclid(10);
        let arg = |k: usize| cl.get(k).cloned().unwrap_or(Val::L(vec![]));
        let num = |k: usize, m: i64| Val::I(cl.get(k).and_then(|x| x.as_i()).unwrap_or(0).rem_euclid(m));
        let fixed = match kind {
            0..=2 => Val::L(vec![Val::I(kind)]),
            3 => Val::L(vec![Val::I(3), fix_hl(&arg(1))]),
            4 => Val::L(vec![Val::I(4), num(1, MAX_SHUFFLE as i64 + 1)]),
            5 => Val::L(vec![
                Val::I(5),
                Val::L(arg(1).as_l().unwrap_or(&[]).iter().take(16).map(fix_hl).collect()),
            ]),
            6 => Val::L(vec![
                Val::I(6),
                Val::L(
                    arg(1)
                        .as_l()
                        .unwrap_or(&[])
                        .iter()
                        .take(16)
                        .map(|w| val_f64(w).map(f64_val).unwrap_or_else(|| f64_val(0.0)))
                        .collect(),
                ),
            ]),
            7 => Val::L(vec![Val::I(7), fix_hl(&arg(1)), num(2, 16)]),
            9 => Val::L(vec![
                Val::I(9),
                val_f64(&arg(1)).filter(|x| !x.is_nan()).map(f64_val).unwrap_or_else(|| f64_val(1.0)),
            ]),
            _ => {
                let show = cl.get(3).and_then(|x| x.as_bool()).unwrap_or(true);
                let len = un_hl(&fix_hl(&arg(1))).unwrap_or(0);
                let len = if show { len.min(MAX_PARTIAL_SHOWN) } else { len.min(1 << 40) };
                Val::L(vec![Val::I(8), hl(len), num(2, 65), Val::b(show)])
            }
        };
        script.push(fixed);
    }
    Some(Val::L(vec![Val::I(3), seed, Val::L(script), Val::L(vec![])]))
}

type Srcs = Vec<Vec<(i64, i64)>>;

fn parse_input(input: &Val) -> Option<(i64, u64, Srcs)> {
    let l = input.as_l()?;
    if l.len() != 4 {
        return None;
    }
    let strat = l[0].as_i()?;
    let seed = u64::try_from(l[1].as_i()?).ok()?;
    let mut srcs = vec![];
    for s in l[2].as_l()? {
        let mut v = vec![];
        for it in s.as_l()? {
            v.push((it.nth(0)?.as_i()?, it.nth(1)?.as_i()?));
        }
        srcs.push(v);
    }
    l[3].as_l()?;
    Some((strat, seed, srcs))
}

impl C07 {
    fn new() -> Self {
        let run_mode = std::env::args().nth(1).as_deref() == Some("run");
        let dir = PathBuf::from(format!("/tmp/c07/h{}", std::process::id()));
        let _ = std::fs::create_dir_all(&dir);
        let child = std::env::var("C07_CHILD").is_ok();
        C07 { dir, run_mode, child, hung: false }
    }

    fn write_files(&self, srcs: &Srcs) -> Option<Vec<PathBuf>> {
        let mut files = vec![];
        for (j, s) in srcs.iter().enumerate() {
            let p = self.dir.join(format!("{j}.jsonl"));
            let mut f = std::io::BufWriter::new(std::fs::File::create(&p).ok()?);
            for (kind, id) in s {
                let eol = if *kind == 2 { "\r\n" } else { "\n" };
                write!(f, "{}{}", line(*kind, *id), eol).ok()?;
            }
            f.flush().ok()?;
            files.push(p);
        }
        Some(files)
    }

    /// one watched drain -> (output, a helper thread is stuck). A timeout is confirmed once
    /// with a longer limit so that a loaded machine cannot produce a false hang; endless
    /// pulling of an exhausted source is reported as a hang at once (no thread stays behind).
    fn watched(&self, files: &[PathBuf], strat: i64, seed: u64, cap: usize) -> (Val, bool) {
        let spin = Val::L(vec![Val::I(-778), Val::I(0)]);
        let f1 = files.to_vec();
        let v = with_timeout(TIMEOUT_MS, move || drain_caught(&f1, strat, seed, cap));
        if v == spin {
            return (Val::hang(), false);
        }
        if !is_hang(&v) {
            return (v, false);
        }
        let f2 = files.to_vec();
        let confirm = if self.child { CHILD_CONFIRM_MS } else { CONFIRM_MS };
        let v = with_timeout(confirm, move || drain_caught(&f2, strat, seed, cap));
        if v == spin {
            return (Val::hang(), true);
        }
        let stuck = is_hang(&v);
        (v, stuck)
    }

    /// after a hang in `run` mode the remaining inputs go through a child process each,
    /// so that stuck helper threads do not pile up in this one
    fn run_via_child(&self, input: &Val) -> Option<(Val, Vec<String>)> {
        let exe = std::env::current_exe().ok()?;
        let mut child = std::process::Command::new(exe)
            .arg("run")
            .env("C07_CHILD", "1")
            .stdin(std::process::Stdio::piped())
            .stdout(std::process::Stdio::piped())
            .stderr(std::process::Stdio::null())
            .spawn()
            .ok()?;
        {
            let mut stdin = child.stdin.take()?;
            writeln!(stdin, "{}", input.to_sexp()).ok()?;
        }
        let out = child.wait_with_output().ok()?;
        let text = String::from_utf8_lossy(&out.stdout);
        let first = text.lines().next()?;
        let mut parts = first.split('\t');
        let o = parts.next()?;
        if o == "INVALID" {
            return None;
        }
        let tags = parts
            .next()
            .map(|t| t.split(',').filter(|s| !s.is_empty()).map(|s| s.to_string()).collect())
            .unwrap_or_default();
        Some((Val::parse(o)?, tags))
    }

    fn tags(strat: i64, srcs: &Srcs) -> Vec<String> {
        let mut tags = vec![match strat {
            1 => "interleaved",
            2 => "weighted",
            _ => "sequential",
        }
        .to_string()];
        let lens: Vec<usize> = srcs.iter().map(|s| s.len()).collect();
        let (mn, mx) = (*lens.iter().min().unwrap(), *lens.iter().max().unwrap());
        if lens.len() == 1 {
            tags.push("single".into());
        }
        if mn == 0 {
            tags.push("empty-src".into());
        }
        if srcs.iter().flatten().any(|(k, _)| !kind_ok(*k)) {
            tags.push("err-items".into());
        }
        // a source runs dry while another still has at least two items to go, or a
        // single source with at least two items: the selection after exhaustion is exercised
        if (lens.len() >= 2 && mx >= mn + 2) || (lens.len() == 1 && mx >= 2) {
            tags.push("nt".into());
        }
        tags
    }
}

impl Drop for C07 {
    fn drop(&mut self) {
        let _ = std::fs::remove_dir_all(&self.dir);
    }
}

fn gen_source(rng: &mut Rng, j: usize, len: usize, malformed: bool) -> Val {
    Val::L(
        (0..len)
            .map(|k| {
                let kind = if malformed && rng.chance(1, 3) {
                    rng.range(3, 7) as i64
                } else {
                    *rng.pick(&[0, 0, 0, 1, 2])
                };
                Val::L(vec![Val::I(kind), Val::I((j * 1000 + k) as i64)])
            })
            .collect(),
    )
}

fn case(strat: i64, seed: u64, lens: &[usize], rng: &mut Rng, malformed: bool) -> Val {
    let total: usize = lens.iter().sum();
    let srcs: Vec<Val> = lens
        .iter()
        .enumerate()
        .map(|(j, l)| gen_source(rng, j, *l, malformed))
        .collect();
    let orc: Vec<Val> = (0..total + lens.len() + 2).map(|_| Val::u(rng.below(6))).collect();
    Val::L(vec![Val::I(strat), Val::I(seed as i64), Val::L(srcs), Val::L(orc)])
}

impl Prop for C07 {
    fn gen(&mut self, rng: &mut Rng, tier: Tier, _i: usize, _n: usize) -> Val {
        // rng scripts: 30 % of the quick tier, 70 % of the thorough tier
        if rng.chance(if tier == Tier::Thorough { 7 } else { 3 }, 10) {
            return gen_rng_case(rng);
        }
        let strat = rng.below(3) as i64;
        let seed = match rng.below(8) {
            0 => 0,
            1 => rng.below(4) as u64,
            _ => rng.next_u64() >> 3,
        };
        let big = if tier == Tier::Thorough { 24 } else { 12 };
        let stream = rng.below(100);
        let lens: Vec<usize> = if stream < 15 {
            // a single source
            vec![rng.below(7)]
        } else if stream < 45 {
            // short sources, empties only by chance for the weighted strategy
            let n = rng.range(2, 5);
            let lo = if strat == 2 && !rng.chance(1, 8) { 1 } else { 0 };
            (0..n).map(|_| rng.range(lo, 4)).collect()
        } else if stream < 70 {
            // one or two long sources among short ones: long tail on few unfinished sources
            let n = rng.range(2, 5);
            let lo = if strat == 2 { 1 } else { 0 };
            let mut l: Vec<usize> = (0..n).map(|_| rng.range(lo, 2)).collect();
            let k = rng.below(n);
            l[k] = rng.range(3, big);
            if rng.chance(1, 3) {
                let k2 = rng.below(n);
                l[k2] = rng.range(3, big);
            }
            l
        } else if stream < 80 {
            // all equal
            let n = rng.range(2, 5);
            let len = rng.range(if strat == 2 { 1 } else { 0 }, 5);
            vec![len; n]
        } else if stream < 90 {
            // staircase, ascending or descending
            let n = rng.range(2, 6);
            let mut l: Vec<usize> = (0..n).map(|k| k + if strat == 2 { 1 } else { 0 }).collect();
            if rng.chance(1, 2) {
                l.reverse();
            }
            l
        } else {
            // edge: many empties, also for weighted (constructor error)
            let n = rng.range(1, 6);
            (0..n).map(|_| if rng.chance(1, 2) { 0 } else { rng.range(1, 3) }).collect()
        };
        let malformed = rng.chance(1, 4);
        case(strat, seed, &lens, rng, malformed)
    }

    fn exhaustive(&mut self, _tier: Tier) -> Vec<Val> {
        // every length vector of <= 3 sources with lengths <= 4 and of 4 sources with
        // lengths <= 3, all strategies (weighted with three seeds)
        let mut rng = Rng::new(7);
        let mut all = vec![];
        let mut vecs: Vec<Vec<usize>> = vec![];
        for n in 1..=4usize {
            let m: usize = if n == 4 { 4 } else { 5 };
            let count = m.pow(n as u32);
            for code in 0..count {
                let mut c = code;
                let mut v = vec![];
                for _ in 0..n {
                    v.push(c % m);
                    c /= m;
                }
                vecs.push(v);
            }
        }
        for v in &vecs {
            for strat in 0..3i64 {
                let seeds: &[u64] = if strat == 2 { &[0, 1, 2] } else { &[0] };
                for s in seeds {
                    all.push(case(strat, *s, v, &mut rng, false));
                }
            }
        }
        all
    }

    fn run(&mut self, input: &Val) -> Option<(Val, Vec<String>)> {
        if input.nth(0).and_then(|v| v.as_i()) == Some(3) {
            return run_rng_case(input);
        }
        let (strat, seed, srcs) = parse_input(input)?;
        if !(0..3).contains(&strat) || srcs.is_empty() || srcs.len() > 8 {
            return None; // the callers of the generator refuse an empty file list
        }
        if srcs.iter().any(|s| s.len() > 64) || seed >= 1 << 62 {
            return None;
        }
        // ids must be unique and kinds known (canon establishes both)
        let mut seen = std::collections::HashSet::new();
        for (k, id) in srcs.iter().flatten() {
            if !(0..KINDS).contains(k) || *id < 0 || !seen.insert(*id) {
                return None;
            }
        }
        if self.hung {
            if self.run_mode {
                return self.run_via_child(input);
            }
            // gen mode: one stuck helper thread is enough, stop exploring in this process
            return None;
        }
        let files = self.write_files(&srcs)?;
        let total: usize = srcs.iter().map(|s| s.len()).sum();
        let cap = total + srcs.len() + 4;
        let tags = C07::tags(strat, &srcs);
        let (first, stuck) = self.watched(&files, strat, seed, cap);
        self.hung |= stuck;
        if is_hang(&first) {
            return Some((first, tags));
        }
        let l = first.as_l()?;
        if l.first() != Some(&Val::I(1)) {
            return Some((first.clone(), tags));
        }
        let (second, stuck) = self.watched(&files, strat, seed, cap);
        self.hung |= stuck;
        if is_hang(&second) {
            return Some((second, tags));
        }
        let rep = second == first;
        Some((
            Val::L(vec![Val::I(1), l[1].clone(), Val::b(rep), l[2].clone()]),
            tags,
        ))
    }

    fn canon(&mut self, input: &Val) -> Option<Val> {
        let l = input.as_l()?;
        if l.len() != 4 {
            return None;
        }
        if l[0].as_i() == Some(3) {
            return canon_rng_case(input);
        }
        let strat = l[0].as_i()?.rem_euclid(3);
        let seed = l[1].as_i()?.unsigned_abs() & ((1 << 62) - 1);
        let mut srcs = vec![];
        for (j, s) in l[2].as_l()?.iter().enumerate() {
            let items: Vec<Val> = s
                .as_l()?
                .iter()
                .enumerate()
                .map(|(k, it)| {
                    let kind = it.nth(0).and_then(|v| v.as_i()).unwrap_or(0).rem_euclid(KINDS);
                    Val::L(vec![Val::I(kind), Val::I((j * 1000 + k) as i64)])
                })
                .collect();
            srcs.push(Val::L(items));
        }
        let orc: Vec<Val> = l[3]
            .as_l()?
            .iter()
            .map(|v| Val::I(v.as_i().unwrap_or(0).rem_euclid(64)))
            .collect();
        Some(Val::L(vec![Val::I(strat), Val::I(seed as i64), Val::L(srcs), Val::L(orc)]))
    }

    fn selfcheck(&mut self) -> Vec<String> {
        let mut errs = vec![];
        // (1) the item encoding the model is given is what a single real generator yields
        let src: Vec<(i64, i64)> = (0..KINDS).map(|k| (k, 100 + k)).collect();
        let Some(files) = self.write_files(&vec![src.clone()]) else {
            return vec!["cannot write under /tmp/c07".into()];
        };
        match train_data_generator_from_jsonl(&files[0]) {
            Ok(g) => {
                if g.len() != src.len() {
                    errs.push(format!("single generator len() = {} for {} lines", g.len(), src.len()));
                }
                let got: Vec<(bool, i64)> = g.map(|d| decode(&d)).collect();
                let want: Vec<(bool, i64)> = src.iter().map(|(k, id)| (kind_ok(*k), *id)).collect();
                if got != want {
                    errs.push(format!("single generator yields {got:?}, expected {want:?}"));
                }
            }
            Err(e) => errs.push(format!("cannot open generator: {e}")),
        }
        // (2) different seeds give different weighted streams sometimes
        let srcs: Srcs = (0..3).map(|j| (0..4).map(|k| (0, j * 1000 + k)).collect()).collect();
        if let Some(files) = self.write_files(&srcs) {
            let mut distinct = std::collections::HashSet::new();
            for seed in 0..16u64 {
                distinct.insert(self.watched(&files, 2, seed, 40).0.to_sexp());
            }
            if distinct.len() < 2 {
                errs.push("weighted: 16 seeds gave one and the same stream".into());
            }
        }
        errs
    }
}

fn main() {
    main_loop(C07::new());
}

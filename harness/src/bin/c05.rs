//! C05: the real threaded Pipe under controlled schedules (mode 0) and free-running
//! with per-item delays (mode 1), against the Pipe LTS model.
//! input  = (mode xs W choices)      output = (events out ended counts)
//! mode 2 = free-running in a child process that may use ONE cpu only (sched_setaffinity): what the crate derives
//! from the machine (available parallelism, core counts) must not change what the pipe delivers
use vh::sched::*;
use vh::*;

struct C05;

fn out_val(r: &PipeRun) -> Val {
    if r.hang {
        return Val::hang();
    }
    Val::L(vec![
        r.events_val(),
        Val::list(r.out.iter(), |x| Val::I(*x)),
        Val::b(r.ended),
        Val::list(r.counts.iter(), |c| Val::u(*c)),
    ])
}

impl Prop for C05 {
    fn gen(&mut self, rng: &mut Rng, tier: Tier, _i: usize, _n: usize) -> Val {
        let mode = if rng.chance(3, 4) { 0 } else { 1 };
        let maxn = if tier == Tier::Thorough { 12 } else { 8 };
        let n = match rng.below(10) {
            0 => 0,
            1 => 1,
            _ => rng.range(0, maxn),
        };
        let xs: Vec<Val> = (0..n).map(|_| Val::I(rng.below(50) as i64)).collect();
        let w = if mode == 0 { rng.range(1, 4) } else { rng.range(0, 4) };
        let choices: Vec<Val> = if mode == 0 {
            // biased schedules: long stretches favouring one actor expose the rare windows
            // (all computed out of order, channel full, sender between send and advance)
            let len = rng.range(0, 12 * n + 8);
            let style = rng.below(4);
            let mut fav = rng.below(w + 2);
            (0..len)
                .map(|_| {
                    if style == 0 || rng.chance(1, 4) {
                        fav = rng.below(64);
                    }
                    Val::u(if style == 3 { rng.below(64) } else { fav })
                })
                .collect()
        } else {
            (0..rng.range(1, 4)).map(|_| Val::u(rng.below(300))).collect()
        };
        if _i == 1 && _n > 2 {
            // many workers (more than any fixed small table, ring or channel bound a refactoring might introduce):
            // a slow first item keeps W tickets in flight while the fast ones queue up behind it
            let w = 17 + rng.below(8) + if rng.chance(1, 4) { 16 } else { 0 };
            let n = 2 * w + rng.below(10);
            let xs: Vec<Val> = (0..n).map(|k| Val::I(k as i64)).collect();
            let delays: Vec<Val> = (0..n).map(|k| Val::u(if k == 0 { 30_000 } else { 0 })).collect();
            return Val::L(vec![Val::I(1), Val::L(xs), Val::u(w), Val::L(delays)]);
        }
        if _i == 2 && _n > 3 {
            let n = rng.range(0, 12);
            let xs: Vec<Val> = (0..n).map(|_| Val::I(rng.below(50) as i64)).collect();
            return Val::L(vec![Val::I(2), Val::L(xs), Val::u(rng.range(0, 4)), Val::L(vec![])]);
        }
        if _i == 0 && _n > 1 {
            // "every relative processing speed": one free-running case per shard in which a single item takes
            // seconds while the others are instant (a consumer-side or worker-side timeout would cut the stream
            // or reorder it). One delay per item; microseconds.
            let n = rng.range(3, 6);
            let slow = rng.below(n - 1);
            let secs = if tier == Tier::Thorough { 7_500_000 } else { 3_200_000 };
            let xs: Vec<Val> = (0..n).map(|k| Val::I(k as i64)).collect();
            let delays: Vec<Val> = (0..n).map(|k| Val::u(if k == slow { secs } else { 0 })).collect();
            return Val::L(vec![Val::I(1), Val::L(xs), Val::u(rng.range(1, 3)), Val::L(delays)]);
        }
        Val::L(vec![Val::I(mode), Val::L(xs), Val::u(w), Val::L(choices)])
    }

    fn exhaustive(&mut self, tier: Tier) -> Vec<Val> {
        self.exhaustive_shard(tier, 0, 1).unwrap_or_default()
    }

    /// every maximal schedule (modulo stutters) of the REAL threads for tiny shapes, found by
    /// stateless depth-first re-execution; (1,2), (1,3), (2,2) completely, larger shapes up to a cap
    fn exhaustive_shard(&mut self, _tier: Tier, k: usize, m: usize) -> Option<Vec<Val>> {
        let mut v = vec![];
        for (n, w, cap) in [(1usize, 2usize, 100_000usize), (1, 3, 100_000), (2, 2, 100_000), (3, 2, 40_000), (2, 3, 40_000)] {
            let xs: Vec<i64> = (0..n).map(|i| i as i64 + 5).collect();
            for ch in enumerate_pipe_schedules_shard(&xs, w, None, cap / m + 1, k, m) {
                v.push(Val::L(vec![
                    Val::I(0),
                    Val::L(xs.iter().map(|x| Val::I(*x)).collect()),
                    Val::u(w),
                    Val::L(ch.into_iter().map(Val::u).collect()),
                ]));
            }
        }
        Some(v)
    }

    fn run(&mut self, input: &Val) -> Option<(Val, Vec<String>)> {
        let l = input.as_l()?;
        if l.len() != 4 {
            return None;
        }
        let mode = l[0].as_i()?;
        let xs: Vec<i64> = l[1].as_l()?.iter().map(|v| v.as_i()).collect::<Option<_>>()?;
        let w = l[2].as_usize()?;
        let choices: Vec<usize> = l[3].as_l()?.iter().map(|v| v.as_usize()).collect::<Option<_>>()?;
        if xs.len() > 128 || w > 64 || (mode == 0 && w > 8) || xs.iter().any(|x| x.abs() > 1 << 40) {
            return None;
        }
        let mut tags = vec![format!("mode{mode}"), format!("w{w}")];
        let r = match mode {
            0 => {
                if w == 0 {
                    return None;
                }
                let r = run_pipe_controlled(&xs, w, &choices, None);
                // non-trivial: some worker had to spin (items computed out of order) or the channel filled up
                let spun = r.events.iter().any(|e| e[1] == 4);
                if spun {
                    tags.push("spin".into());
                }
                if spun && xs.len() >= 2 && w >= 2 {
                    tags.push("nt".into());
                }
                r
            }
            1 => {
                let delays: Vec<u64> = choices.iter().map(|c| *c as u64).collect();
                let r = run_pipe_free(&xs, w, &delays);
                if xs.len() >= 2 && w >= 2 {
                    tags.push("nt".into());
                }
                if delays.iter().any(|d| *d >= 1_000_000) {
                    tags.push("slow-item".into());
                }
                if w > 16 {
                    tags.push("many-workers".into());
                }
                r
            }
            2 => {
                tags.push("one-cpu".into());
                if xs.len() >= 2 && w >= 2 {
                    tags.push("nt".into());
                }
                return Some((run_onecpu_child(&xs, w), tags));
            }
            _ => return None,
        };
        Some((out_val(&r), tags))
    }
}

extern "C" {
    fn sched_getaffinity(pid: i32, cpusetsize: usize, mask: *mut u64) -> i32;
    fn sched_setaffinity(pid: i32, cpusetsize: usize, mask: *const u64) -> i32;
}

/// restrict the calling thread (and the threads it spawns afterwards) to the first cpu it is allowed to use
fn pin_to_one_cpu() -> bool {
    let mut mask = [0u64; 16];
    unsafe {
        if sched_getaffinity(0, std::mem::size_of_val(&mask), mask.as_mut_ptr()) != 0 {
            return false;
        }
    }
    let Some((wi, word)) = mask.iter().enumerate().find(|(_, w)| **w != 0) else { return false };
    let bit = word.trailing_zeros();
    let mut one = [0u64; 16];
    one[wi] = 1u64 << bit;
    unsafe { sched_setaffinity(0, std::mem::size_of_val(&one), one.as_ptr()) == 0 }
}

/// child body: `c05 child-onecpu W x0 x1 ...` prints `(() out ended counts)`
fn onecpu_child(w: usize, xs: Vec<i64>) -> ! {
    use std::sync::atomic::{AtomicUsize, Ordering};
    use std::sync::Arc;
    use text_utils::data::loading::PipelineIterator;
    if !pin_to_one_cpu() {
        std::process::exit(5);
    }
    let limit = 20 * vh::patience();
    std::thread::spawn(move || {
        std::thread::sleep(std::time::Duration::from_secs(limit));
        std::process::exit(3);
    });
    let n = xs.len();
    let counts: Arc<Vec<AtomicUsize>> = Arc::new((0..n).map(|_| AtomicUsize::new(0)).collect());
    let c2 = counts.clone();
    let pipeline: text_utils::data::Pipeline<(usize, i64), i64> = Arc::new(move |(i, x)| {
        c2[i].fetch_add(1, Ordering::SeqCst);
        f_model(x)
    });
    let out: Vec<i64> = xs.into_iter().enumerate().pipe(pipeline, w as u8).collect();
    let v = Val::L(vec![
        Val::L(vec![]),
        Val::list(out.iter(), |x| Val::I(*x)),
        Val::b(true),
        Val::list(counts.iter(), |c| Val::u(c.load(Ordering::SeqCst))),
    ]);
    println!("{}", v.to_sexp());
    std::process::exit(0)
}

fn run_onecpu_child(xs: &[i64], w: usize) -> Val {
    let Ok(exe) = std::env::current_exe() else { return Val::hang() };
    let mut args = vec!["child-onecpu".to_string(), w.to_string()];
    args.extend(xs.iter().map(|x| x.to_string()));
    let out = std::process::Command::new(exe)
        .args(&args)
        .stdin(std::process::Stdio::null())
        .stderr(std::process::Stdio::null())
        .output();
    match out {
        Ok(o) if o.status.code() == Some(0) => {
            Val::parse(String::from_utf8_lossy(&o.stdout).trim()).unwrap_or(Val::L(vec![Val::I(-5)]))
        }
        // 3 = the child's own watchdog: the pipe did not deliver and end within the limit
        Ok(o) if o.status.code() == Some(3) => Val::hang(),
        // 5 = affinity calls not permitted here: nothing to judge (the output of a correct run)
        Ok(o) if o.status.code() == Some(5) => Val::L(vec![
            Val::L(vec![]),
            Val::list(xs.iter(), |x| Val::I(f_model(*x))),
            Val::b(true),
            Val::list(xs.iter(), |_| Val::u(1)),
        ]),
        // anything else (exit 1 from the panic hook, a signal): not the output of a sequential map
        _ => Val::L(vec![Val::I(-6)]),
    }
}

fn main() {
    let args: Vec<String> = std::env::args().collect();
    if args.get(1).map(|s| s.as_str()) == Some("child-onecpu") {
        let w: usize = args.get(2).and_then(|s| s.parse().ok()).unwrap_or(1);
        let xs: Vec<i64> = args.iter().skip(3).filter_map(|s| s.parse().ok()).collect();
        onecpu_child(w, xs);
    }
    if args.get(1).map(|s| s.as_str()) == Some("count-schedules") {
        let g = |i: usize| args.get(i).and_then(|s| s.parse::<usize>().ok()).unwrap_or(0);
        let xs: Vec<i64> = (0..g(2)).map(|i| i as i64 + 5).collect();
        let t0 = std::time::Instant::now();
        let s = enumerate_pipe_schedules(&xs, g(3), None, g(4));
        println!("n={} w={} schedules={} in {:?}", g(2), g(3), s.len(), t0.elapsed());
        return;
    }
    main_loop(C05);
}

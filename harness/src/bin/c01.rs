//! C01: byte and character tokenizers (tokenize / de_tokenize) against the model.
//! input  = (kind g groups padto tokens pad prefix suffix unk alphabet s ign oracle decs)
//! output = (0) constructor error | (1 ids? dec_keep? dec_ign? dec_body? (extra? ...))
#[path = "../tok_common.rs"]
mod tc;
use tc::*;
use vh::*;

struct C01 {
    alpha: Vec<char>,
}

fn opt_str(r: anyhow::Result<String>) -> Val {
    Val::opt(r.ok(), |s| Val::str(&s))
}

fn build_input(cfg: &TokCfg, alpha: &[char], s: &str, ign: bool, decs: Val) -> Val {
    let mut l = cfg.to_vals(alpha);
    l.push(Val::str(s));
    l.push(Val::b(ign));
    l.push(oracle(cfg, s, ign));
    l.push(decs);
    Val::L(l)
}

fn gen_decs(rng: &mut Rng, cfg: &TokCfg, alpha: &[char]) -> Val {
    let n = match rng.below(4) {
        0 => 0,
        1 => 1,
        _ => rng.below(4),
    };
    let n_special = cfg.all_tokens().len();
    let first_special = if cfg.is_char { alpha.len() } else { 256 };
    let vs = first_special + n_special;
    let mut out = vec![];
    for _ in 0..n {
        let m = rng.below(9);
        let mut ids: Vec<u32> = vec![];
        let arbitrary = rng.chance(1, 4);
        for _ in 0..m {
            let k = rng.below(10);
            if arbitrary {
                ids.push(rng.below(vs + 4) as u32);
            } else if k < 5 {
                if cfg.is_char {
                    ids.push(rng.below(first_special.max(1)) as u32);
                } else {
                    // the bytes of a whole character
                    let u = if rng.chance(1, 2) { *rng.pick(units::MULTI) } else { *rng.pick(units::ASCII) };
                    ids.extend(u.bytes().map(|b| b as u32));
                }
            } else if k < 8 {
                ids.push((first_special + rng.below(n_special.max(1))) as u32);
            } else if k < 9 {
                ids.push((vs + rng.below(3)) as u32);
            } else {
                ids.push(rng.below(vs + 4) as u32);
            }
        }
        out.push(Val::L(vec![ids_val(&ids), Val::b(rng.chance(1, 3))]));
    }
    Val::L(out)
}

impl Prop for C01 {
    fn gen(&mut self, rng: &mut Rng, tier: Tier, _i: usize, _n: usize) -> Val {
        let is_char = rng.chance(2, 5);
        let cfg = gen_cfg(rng, is_char);
        let max_units = if tier == Tier::Thorough && rng.chance(1, 10) { 60 } else { 24 };
        let s = gen_text(rng, &cfg, max_units, &self.alpha);
        let ign = rng.chance(1, 3);
        let decs = gen_decs(rng, &cfg, &self.alpha);
        build_input(&cfg, &self.alpha, &s, ign, decs)
    }

    fn exhaustive(&mut self, _tier: Tier) -> Vec<Val> {
        // all strings of length <= 4 over a 9-unit alphabet for three fixed configs
        let units9: [&str; 9] = ["a", "<", ">", "pad", "<pad>", "ä", "e\u{301}", "€", "\r\n"];
        let base = TokCfg {
            is_char: false,
            g: true,
            code_point_groups: false,
            padto: None,
            tokens: vec!["<unk>".into(), "<bos>".into(), "<eos>".into(), "<pad>".into()],
            pad: "<pad>".into(),
            prefix: vec![],
            suffix: vec![],
            unk: "<unk>".into(),
        };
        let mut c2 = base.clone();
        c2.prefix = vec!["<bos>".into()];
        c2.suffix = vec!["<eos>".into(), "<pad>".into()];
        c2.padto = Some(8);
        let mut c3 = base.clone();
        c3.is_char = true;
        c3.prefix = vec!["<bos>".into()];
        let cfgs = [base, c2, c3];
        let mut out = vec![];
        let mut idx = vec![0usize; 0];
        loop {
            let s: String = idx.iter().map(|&i| units9[i]).collect();
            for cfg in &cfgs {
                for ign in [false, true] {
                    out.push(build_input(cfg, &self.alpha, &s, ign, Val::L(vec![])));
                }
            }
            // next index vector (length-lexicographic)
            let mut k = idx.len();
            loop {
                if k == 0 {
                    idx = vec![0; idx.len() + 1];
                    break;
                }
                k -= 1;
                if idx[k] + 1 < units9.len() {
                    idx[k] += 1;
                    for j in k + 1..idx.len() {
                        idx[j] = 0;
                    }
                    break;
                }
            }
            if idx.len() > 4 {
                break;
            }
        }
        out
    }

    fn run(&mut self, input: &Val) -> Option<(Val, Vec<String>)> {
        let l = input.as_l()?;
        if l.len() != 14 {
            return None;
        }
        let cfg = TokCfg::from_vals(l)?;
        let s = l[10].to_string_lossy()?;
        let ign = l[11].as_bool()?;
        // dependent fields must be what the crate gives
        let want_alpha = if cfg.is_char { Val::L(self.alpha.iter().map(|c| Val::I(*c as i64)).collect()) } else { Val::L(vec![]) };
        if l[9] != want_alpha || l[12] != oracle(&cfg, &s, ign) {
            return None;
        }
        let decs: Vec<(Vec<u32>, bool)> = l[13]
            .as_l()?
            .iter()
            .map(|d| Some((val_ids(d.nth(0)?)?, d.nth(1)?.as_bool()?)))
            .collect::<Option<_>>()?;
        let cfg2 = cfg.clone();
        let s2 = s.clone();
        let mut parsed_special = false;
        let out = guard(move || {
            let tok = match cfg2.build() {
                Ok(t) => t,
                Err(_) => return Val::L(vec![Val::I(0)]),
            };
            let t = tok.tokenize(&s2, ign).ok();
            let np = tok.num_prefix_tokens();
            let ns = tok.num_suffix_tokens();
            let (ids, dk, di, db) = match &t {
                Some(t) => {
                    let ids = &t.token_ids;
                    let lo = np.min(ids.len());
                    let hi = ids.len().saturating_sub(ns).max(lo);
                    (
                        Val::some(ids_val(ids)),
                        opt_str(tok.de_tokenize(ids, false)),
                        opt_str(tok.de_tokenize(ids, true)),
                        opt_str(tok.de_tokenize(&ids[lo..hi], false)),
                    )
                }
                None => (Val::none(), Val::none(), Val::none(), Val::none()),
            };
            let extras = Val::list(decs.iter(), |(ids, ig)| opt_str(tok.de_tokenize(ids, *ig)));
            Val::L(vec![Val::I(1), ids, dk, di, db, extras])
        });
        let mut tags = vec![];
        tags.push(if cfg.is_char { "char" } else { "byte" }.to_string());
        tags.push(if ign { "ign" } else { "parse" }.to_string());
        if cfg.g {
            tags.push("g".into());
        }
        let ctor_ok = out.nth(0).and_then(|v| v.as_i()) == Some(1);
        if !ctor_ok {
            tags.push("ctor-err".into());
        }
        let pf = cfg.prefix_free();
        if !pf {
            tags.push("overlap".into());
        }
        if !ign {
            let toks = cfg.all_tokens();
            parsed_special = ref_split(&toks, &s, false).iter().any(|g| matches!(g, Seg::Spec(_)));
            if parsed_special {
                tags.push("special-in-text".into());
            }
        }
        if !cfg.prefix.is_empty() || !cfg.suffix.is_empty() {
            tags.push("presuf".into());
        }
        let multi = s.chars().any(|c| c.len_utf8() > 1);
        if ctor_ok && !s.is_empty() && (parsed_special || multi) {
            tags.push("nt".into());
        }
        Some((out, tags))
    }

    fn canon(&mut self, input: &Val) -> Option<Val> {
        let l = input.as_l()?;
        if l.len() != 14 {
            return None;
        }
        let cfg = TokCfg::from_vals(l)?;
        let s = l[10].to_string_lossy()?;
        let ign = l[11].as_bool()?;
        Some(build_input(&cfg, &self.alpha, &s, ign, l[13].clone()))
    }
}

fn main() {
    let alpha = alphabet();
    main_loop(C01 { alpha });
}

//! C14: whitespace corruption and the labels of the whitespace-correction task,
//! through the public `preprocessing(WhitespaceCorruption)` and
//! `train_task(WhitespaceCorrection)`.
//! input  = (g text cseg seed ks iw dw np ns kf1 ss)
//!          text  clusters of the text (unicode-segmentation; compared with the model's `segment` by `agree`)
//!          cseg  clusters of the real corrupted text (the same; `()` if rejected)
//!          kf1   the known-finding class flag (below); ss = `corrupt_safe text` as evaluated by
//!                harness/src/seam.rs (compared with the model's `corrupt_safe` by `agree`)
//!          ks    the draws r*2^53 of ChaCha8Rng::seed_from_u64(seed), one per character
//!          iw dw numerators of the probabilities over 2^53 (clamped by the code)
//! output = (0) | (1 corrupted target (labels)? same-again)
use rand::{Rng as _, SeedableRng};
use rand_chacha::ChaCha8Rng;
use std::collections::HashMap;
use text_utils::data::preprocessing::{preprocessing, Part, PreprocessingFnConfig};
use text_utils::data::task::{train_task, TrainTaskConfig};
use text_utils::data::{TextDataInfo, TrainData, TrainTaskInput};
use text_utils::text::clean;
use text_utils::tokenization::{
    CharTokenizerConfig, SpecialConfig, TokenizeConfig, TokenizerConfig, BOS, EOS, PAD,
    SPECIAL_TOKENS, UNK,
};
use text_utils::unicode::CharString;
use vh::*;

#[path = "../seam.rs"]
mod seam;

struct C14;

const TWO53: f64 = 9007199254740992.0;

fn prob(n: i64) -> f64 {
    // exact for every numerator the generator uses (|n| <= 2^53, or a small multiple of 2^52)
    n as f64 / TWO53
}

fn draws(seed: u64, n: usize) -> Vec<i64> {
    let mut rng = ChaCha8Rng::seed_from_u64(seed);
    (0..n)
        .map(|_| {
            let r: f64 = rng.random();
            let k = r * TWO53;
            assert!(k.fract() == 0.0 && (0.0..TWO53).contains(&k));
            k as i64
        })
        .collect()
}

fn info(seed: u64) -> TextDataInfo {
    TextDataInfo {
        seed,
        file_idx: 0,
        marks: HashMap::new(),
    }
}

/// the real corruption: None = the configuration is rejected (constructor panics)
fn corrupt(text: &str, seed: u64, iw: i64, dw: i64, g: bool) -> Option<(String, String)> {
    let text = text.to_string();
    std::panic::catch_unwind(move || {
        let f = preprocessing(PreprocessingFnConfig::WhitespaceCorruption(
            Part::Input,
            prob(iw),
            prob(dw),
            g,
        ));
        let (item, _) = f(TrainData::new(text, None), info(seed)).expect("corruption failed");
        (item.verif_input().to_string(), item.verif_target().to_string())
    })
    .ok()
}

fn tokenizer_cfg(g: bool, np: usize, ns: usize) -> TokenizerConfig {
    TokenizerConfig {
        tokenize: TokenizeConfig::Character(CharTokenizerConfig {
            use_graphemes: g,
            unk_token: UNK.to_string(),
        }),
        special: SpecialConfig {
            pad: PAD.to_string(),
            tokens: SPECIAL_TOKENS.iter().map(|s| s.to_string()).collect(),
            prefix: vec![BOS.to_string(); np],
            suffix: vec![EOS.to_string(); ns],
        },
    }
}

fn is_mixed(c: &str) -> bool {
    let ws = c.chars().filter(|c| c.is_whitespace()).count();
    ws > 0 && ws < c.chars().count()
}

fn nonws_clusters(s: &str, g: bool) -> Vec<String> {
    vh::split_clusters(s, g)
        .filter(|c| !c.chars().all(|c| c.is_whitespace()))
        .map(|c| c.to_string())
        .collect()
}

fn word(rng: &mut Rng, _g: bool, seam: bool, ascii_only: bool) -> String {
    let n = rng.range(1, 4);
    let mut w = String::new();
    for _ in 0..n {
        let k = rng.below(12);
        let u = if ascii_only {
            *rng.pick(units::ASCII)
        } else if seam && k < 5 {
            *rng.pick(units::SEAM)
        } else if k < 7 {
            *rng.pick(units::ASCII)
        } else if k < 9 {
            *rng.pick(units::MULTI)
        } else if k < 10 {
            *rng.pick(units::COMBINING)
        } else if k < 11 {
            *rng.pick(units::ZW)
        } else {
            *rng.pick(units::ASCII)
        };
        if u.chars().all(|c| c.is_whitespace()) {
            continue;
        }
        w.push_str(u);
    }
    if w.is_empty() {
        w.push('a');
    }
    w
}

fn numerator(rng: &mut Rng) -> i64 {
    let one = 1i64 << 53;
    match rng.below(20) {
        0..=1 => 0,
        2..=3 => one,
        4..=8 => one / 2,
        9..=10 => one / 4,
        11 => one / 8 * 7,
        12 => 1,               // 2^-53: only the draw 0 is below
        13 => one - 1,
        14 => -(one / 2),      // clamped to 0
        15 => one * 2,         // clamped to 1
        16 => one / 2 * 3,     // 1.5 -> 1
        _ => (rng.next_u64() >> 11) as i64, // arbitrary multiple of 2^-53
    }
}

fn mk_input(text: &str, g: bool, seed: u64, iw: i64, dw: i64, np: usize, ns: usize) -> Val {
    let n = CharString::new(text, g).len();
    let ks = draws(seed, n);
    let (cseg, kf1) = match corrupt(text, seed, iw, dw, g) {
        Some((c, _)) => (Val::clusters(&c, g), kf1_class(text, &c, g)),
        None => (Val::L(vec![]), false),
    };
    let ss = g && seam::corrupt_safe(text);
    Val::L(vec![
        Val::b(g),
        Val::clusters(text, g),
        cseg,
        Val::I(seed as i64),
        Val::L(ks.into_iter().map(Val::I).collect()),
        Val::I(iw),
        Val::I(dw),
        Val::u(np),
        Val::u(ns),
        Val::b(kf1),
        Val::b(ss),
    ])
}

/// class KF1: the real segmentation of the corrupted text is not the text's non-whitespace
/// clusters plus whitespace clusters
fn kf1_class(text: &str, c: &str, g: bool) -> bool {
    g && (nonws_clusters(c, g) != nonws_clusters(text, g) || vh::split_clusters(c, g).any(is_mixed))
}

impl Prop for C14 {
    fn gen(&mut self, rng: &mut Rng, _tier: Tier, _i: usize, _n: usize) -> Val {
        let g = rng.chance(1, 2);
        let seam = g && rng.chance(1, 5);
        let stream = rng.below(100);
        let text = if g && stream < 12 {
            // seam probe: a pair of code points of random grapheme categories (biased to the edge of
            // `cf_break`), inside a word or across a word boundary, behind a text that sets up the
            // look-behind states of the segmenter
            let (a, b) = seam::seam_pair(rng);
            let (u, v) = (seam::seam_prefix(rng), seam::seam_suffix(rng));
            match rng.below(4) {
                0 => format!("{u}{a} {b}{v}"),
                1 => format!("{u}{a}{b}{v}"),
                2 => format!("x {u}{a} {b}{v} y"),
                _ => format!("{u} {a}{b} {v}x"),
            }
            .trim()
            .to_string()
        } else if stream < 75 {
            // clean text: words separated by single spaces
            let nw = if rng.chance(1, 8) { rng.below(2) } else { rng.range(2, 6) };
            {
                // one text in five is pure ASCII (the shape on which an `is_ascii()` shortcut would be taken)
                let ascii_only = !seam && rng.chance(1, 5);
                (0..nw).map(|_| word(rng, g, seam, ascii_only)).collect::<Vec<_>>().join(" ")
            }
        } else if stream < 85 {
            // cleaned arbitrary text
            let n = rng.below(10);
            let s: String = (0..n)
                .map(|_| match rng.below(10) {
                    0..=3 => *rng.pick(units::WS),
                    4..=6 => *rng.pick(units::ASCII),
                    7 => *rng.pick(units::MULTI),
                    8 => *rng.pick(units::COMBINING),
                    _ => *rng.pick(units::ZW),
                })
                .collect();
            clean(&s, g)
        } else if stream < 95 {
            // not clean: arbitrary whitespace (only the unconditional clauses and the
            // correspondence apply)
            let n = rng.below(9);
            (0..n)
                .map(|_| match rng.below(10) {
                    0..=3 => *rng.pick(units::WS),
                    4..=7 => *rng.pick(units::ASCII),
                    8 => *rng.pick(units::MULTI),
                    _ => *rng.pick(units::SEAM),
                })
                .collect()
        } else {
            match rng.below(4) {
                0 => String::new(),
                1 => "a".to_string(),
                2 => " ".to_string(),
                _ => "a b".to_string(),
            }
        };
        let seed = match rng.below(8) {
            0 => 0,
            1 => 22, // the default seed used by the crate's tests is 0; keep some fixed ones
            _ => rng.next_u64() >> 2,
        };
        let (mut iw, mut dw) = (numerator(rng), numerator(rng));
        // both zero is the rejected configuration: keep it rare
        if iw <= 0 && dw <= 0 && rng.chance(9, 10) {
            if rng.chance(1, 2) {
                iw = 1i64 << 52;
            } else {
                dw = 1i64 << 53;
            }
        }
        let np = rng.below(3);
        let ns = rng.below(3);
        mk_input(&text, g, seed, iw, dw, np, ns)
    }

    fn exhaustive(&mut self, _tier: Tier) -> Vec<Val> {
        // every clean text of up to 4 letters over {a, e + U+0301} with every spacing,
        // x 4 seeds x 5 probability pairs x both modes
        let one = 1i64 << 53;
        let probs = [(one / 2, one / 2), (one, 0), (0, one), (one, one), (one / 4, one / 8 * 7)];
        let letters = ["a", "e\u{301}"];
        let mut texts = vec![String::new()];
        for n in 1..=4usize {
            for w in 0..(1usize << n) {
                for sp in 0..(1usize << (n - 1)) {
                    let mut t = String::new();
                    for i in 0..n {
                        if i > 0 && (sp >> (i - 1)) & 1 == 1 {
                            t.push(' ');
                        }
                        t.push_str(letters[(w >> i) & 1]);
                    }
                    texts.push(t);
                }
            }
        }
        let mut out = vec![];
        for t in &texts {
            for seed in 0..4u64 {
                for (iw, dw) in probs {
                    for g in [false, true] {
                        out.push(mk_input(t, g, seed, iw, dw, 1, 1));
                    }
                }
            }
        }
        out
    }

    fn run(&mut self, input: &Val) -> Option<(Val, Vec<String>)> {
        let l = input.as_l()?;
        if l.len() != 11 {
            return None;
        }
        let g = l[0].as_bool()?;
        let text = l[1].clusters_to_string()?;
        if Val::clusters(&text, g) != l[1] {
            return None;
        }
        let ss = g && seam::corrupt_safe(&text);
        if ss != l[10].as_bool()? {
            return None;
        }
        let seed = u64::try_from(l[3].as_i()?).ok()?;
        let (iw, dw) = (l[5].as_i()?, l[6].as_i()?);
        if prob(iw) * TWO53 != iw as f64 || prob(dw) * TWO53 != dw as f64 {
            return None;
        }
        let (np, ns) = (l[7].as_usize()?, l[8].as_usize()?);
        if np > 4 || ns > 4 {
            return None;
        }
        // the random stream handed to the model must be the one the code draws
        let n = CharString::new(&text, g).len();
        let ks = draws(seed, n);
        if Val::L(ks.iter().map(|k| Val::I(*k)).collect()) != l[4] {
            return None;
        }
        let first = corrupt(&text, seed, iw, dw, g);
        let mut tags = vec![if g { "g".to_string() } else { "cp".to_string() }];
        let out = match &first {
            None => {
                if !l[2].as_l()?.is_empty() || l[9].as_bool()? {
                    return None;
                }
                tags.push("rejected".into());
                Val::L(vec![Val::I(0)])
            }
            Some((c, tgt)) => {
                if Val::clusters(c, g) != l[2] || kf1_class(&text, c, g) != l[9].as_bool()? {
                    return None;
                }
                // same (text, seed) again, through a freshly built function
                let again = corrupt(&text, seed, iw, dw, g);
                let same = again.as_ref() == Some(&(c.clone(), tgt.clone()));
                let (c2, t2) = (c.clone(), tgt.clone());
                let lab = std::panic::catch_unwind(move || {
                    let task = train_task(TrainTaskConfig::WhitespaceCorrection(
                        g,
                        tokenizer_cfg(g, np, ns),
                    ));
                    match task(&TrainData::new(c2, Some(t2))) {
                        Ok(TrainTaskInput::SequenceClassification { labels, .. }) => Some(labels),
                        _ => None,
                    }
                });
                let lab = match lab {
                    Ok(l) => l,
                    Err(_) => return Some((Val::panic(), tags)),
                };
                let is_clean = clean(&text, g) == text && !vh::split_clusters(&text, g).any(is_mixed);
                // class KF1 (see `kf1_class`). Inside the domain of `corrupt_labels_u` (clean text,
                // `corrupt_safe`) a failure is NOT a known finding: the class tag is withheld, so it is
                // reported as a violation; `agree` flags every such case with the class flag set.
                let kf1 = kf1_class(&text, c, g);
                if kf1 {
                    tags.push("kf1".into());
                }
                if kf1 && is_clean {
                    tags.push("kf1-clean".into());
                }
                if g && is_clean {
                    tags.push(if ss { "safe".into() } else { "unsafe".into() });
                    if seam::corrupt_safe_cf(&text) {
                        tags.push("safe-cf".into());
                    }
                }
                if kf1 && ss && is_clean {
                    tags.push("safe-kf1".into());
                } else if kf1 {
                    tags.push("class:KF1".into());
                }
                if is_clean {
                    tags.push("clean".into());
                }
                if is_clean && c != tgt {
                    tags.push("changed".into());
                }
                // non-trivial: clean text in which the corruption both deleted a space
                // (label 1 = Insert) and inserted one (label 2 = Delete)
                if let Some(l) = &lab {
                    if is_clean && l.contains(&1) && l.contains(&2) {
                        tags.push("nt".into());
                    }
                }
                Val::L(vec![
                    Val::I(1),
                    Val::str(c),
                    Val::str(tgt),
                    Val::opt(lab, |l| Val::list(l.iter(), |x| Val::I(*x as i64))),
                    Val::b(same),
                ])
            }
        };
        Some((out, tags))
    }

    fn canon(&mut self, input: &Val) -> Option<Val> {
        let l = input.as_l()?;
        if l.len() != 9 && l.len() != 11 {
            return None;
        }
        let g = l[0].as_bool()?;
        let text = l[1].clusters_to_string()?;
        let seed = u64::try_from(l[3].as_i()?).ok()?;
        Some(mk_input(
            &text,
            g,
            seed,
            l[5].as_i()?,
            l[6].as_i()?,
            l[7].as_usize()?.min(4),
            l[8].as_usize()?.min(4),
        ))
    }

    fn selfcheck(&mut self) -> Vec<String> {
        let mut errs = ws_table_selfcheck();
        errs.extend(seam::cats_selfcheck());
        // the replicated stream must be a function of the seed only
        if draws(7, 16) != draws(7, 16) || draws(7, 16)[..8] != draws(7, 8)[..] {
            errs.push("ChaCha8 draw replication is not a prefix-stable function of the seed".into());
        }
        errs
    }
}

fn main() {
    main_loop(C14);
}

//! C14: whitespace corruption and the labels of the whitespace-correction task,
//! through the public `preprocessing(WhitespaceCorruption)` and
//! `train_task(WhitespaceCorrection)`.
//! input  = (g text cseg seed ks iw dw np ns kf1 ss iwf dwf)
//!          iwf dwf  the two probabilities AS THE CODE RECEIVES THEM: any binary64 value, decomposed
//!                   ((0 m e) = m * 2^e | (1 0 0) +inf | (2 0 0) NaN | (3 m e) negative, -0.0 = (3 0 -1074), -inf = (3 0 1)).
//!                   The model's SEEDED run (first line of `agree`) reads only g, the text, seed, np, ns, iwf, dwf:
//!                   it computes the r-stream from the seed (ChaCha8 + seed_from_u64 + random::<f64> in Gallina) and
//!                   the thresholds ceil(p * 2^53) itself. ks, iw, dw, cseg are kept for the oracle model (second
//!                   line) and cross-checked against what the model computes.
//!          text  clusters of the text (unicode-segmentation; compared with the model's `segment` by `agree`)
//!          cseg  clusters of the real corrupted text (the same; `()` if rejected)
//!          kf1   the known-finding class flag (below); ss = `corrupt_safe text` as evaluated by
//!                harness/src/seam.rs (compared with the model's `corrupt_safe` by `agree`)
//!          ks    the draws r*2^53 of ChaCha8Rng::seed_from_u64(seed), one per character
//!          iw dw the integer thresholds ceil(clamp(p) * 2^53) of the two probabilities, as computed HERE in f64
//!                (r < p  <=>  k < threshold for r = k / 2^53); compared with the model's own by `agree`
//! output = (0) | (1 corrupted target (labels)? same-again)
use rand::{Rng as _, SeedableRng};
use rand_chacha::ChaCha8Rng;
use std::collections::HashMap;
use text_utils::data::preprocessing::{preprocessing, Part, PreprocessingFnConfig};
use text_utils::data::task::{train_task, TrainTaskConfig};
use text_utils::data::{TextDataInfo, TrainData, TrainTaskInput};
use text_utils::text::clean;
use text_utils::tokenization::{
    CharTokenizerConfig, SpecialConfig, TokenizeConfig, TokenizerConfig, BOS, EOS, PAD,
    SPECIAL_TOKENS, UNK,
};
use text_utils::unicode::CharString;
use vh::*;

#[path = "../seam.rs"]
mod seam;

struct C14;

const TWO53: f64 = 9007199254740992.0;

/// the probability a numerator over 2^53 stands for (old corpus lines; exact for |n| <= 2^53 and small multiples)
fn prob(n: i64) -> f64 {
    n as f64 / TWO53
}

/// ceil(clamp(p, 0, 1) * 2^53): the scaling by a power of two and `ceil` are exact; NaN compares false with
/// everything, like a threshold 0
fn threshold(p: f64) -> i64 {
    let c = p.clamp(0.0, 1.0);
    if c.is_nan() {
        0
    } else {
        (c * TWO53).ceil() as i64
    }
}

/// binary64 on the wire, exact (see the module comment)
fn f64_val(x: f64) -> Val {
    let t = |k: i64, m: i64, e: i64| Val::L(vec![Val::I(k), Val::I(m), Val::I(e)]);
    if x.is_nan() {
        return t(2, 0, 0);
    }
    if x == f64::INFINITY {
        return t(1, 0, 0);
    }
    if x == f64::NEG_INFINITY {
        return t(3, 0, 1);
    }
    let b = x.to_bits() & !(1u64 << 63);
    let (e, f) = ((b >> 52) as i64, (b & ((1u64 << 52) - 1)) as i64);
    let (m, e) = if e == 0 { (f, -1074) } else { (f + (1i64 << 52), e - 1075) };
    t(if x.is_sign_negative() { 3 } else { 0 }, m, e)
}

/// inverse of `f64_val`; `None` unless canonical
fn val_f64(v: &Val) -> Option<f64> {
    let l = v.as_l()?;
    if l.len() != 3 {
        return None;
    }
    let (k, m, e) = (l[0].as_i()?, l[1].as_i()?, l[2].as_i()?);
    let mag = || {
        if (0..1i64 << 52).contains(&m) && e == -1074 {
            Some(f64::from_bits(m as u64))
        } else if (1i64 << 52..1i64 << 53).contains(&m) && (-1074..=971).contains(&e) {
            Some(f64::from_bits((((e + 1075) as u64) << 52) | (m as u64 - (1u64 << 52))))
        } else {
            None
        }
    };
    match k {
        0 => mag(),
        1 if m == 0 && e == 0 => Some(f64::INFINITY),
        2 if m == 0 && e == 0 => Some(f64::NAN),
        3 if m == 0 && e == 1 => Some(f64::NEG_INFINITY),
        3 => mag().map(|x| -x),
        _ => None,
    }
}

fn draws(seed: u64, n: usize) -> Vec<i64> {
    let mut rng = ChaCha8Rng::seed_from_u64(seed);
    (0..n)
        .map(|_| {
            let r: f64 = rng.random();
            let k = r * TWO53;
            assert!(k.fract() == 0.0 && (0.0..TWO53).contains(&k));
            k as i64
        })
        .collect()
}

fn info(seed: u64) -> TextDataInfo {
    TextDataInfo {
        seed,
        file_idx: 0,
        marks: HashMap::new(),
    }
}

/// the real corruption: None = the configuration is rejected (constructor panics)
fn corrupt(text: &str, seed: u64, iw: f64, dw: f64, g: bool) -> Option<(String, String)> {
    let text = text.to_string();
    std::panic::catch_unwind(move || {
        let f = preprocessing(PreprocessingFnConfig::WhitespaceCorruption(
            Part::Input,
            iw,
            dw,
            g,
        ));
        let (item, _) = f(TrainData::new(text, None), info(seed)).expect("corruption failed");
        (item.verif_input().to_string(), item.verif_target().to_string())
    })
    .ok()
}

fn tokenizer_cfg(g: bool, np: usize, ns: usize) -> TokenizerConfig {
    TokenizerConfig {
        tokenize: TokenizeConfig::Character(CharTokenizerConfig {
            use_graphemes: g,
            unk_token: UNK.to_string(),
        }),
        special: SpecialConfig {
            pad: PAD.to_string(),
            tokens: SPECIAL_TOKENS.iter().map(|s| s.to_string()).collect(),
            prefix: vec![BOS.to_string(); np],
            suffix: vec![EOS.to_string(); ns],
        },
    }
}

fn is_mixed(c: &str) -> bool {
    let ws = c.chars().filter(|c| c.is_whitespace()).count();
    ws > 0 && ws < c.chars().count()
}

fn nonws_clusters(s: &str, g: bool) -> Vec<String> {
    vh::split_clusters(s, g)
        .filter(|c| !c.chars().all(|c| c.is_whitespace()))
        .map(|c| c.to_string())
        .collect()
}

fn word(rng: &mut Rng, _g: bool, seam: bool, ascii_only: bool) -> String {
    if rng.chance(1, 25) {
        // a word that spells a special token of the task's tokenizer, or nearly: the task must still get one
        // token id and one label per character of it (special tokens are ordinary text in a training input)
        let t = *rng.pick(&SPECIAL_TOKENS[..]);
        return match rng.below(4) {
            0 => t[..t.len() - 1].to_string(),
            1 => format!("x{t}"),
            _ => t.to_string(),
        };
    }
    let n = rng.range(1, 4);
    let mut w = String::new();
    for _ in 0..n {
        let k = rng.below(12);
        let u = if ascii_only {
            *rng.pick(units::ASCII)
        } else if seam && k < 5 {
            *rng.pick(units::SEAM)
        } else if k < 7 {
            *rng.pick(units::ASCII)
        } else if k < 9 {
            *rng.pick(units::MULTI)
        } else if k < 10 {
            *rng.pick(units::COMBINING)
        } else if k < 11 {
            *rng.pick(units::ZW)
        } else {
            *rng.pick(units::ASCII)
        };
        if u.chars().all(|c| c.is_whitespace()) {
            continue;
        }
        w.push_str(u);
    }
    if w.is_empty() {
        w.push('a');
    }
    w
}

/// next representable binary64 above / below a positive finite value
fn next_up(x: f64) -> f64 {
    f64::from_bits(x.to_bits() + 1)
}
fn next_down(x: f64) -> f64 {
    if x == 0.0 {
        -0.0
    } else {
        f64::from_bits(x.to_bits() - 1)
    }
}

/// a probability as a configuration can contain it: ANY binary64 value
fn probability(rng: &mut Rng) -> f64 {
    let one = TWO53;
    match rng.below(26) {
        0..=1 => 0.0,
        2..=3 => 1.0,
        4..=7 => 0.5,
        8 => 0.25,
        9 => 0.875,
        10 => 1.0 / one,         // 2^-53: only the draw 0 is below
        11 => (one - 1.0) / one, // every draw but the largest is below
        12 => -0.5,              // clamped to 0
        13 => 2.0,               // clamped to 1
        14 => 1.5,
        // what configuration files contain: decimal fractions, not multiples of 2^-53
        15..=18 => *rng.pick(&[0.1, 0.2, 0.3, 0.05, 0.9, 0.7, 1.0 / 3.0, 0.01, 0.99, 0.15, 0.6, 0.999, 1e-3]),
        // any 53-bit mantissa, exponents -1 .. -8 (thresholds with many low-order bits cut off by the ceiling)
        19..=20 => f64::from_bits(((1022 - rng.below(8) as u64) << 52) | (rng.next_u64() >> 12)),
        // far below 2^-53 (threshold 1: positive, yet only the draw 0 is below), subnormal, tiny
        21 => *rng.pick(&[1e-300, f64::MIN_POSITIVE, 5e-324, 7.52316384526264e-37, 1.1102230246251565e-16 / 128.0]),
        22 => *rng.pick(&[
            f64::EPSILON,
            1.0 - f64::EPSILON / 2.0,
            1.0 + f64::EPSILON,
            0.49999999999999994,
            0.5000000000000001,
            f64::MAX,
            f64::INFINITY,
            f64::NEG_INFINITY,
            -0.0,
            -1e-300,
            f64::NAN,
        ]),
        _ => (rng.next_u64() >> 11) as f64 / one, // arbitrary multiple of 2^-53
    }
}

/// a probability ON the decision boundary of this case: one of the draws r_j of the seed's own stream
/// (then `r_j < p` is false, `r_j <= p` would be true), its successor or predecessor in binary64
fn boundary_probability(rng: &mut Rng, seed: u64, n: usize) -> Option<f64> {
    if n == 0 {
        return None;
    }
    let ks = draws(seed, n);
    let r = ks[rng.below(n)] as f64 / TWO53;
    Some(match rng.below(4) {
        0..=1 => r,
        2 => next_up(r),
        _ => next_down(r),
    })
}

fn mk_input(text: &str, g: bool, seed: u64, iw: f64, dw: f64, np: usize, ns: usize) -> Val {
    let n = CharString::new(text, g).len();
    let ks = draws(seed, n);
    let (cseg, kf1) = match corrupt(text, seed, iw, dw, g) {
        Some((c, _)) => (Val::clusters(&c, g), kf1_class(text, &c, g)),
        None => (Val::L(vec![]), false),
    };
    let ss = g && seam::corrupt_safe(text);
    Val::L(vec![
        Val::b(g),
        Val::clusters(text, g),
        cseg,
        Val::I(seed as i64),
        Val::L(ks.into_iter().map(Val::I).collect()),
        Val::I(threshold(iw)),
        Val::I(threshold(dw)),
        Val::u(np),
        Val::u(ns),
        Val::b(kf1),
        Val::b(ss),
        f64_val(iw),
        f64_val(dw),
    ])
}

/// class KF1: the real segmentation of the corrupted text is not the text's non-whitespace
/// clusters plus whitespace clusters
fn kf1_class(text: &str, c: &str, g: bool) -> bool {
    g && (nonws_clusters(c, g) != nonws_clusters(text, g) || vh::split_clusters(c, g).any(is_mixed))
}

impl Prop for C14 {
    fn gen(&mut self, rng: &mut Rng, _tier: Tier, _i: usize, _n: usize) -> Val {
        let g = rng.chance(1, 2);
        let seam = g && rng.chance(1, 5);
        let stream = rng.below(100);
        let text = if g && stream < 12 {
            // seam probe: a pair of code points of random grapheme categories (biased to the edge of
            // `cf_break`), inside a word or across a word boundary, behind a text that sets up the
            // look-behind states of the segmenter
            let (a, b) = seam::seam_pair(rng);
            let (u, v) = (seam::seam_prefix(rng), seam::seam_suffix(rng));
            match rng.below(4) {
                0 => format!("{u}{a} {b}{v}"),
                1 => format!("{u}{a}{b}{v}"),
                2 => format!("x {u}{a} {b}{v} y"),
                _ => format!("{u} {a}{b} {v}x"),
            }
            .trim()
            .to_string()
        } else if stream < 75 {
            // clean text: words separated by single spaces
            let nw = if rng.chance(1, 8) { rng.below(2) } else { rng.range(2, 6) };
            {
                // one text in five is pure ASCII (the shape on which an `is_ascii()` shortcut would be taken)
                let ascii_only = !seam && rng.chance(1, 5);
                (0..nw).map(|_| word(rng, g, seam, ascii_only)).collect::<Vec<_>>().join(" ")
            }
        } else if stream < 85 {
            // cleaned arbitrary text
            let n = rng.below(10);
            let s: String = (0..n)
                .map(|_| match rng.below(10) {
                    0..=3 => *rng.pick(units::WS),
                    4..=6 => *rng.pick(units::ASCII),
                    7 => *rng.pick(units::MULTI),
                    8 => *rng.pick(units::COMBINING),
                    _ => *rng.pick(units::ZW),
                })
                .collect();
            clean(&s, g)
        } else if stream < 95 {
            // not clean: arbitrary whitespace (only the unconditional clauses and the
            // correspondence apply)
            let n = rng.below(9);
            (0..n)
                .map(|_| match rng.below(10) {
                    0..=3 => *rng.pick(units::WS),
                    4..=7 => *rng.pick(units::ASCII),
                    8 => *rng.pick(units::MULTI),
                    _ => *rng.pick(units::SEAM),
                })
                .collect()
        } else {
            match rng.below(4) {
                0 => String::new(),
                1 => "a".to_string(),
                2 => " ".to_string(),
                _ => "a b".to_string(),
            }
        };
        let seed = match rng.below(8) {
            0 => 0,
            1 => 22, // the default seed used by the crate's tests is 0; keep some fixed ones
            _ => rng.next_u64() >> 2,
        };
        let (mut iw, mut dw) = (probability(rng), probability(rng));
        // one case in eight: a probability exactly on (or one ulp beside) a draw of this very stream
        if rng.chance(1, 8) {
            let n = CharString::new(&text, g).len();
            if let Some(p) = boundary_probability(rng, seed, n) {
                if rng.chance(1, 2) {
                    dw = p;
                } else {
                    iw = p;
                }
            }
        }
        // both zero is the rejected configuration: keep it rare
        if !(iw > 0.0) && !(dw > 0.0) && rng.chance(9, 10) {
            if rng.chance(1, 2) {
                iw = 0.5;
            } else {
                dw = 1.0;
            }
        }
        let np = rng.below(3);
        let ns = rng.below(3);
        mk_input(&text, g, seed, iw, dw, np, ns)
    }

    fn exhaustive(&mut self, _tier: Tier) -> Vec<Val> {
        // every clean text of up to 4 letters over {a, e + U+0301} with every spacing,
        // x 4 seeds x 5 probability pairs x both modes
        let probs = [(0.5, 0.5), (1.0, 0.0), (0.0, 1.0), (1.0, 1.0), (0.25, 0.875), (0.1, 0.3)];
        let letters = ["a", "e\u{301}"];
        let mut texts = vec![String::new()];
        for n in 1..=4usize {
            for w in 0..(1usize << n) {
                for sp in 0..(1usize << (n - 1)) {
                    let mut t = String::new();
                    for i in 0..n {
                        if i > 0 && (sp >> (i - 1)) & 1 == 1 {
                            t.push(' ');
                        }
                        t.push_str(letters[(w >> i) & 1]);
                    }
                    texts.push(t);
                }
            }
        }
        let mut out = vec![];
        for t in &texts {
            for seed in 0..4u64 {
                for (iw, dw) in probs {
                    for g in [false, true] {
                        out.push(mk_input(t, g, seed, iw, dw, 1, 1));
                    }
                }
            }
        }
        out
    }

    fn run(&mut self, input: &Val) -> Option<(Val, Vec<String>)> {
        let l = input.as_l()?;
        if l.len() != 13 {
            return None;
        }
        let g = l[0].as_bool()?;
        let text = l[1].clusters_to_string()?;
        if Val::clusters(&text, g) != l[1] {
            return None;
        }
        let ss = g && seam::corrupt_safe(&text);
        if ss != l[10].as_bool()? {
            return None;
        }
        let seed = u64::try_from(l[3].as_i()?).ok()?;
        let (iw, dw) = (val_f64(&l[11])?, val_f64(&l[12])?);
        if f64_val(iw) != l[11] || f64_val(dw) != l[12] {
            return None;
        }
        // the integer thresholds handed to the oracle model must be the ones of these probabilities
        if l[5].as_i()? != threshold(iw) || l[6].as_i()? != threshold(dw) {
            return None;
        }
        let (np, ns) = (l[7].as_usize()?, l[8].as_usize()?);
        if np > 4 || ns > 4 {
            return None;
        }
        // the random stream handed to the model must be the one the code draws
        let n = CharString::new(&text, g).len();
        let ks = draws(seed, n);
        if Val::L(ks.iter().map(|k| Val::I(*k)).collect()) != l[4] {
            return None;
        }
        let first = corrupt(&text, seed, iw, dw, g);
        let mut tags = vec![if g { "g".to_string() } else { "cp".to_string() }];
        // a probability that is no multiple of 2^-53 (the ceiling in the threshold matters)
        let dyadic = |p: f64| p.is_nan() || p.is_infinite() || (p * TWO53).fract() == 0.0;
        if !dyadic(iw) || !dyadic(dw) {
            tags.push("p-nondyadic".into());
        }
        // a probability equal to one of the draws of this case (the boundary r == p)
        if ks.iter().any(|k| *k as f64 / TWO53 == iw || *k as f64 / TWO53 == dw) {
            tags.push("p-on-draw".into());
        }
        let out = match &first {
            None => {
                if !l[2].as_l()?.is_empty() || l[9].as_bool()? {
                    return None;
                }
                tags.push("rejected".into());
                Val::L(vec![Val::I(0)])
            }
            Some((c, tgt)) => {
                if Val::clusters(c, g) != l[2] || kf1_class(&text, c, g) != l[9].as_bool()? {
                    return None;
                }
                // same (text, seed) again, through a freshly built function
                let again = corrupt(&text, seed, iw, dw, g);
                let same = again.as_ref() == Some(&(c.clone(), tgt.clone()));
                let (c2, t2) = (c.clone(), tgt.clone());
                let lab = std::panic::catch_unwind(move || {
                    let task = train_task(TrainTaskConfig::WhitespaceCorrection(
                        g,
                        tokenizer_cfg(g, np, ns),
                    ));
                    match task(&TrainData::new(c2, Some(t2))) {
                        // one label per token id (prefix and suffix included): labels that do not line up with the
                        // ids the model will see are no labels
                        Ok(TrainTaskInput::SequenceClassification { labels, token_ids, .. }) if labels.len() == token_ids.len() => Some(labels),
                        _ => None,
                    }
                });
                let lab = match lab {
                    Ok(l) => l,
                    Err(_) => return Some((Val::panic(), tags)),
                };
                let is_clean = clean(&text, g) == text && !vh::split_clusters(&text, g).any(is_mixed);
                // class KF1 (see `kf1_class`). Inside the domain of `corrupt_labels_u` (clean text,
                // `corrupt_safe`) a failure is NOT a known finding: the class tag is withheld, so it is
                // reported as a violation; `agree` flags every such case with the class flag set.
                let kf1 = kf1_class(&text, c, g);
                if kf1 {
                    tags.push("kf1".into());
                }
                if kf1 && is_clean {
                    tags.push("kf1-clean".into());
                }
                if g && is_clean {
                    tags.push(if ss { "safe".into() } else { "unsafe".into() });
                    if seam::corrupt_safe_cf(&text) {
                        tags.push("safe-cf".into());
                    }
                }
                if kf1 && ss && is_clean {
                    tags.push("safe-kf1".into());
                } else if kf1 {
                    tags.push("class:KF1".into());
                }
                if is_clean {
                    tags.push("clean".into());
                }
                if is_clean && c != tgt {
                    tags.push("changed".into());
                }
                // non-trivial: clean text in which the corruption both deleted a space
                // (label 1 = Insert) and inserted one (label 2 = Delete)
                if let Some(l) = &lab {
                    if is_clean && l.contains(&1) && l.contains(&2) {
                        tags.push("nt".into());
                    }
                }
                Val::L(vec![
                    Val::I(1),
                    Val::str(c),
                    Val::str(tgt),
                    Val::opt(lab, |l| Val::list(l.iter(), |x| Val::I(*x as i64))),
                    Val::b(same),
                ])
            }
        };
        Some((out, tags))
    }

    fn canon(&mut self, input: &Val) -> Option<Val> {
        let l = input.as_l()?;
        if l.len() != 9 && l.len() != 11 && l.len() != 13 {
            return None;
        }
        let g = l[0].as_bool()?;
        let text = l[1].clusters_to_string()?;
        let seed = u64::try_from(l[3].as_i()?).ok()?;
        // the probabilities: the binary64 fields when present (a shrunk m or e that is no longer canonical falls
        // back to the threshold), else (lines written before they existed) the numerators over 2^53
        let p = |k: usize| -> Option<f64> {
            match l.get(11 + k).and_then(val_f64) {
                Some(p) => Some(p),
                None => Some(prob(l[5 + k].as_i()?)),
            }
        };
        Some(mk_input(
            &text,
            g,
            seed,
            p(0)?,
            p(1)?,
            l[7].as_usize()?.min(4),
            l[8].as_usize()?.min(4),
        ))
    }

    fn selfcheck(&mut self) -> Vec<String> {
        let mut errs = ws_table_selfcheck();
        errs.extend(seam::cats_selfcheck());
        // the replicated stream must be a function of the seed only
        if draws(7, 16) != draws(7, 16) || draws(7, 16)[..8] != draws(7, 8)[..] {
            errs.push("ChaCha8 draw replication is not a prefix-stable function of the seed".into());
        }
        errs
    }
}

fn main() {
    main_loop(C14);
}

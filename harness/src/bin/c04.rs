//! C04: vocabulary maps of the byte, character and BPE tokenizers against the model.
//! input  = (kind padto tokens pad prefix suffix unk alphabet merges maxv probes)
//! output = (0) | (1 vocab_size vocab id_to_token* token_to_id_of_vocab* token_to_id_probe*
//!                   pad prefix_ids suffix_ids unk? decode_single* [fb lv])
//!          BPE only: fb = the bytes of the merge file the crate's `save` wrote, lv = ((id key) ...) = the real
//!          `MergeOps::load` of it (the model decodes fb itself: MsgPack_Model.v)
#[path = "../bpe_common.rs"]
mod bpe;
#[path = "../tok_common.rs"]
mod tc;
use std::collections::HashMap;
use std::path::PathBuf;
use tc::*;
use text_utils::tokenization::{
    BPETokenizer, BPETokenizerConfig, BaseTokenize, ByteTokenizer, CharTokenizer, CharTokenizerConfig,
    GroupAggregation, MergeOps, Tokenize,
};
use text_utils::utils::SerializeMsgPack;
use vh::*;

struct C04 {
    alpha: Vec<char>,
    counter: usize,
}

#[derive(Clone, Debug)]
struct Cfg4 {
    kind: usize, // 0 byte, 1 char, 2 BPE
    tc: TokCfg,
    merges: Vec<Vec<u8>>,
    maxv: Option<usize>,
}

fn bytes_list_val(l: &[Vec<u8>]) -> Val {
    Val::list(l.iter(), |b| Val::bytes(b))
}

fn val_bytes(v: &Val) -> Option<Vec<u8>> {
    v.as_l()?.iter().map(|x| x.as_i().and_then(|i| u8::try_from(i).ok())).collect()
}

impl Cfg4 {
    fn to_val(&self, alpha: &[char], probes: &[String]) -> Val {
        let t = self.tc.to_vals(alpha);
        // kind padto tokens pad prefix suffix unk alphabet merges maxv probes
        Val::L(vec![
            Val::u(self.kind),
            if self.kind == 0 { t[3].clone() } else { Val::none() },
            t[4].clone(),
            t[5].clone(),
            t[6].clone(),
            t[7].clone(),
            t[8].clone(),
            if self.kind == 1 { Val::L(alpha.iter().map(|c| Val::I(*c as i64)).collect()) } else { Val::L(vec![]) },
            bytes_list_val(&self.merges),
            Val::opt(self.maxv, Val::u),
            Val::list(probes.iter(), |s| Val::str(s)),
        ])
    }

    fn from_val(l: &[Val]) -> Option<(Cfg4, Vec<String>)> {
        if l.len() != 11 {
            return None;
        }
        let kind = l[0].as_usize()?;
        if kind > 2 {
            return None;
        }
        // re-use the TokCfg parser: kind g groups padto tokens pad prefix suffix unk alphabet
        let fields = vec![
            Val::b(kind == 1),
            Val::b(false),
            Val::b(false),
            if kind == 0 { l[1].clone() } else { Val::none() },
            l[2].clone(),
            l[3].clone(),
            l[4].clone(),
            l[5].clone(),
            l[6].clone(),
            Val::L(vec![]),
        ];
        let tc = TokCfg::from_vals(&fields)?;
        let merges: Vec<Vec<u8>> = if kind == 2 {
            l[8].as_l()?.iter().map(val_bytes).collect::<Option<_>>()?
        } else {
            vec![]
        };
        // well-formed table: distinct keys of at least two bytes (ids are the positions)
        for (i, m) in merges.iter().enumerate() {
            if m.len() < 2 || merges[..i].contains(m) {
                return None;
            }
        }
        if merges.len() > 200 {
            return None;
        }
        let maxv = if kind == 2 {
            match l[9].as_l()? {
                [] => None,
                [x] => Some(x.as_usize()?),
                _ => return None,
            }
        } else {
            None
        };
        let probes: Vec<String> = l[10].as_l()?.iter().map(|x| x.to_string_lossy()).collect::<Option<_>>()?;
        Some((Cfg4 { kind, tc, merges, maxv }, probes))
    }
}

enum Built {
    Byte(ByteTokenizer),
    Char(CharTokenizer),
    Bpe(BPETokenizer),
}

impl Built {
    fn tok(&self) -> &dyn Tokenize {
        match self {
            Built::Byte(t) => t,
            Built::Char(t) => t,
            Built::Bpe(t) => t,
        }
    }
}

fn build(c: &Cfg4, file: &PathBuf) -> anyhow::Result<(Built, Option<bpe::MergeFile>)> {
    let mut mf = None;
    let b = match c.kind {
        0 => Built::Byte(ByteTokenizer::new(c.tc.byte_cfg(GroupAggregation::Mean), c.tc.special())?),
        1 => Built::Char(CharTokenizer::new(
            CharTokenizerConfig { use_graphemes: false, unk_token: c.tc.unk.clone() },
            c.tc.special(),
        )?),
        _ => {
            let ops: MergeOps = c.merges.iter().enumerate().map(|(i, m)| (m.clone(), i as u32)).collect::<HashMap<_, _>>();
            std::fs::create_dir_all(file.parent().unwrap())?;
            ops.save(file)?;
            // what is on disk, and what the real loader reads from it
            let bytes = std::fs::read(file)?;
            let loaded = MergeOps::load(file).ok().map(|m| {
                let mut l: Vec<(u32, Vec<u8>)> = m.into_iter().map(|(k, i)| (i, k)).collect();
                l.sort();
                l
            });
            mf = Some(bpe::MergeFile { bytes, loaded });
            let r = BPETokenizer::new(
                BPETokenizerConfig { merge_file: file.clone(), max_vocab_size: c.maxv, use_graphemes: false },
                c.tc.special(),
            );
            let _ = std::fs::remove_file(file);
            Built::Bpe(r?)
        }
    };
    Ok((b, mf))
}

/// random well-formed merge table: every entry is the concatenation of two earlier tokens
fn gen_merges(rng: &mut Rng, specials: &[String]) -> Vec<Vec<u8>> {
    let alphabets: [&[u8]; 4] = [b"abc", b"ab \xc3\xa4", b"xy<>\xe2\x82\xac", b"a<pd>unk"];
    let alpha = *rng.pick(&alphabets);
    let n = match rng.below(6) {
        0 => 0,
        1 => 1,
        2 => rng.range(2, 5),
        _ => rng.range(3, 30),
    };
    let mut toks: Vec<Vec<u8>> = alpha.iter().map(|b| vec![*b]).collect();
    let mut merges: Vec<Vec<u8>> = vec![];
    let mut tries = 0;
    while merges.len() < n && tries < 400 {
        tries += 1;
        let a = rng.pick(&toks).clone();
        let b = rng.pick(&toks).clone();
        let m = [a, b].concat();
        if m.len() > 12 || merges.contains(&m) {
            continue;
        }
        toks.push(m.clone());
        merges.push(m);
    }
    // rarely: a merge spelled like a special token (outside the property's disjointness premise)
    if rng.chance(1, 12) && !specials.is_empty() {
        let s = rng.pick(specials).as_bytes().to_vec();
        if s.len() >= 2 && !merges.contains(&s) {
            let at = rng.below(merges.len() + 1);
            merges.insert(at, s);
        }
    }
    merges
}

fn gen_probes(rng: &mut Rng, c: &Cfg4, alpha: &[char]) -> Vec<String> {
    let mut out = vec![String::new(), "a".into(), "ä".into(), "ab".into(), "\u{80}".into(), "\u{7f}".into()];
    let specials = c.tc.all_tokens();
    for _ in 0..rng.below(6) {
        match rng.below(6) {
            0 if !specials.is_empty() => {
                let t = rng.pick(&specials).clone();
                let cs: Vec<char> = t.chars().collect();
                out.push(match rng.below(3) {
                    0 => cs[..cs.len() - 1].iter().collect(),
                    1 => cs[1..].iter().collect(),
                    _ => format!("{t}{t}"),
                });
            }
            1 if !c.merges.is_empty() => {
                let m = rng.pick(&c.merges);
                if let Ok(s) = std::str::from_utf8(m) {
                    out.push(s.to_string());
                    out.push(format!("{s}a"));
                }
            }
            2 if !alpha.is_empty() => out.push(rng.pick(alpha).to_string()),
            3 => out.push((*rng.pick(units::MULTI)).to_string()),
            4 => out.push(format!("{}{}", rng.pick(units::ASCII), rng.pick(units::ASCII))),
            _ => out.push((*rng.pick(units::COMBINING)).to_string()),
        }
    }
    out
}

impl Prop for C04 {
    fn gen(&mut self, rng: &mut Rng, _tier: Tier, _i: usize, _n: usize) -> Val {
        let kind = match rng.below(20) {
            0..=6 => 0,
            7..=11 => 1,
            _ => 2,
        };
        let mut tc = gen_cfg(rng, kind == 1);
        if kind != 0 {
            tc.padto = None;
        }
        let specials = tc.listed_tokens();
        let merges = if kind == 2 { gen_merges(rng, &specials) } else { vec![] };
        let maxv = if kind == 2 && rng.chance(1, 2) {
            let base = 256 + tc.tokens.len();
            Some(match rng.below(8) {
                0 => rng.below(300),
                1 => base,
                2 => base + merges.len(),
                3 => base + merges.len() + 3,
                4 => 100000,
                _ => base + rng.below(merges.len() + 2),
            })
        } else {
            None
        };
        let c = Cfg4 { kind, tc, merges, maxv };
        let probes = gen_probes(rng, &c, &self.alpha);
        c.to_val(&self.alpha, &probes)
    }

    fn run(&mut self, input: &Val) -> Option<(Val, Vec<String>)> {
        let l = input.as_l()?;
        let (c, probes) = Cfg4::from_val(l)?;
        let want_alpha = if c.kind == 1 { Val::L(self.alpha.iter().map(|c| Val::I(*c as i64)).collect()) } else { Val::L(vec![]) };
        if l[7] != want_alpha {
            return None;
        }
        self.counter += 1;
        let file = PathBuf::from(format!("/tmp/c04/{}-{}.merges", std::process::id(), self.counter));
        let c2 = c.clone();
        let out = guard(move || {
            let (built, mf) = match build(&c2, &file) {
                Ok(b) => b,
                Err(_) => return Val::L(vec![Val::I(0)]),
            };
            let t = built.tok();
            let vs = t.vocab_size();
            let vocab = match t.get_vocab() {
                Ok(v) => v,
                Err(_) => return Val::L(vec![Val::I(-1)]),
            };
            let ids: Vec<u32> = (0..(vs + 8) as u32).collect();
            let i2t = Val::list(ids.iter(), |id| Val::opt(t.id_to_token(*id), |b| Val::bytes(&b)));
            let t2i = Val::list(vocab.iter(), |tok| match std::str::from_utf8(tok) {
                Ok(s) => Val::some(Val::opt(t.token_to_id(s), |i| Val::I(i as i64))),
                Err(_) => Val::none(),
            });
            let pr = Val::list(probes.iter(), |p| Val::opt(t.token_to_id(p), |i| Val::I(i as i64)));
            let unk = match &built {
                Built::Char(ct) => Val::some(Val::I(ct.unk_token_id() as i64)),
                _ => Val::none(),
            };
            let dec = Val::list(ids.iter(), |id| Val::opt(t.de_tokenize(&[*id], false).ok(), |s| Val::str(&s)));
            let mut o = vec![
                Val::I(1),
                Val::u(vs),
                bytes_list_val(&vocab),
                i2t,
                t2i,
                pr,
                Val::I(t.pad_token_id() as i64),
                ids_val(t.prefix_token_ids()),
                ids_val(t.suffix_token_ids()),
                unk,
                dec,
            ];
            if let Some(mf) = mf {
                o.push(mf.bytes_val());
                o.push(mf.loaded_val());
            }
            Val::L(o)
        });
        let mut tags = vec![["byte", "char", "bpe"][c.kind].to_string()];
        let ctor_ok = out.nth(0).and_then(|v| v.as_i()) == Some(1);
        if !ctor_ok {
            tags.push("ctor-err".into());
        }
        if c.maxv.is_some() {
            tags.push("maxv".into());
        }
        if c.tc.padto.is_some() && c.kind == 0 {
            tags.push("padto".into());
        }
        let n_spec = c.tc.all_tokens().len();
        if ctor_ok {
            let vs = out.nth(1).and_then(|v| v.as_usize()).unwrap_or(0);
            let retained = vs.saturating_sub(256 + n_spec);
            if c.kind == 2 && retained > 0 {
                tags.push("merges".into());
            }
            if c.kind == 2 && retained < c.merges.len() {
                tags.push("truncated".into());
            }
            if c.kind != 2 || retained > 0 {
                tags.push("nt".into());
            }
        }
        Some((out, tags))
    }

    fn canon(&mut self, input: &Val) -> Option<Val> {
        let l = input.as_l()?;
        let (c, probes) = Cfg4::from_val(l)?;
        Some(c.to_val(&self.alpha, &probes))
    }
}

fn main() {
    let alpha = alphabet();
    main_loop(C04 { alpha, counter: 0 });
}

//! Shared pieces of the correspondence harness: the `Val` exchange type and its
//! s-expression syntax, a SplitMix64 PRNG (every random choice of a run derives
//! from one state), string/cluster conversion against the real `CharString`,
//! panic/timeout guards and the `gen` / `run` command loop every property binary uses.
pub mod sched;

use std::fmt::Write as _;
use std::io::{BufRead, Write};

#[derive(Clone, Debug, PartialEq, Eq, Hash)]
pub enum Val {
    I(i64),
    L(Vec<Val>),
}

impl Val {
    pub fn write(&self, out: &mut String) {
        match self {
            Val::I(i) => {
                let _ = write!(out, "{i}");
            }
            Val::L(l) => {
                out.push('(');
                for (k, v) in l.iter().enumerate() {
                    if k > 0 {
                        out.push(' ');
                    }
                    v.write(out);
                }
                out.push(')');
            }
        }
    }
    pub fn to_sexp(&self) -> String {
        let mut s = String::new();
        self.write(&mut s);
        s
    }
    pub fn parse(s: &str) -> Option<Val> {
        let b = s.as_bytes();
        let mut i = 0usize;
        let v = parse_at(b, &mut i)?;
        while i < b.len() && b[i] == b' ' {
            i += 1;
        }
        if i == b.len() {
            Some(v)
        } else {
            None
        }
    }
    pub fn as_i(&self) -> Option<i64> {
        match self {
            Val::I(i) => Some(*i),
            _ => None,
        }
    }
    pub fn as_usize(&self) -> Option<usize> {
        self.as_i().and_then(|i| usize::try_from(i).ok())
    }
    pub fn as_bool(&self) -> Option<bool> {
        self.as_i().map(|i| i != 0)
    }
    pub fn as_l(&self) -> Option<&[Val]> {
        match self {
            Val::L(l) => Some(l),
            _ => None,
        }
    }
    pub fn nth(&self, k: usize) -> Option<&Val> {
        self.as_l().and_then(|l| l.get(k))
    }
    /// option encoding: `()` = None, `(x)` = Some(x)
    pub fn none() -> Val {
        Val::L(vec![])
    }
    pub fn some(v: Val) -> Val {
        Val::L(vec![v])
    }
    pub fn opt<T>(o: Option<T>, f: impl FnOnce(T) -> Val) -> Val {
        match o {
            Some(x) => Val::some(f(x)),
            None => Val::none(),
        }
    }
    pub fn b(b: bool) -> Val {
        Val::I(b as i64)
    }
    pub fn u(u: usize) -> Val {
        Val::I(u as i64)
    }
    pub fn list<T>(it: impl IntoIterator<Item = T>, f: impl Fn(T) -> Val) -> Val {
        Val::L(it.into_iter().map(f).collect())
    }
    /// a string as its list of code points
    pub fn str(s: &str) -> Val {
        Val::L(s.chars().map(|c| Val::I(c as i64)).collect())
    }
    pub fn bytes(b: &[u8]) -> Val {
        Val::L(b.iter().map(|c| Val::I(*c as i64)).collect())
    }
    /// a string as the list of clusters the real `CharString` produces
    /// The segmentation oracle. Taken from `unicode-segmentation` itself (the version /repo's lock file
    /// pins), NOT from the crate under test, so that a change to `CharString` cannot bend the oracle with it.
    pub fn clusters(s: &str, use_graphemes: bool) -> Val {
        use unicode_segmentation::UnicodeSegmentation;
        if use_graphemes {
            Val::L(s.graphemes(true).map(Val::str).collect())
        } else {
            let mut b = [0u8; 4];
            Val::L(s.chars().map(|c| Val::str(c.encode_utf8(&mut b))).collect())
        }
    }
    pub fn to_string_lossy(&self) -> Option<String> {
        let mut s = String::new();
        for v in self.as_l()? {
            s.push(char::from_u32(u32::try_from(v.as_i()?).ok()?)?);
        }
        Some(s)
    }
    /// concatenation of a cluster list back into a string
    pub fn clusters_to_string(&self) -> Option<String> {
        let mut s = String::new();
        for c in self.as_l()? {
            s.push_str(&c.to_string_lossy()?);
        }
        Some(s)
    }
    pub fn panic() -> Val {
        Val::L(vec![Val::I(-777)])
    }
    pub fn hang() -> Val {
        Val::L(vec![Val::I(-778)])
    }
}

fn parse_at(b: &[u8], i: &mut usize) -> Option<Val> {
    while *i < b.len() && b[*i] == b' ' {
        *i += 1;
    }
    if *i >= b.len() {
        return None;
    }
    if b[*i] == b'(' {
        *i += 1;
        let mut items = vec![];
        loop {
            while *i < b.len() && b[*i] == b' ' {
                *i += 1;
            }
            if *i >= b.len() {
                return None;
            }
            if b[*i] == b')' {
                *i += 1;
                return Some(Val::L(items));
            }
            items.push(parse_at(b, i)?);
        }
    } else {
        let j = *i;
        while *i < b.len() && b[*i] != b' ' && b[*i] != b')' && b[*i] != b'(' {
            *i += 1;
        }
        std::str::from_utf8(&b[j..*i]).ok()?.parse::<i64>().ok().map(Val::I)
    }
}

/// SplitMix64.
#[derive(Clone, Debug)]
pub struct Rng(pub u64);

impl Rng {
    pub fn new(seed: u64) -> Self {
        Rng(seed)
    }
    pub fn next_u64(&mut self) -> u64 {
        self.0 = self.0.wrapping_add(0x9E3779B97F4A7C15);
        let mut z = self.0;
        z = (z ^ (z >> 30)).wrapping_mul(0xBF58476D1CE4E5B9);
        z = (z ^ (z >> 27)).wrapping_mul(0x94D049BB133111EB);
        z ^ (z >> 31)
    }
    /// uniform in 0..n (n > 0)
    pub fn below(&mut self, n: usize) -> usize {
        (self.next_u64() % (n as u64)) as usize
    }
    /// uniform in lo..=hi
    pub fn range(&mut self, lo: usize, hi: usize) -> usize {
        lo + self.below(hi - lo + 1)
    }
    pub fn chance(&mut self, num: usize, den: usize) -> bool {
        self.below(den) < num
    }
    pub fn pick<'a, T>(&mut self, l: &'a [T]) -> &'a T {
        &l[self.below(l.len())]
    }
    pub fn fork(&mut self) -> Rng {
        Rng(self.next_u64())
    }
    pub fn shuffle<T>(&mut self, l: &mut [T]) {
        for i in (1..l.len()).rev() {
            let j = self.below(i + 1);
            l.swap(i, j);
        }
    }
}

/// Text units the generators draw from (Section 3.6 of DESIGN.md).
pub mod units {
    pub const ASCII: &[&str] = &["a", "b", "c", "x", "A", "0", ".", "-"];
    pub const MULTI: &[&str] = &["ä", "ß", "é", "中", "€", "😀", "𝄞"];
    pub const COMBINING: &[&str] = &["e\u{301}", "a\u{308}", "n\u{303}"];
    pub const WS: &[&str] = &[
        " ", " ", " ", "\t", "\n", "\r\n", "\u{a0}", "\u{3000}", "\u{2003}", "\u{85}", "\u{2028}",
        "\u{b}", "\u{c}", "\r", "\u{1680}", "\u{2000}", "\u{2001}", "\u{2002}", "\u{2004}",
        "\u{2005}", "\u{2006}", "\u{2007}", "\u{2008}", "\u{2009}", "\u{200a}", "\u{2029}",
        "\u{202f}", "\u{205f}",
    ];
    /// zero-width characters that are NOT whitespace
    pub const ZW: &[&str] = &["\u{200b}", "\u{feff}", "\u{200d}"];
    /// units whose segmentation depends on the neighbours (grapheme mode)
    pub const SEAM: &[&str] = &[
        "🇩", "🇪", "\u{1100}", "\u{1161}", "\u{11a8}", "क", "\u{94d}", "ष", "\u{600}", "\u{301}",
        "👩", "\u{200d}", "💻", "\r", "\n",
    ];
}

/// Independent segmentation (see `Val::clusters`): the pieces of `s` as string slices.
pub fn split_clusters(s: &str, use_graphemes: bool) -> std::vec::IntoIter<&str> {
    use unicode_segmentation::UnicodeSegmentation;
    let v: Vec<&str> = if use_graphemes {
        s.graphemes(true).collect()
    } else {
        s.char_indices().map(|(i, c)| &s[i..i + c.len_utf8()]).collect()
    };
    v.into_iter()
}

/// Run `f`, turning a panic into `Val::panic()`. (Note: once a threaded `Pipe`
/// has been created its process-wide panic hook exits the process; binaries
/// that create pipes must not rely on this guard afterwards.)
pub fn guard(f: impl FnOnce() -> Val + std::panic::UnwindSafe) -> Val {
    match std::panic::catch_unwind(f) {
        Ok(v) => v,
        Err(_) => Val::panic(),
    }
}

/// Multiplier for every wait of the harness that turns into a verdict (`VERIF_PATIENCE`, default 1). The runner
/// re-runs a case that ended in a hang alone, in a fresh process, with a larger value before it believes the hang:
/// on a loaded machine a busy-waiting implementation can miss any fixed limit.
pub fn patience() -> u64 {
    static P: std::sync::OnceLock<u64> = std::sync::OnceLock::new();
    *P.get_or_init(|| std::env::var("VERIF_PATIENCE").ok().and_then(|s| s.parse().ok()).filter(|p| *p >= 1).unwrap_or(1))
}

/// Run `f` on a helper thread; `Val::hang()` if it does not finish in time (`ms` times `patience()`).
pub fn with_timeout(ms: u64, f: impl FnOnce() -> Val + Send + 'static) -> Val {
    let ms = ms.saturating_mul(patience());
    let (tx, rx) = std::sync::mpsc::channel();
    let _ = std::thread::Builder::new()
        .stack_size(64 << 20)
        .spawn(move || {
            let v = match std::panic::catch_unwind(std::panic::AssertUnwindSafe(f)) {
                Ok(v) => v,
                Err(_) => Val::panic(),
            };
            let _ = tx.send(v);
        });
    match rx.recv_timeout(std::time::Duration::from_millis(ms)) {
        Ok(v) => v,
        Err(_) => Val::hang(),
    }
}

#[derive(Clone, Copy, Debug, PartialEq, Eq)]
pub enum Tier {
    Quick,
    Thorough,
}

pub struct Case {
    pub input: Val,
    pub tags: Vec<String>,
}

/// What a property binary provides.
pub trait Prop {
    /// generate the `i`-th random input of a run of `n`
    fn gen(&mut self, rng: &mut Rng, tier: Tier, i: usize, n: usize) -> Val;
    /// exhaustive small-scope inputs (thorough tier; may be empty)
    fn exhaustive(&mut self, _tier: Tier) -> Vec<Val> {
        vec![]
    }
    /// shard `k` of `m` of the exhaustive inputs, for enumerations that are expensive to
    /// materialise completely in every shard process; `None` = use `exhaustive` and filter
    fn exhaustive_shard(&mut self, _tier: Tier, _k: usize, _m: usize) -> Option<Vec<Val>> {
        None
    }
    /// run the implementation; `None` = the input is not in the harness' domain
    fn run(&mut self, input: &Val) -> Option<(Val, Vec<String>)>;
    /// re-derive the dependent fields of an input (segmentations, premise flags, oracle
    /// data obtained from the crate) so that a shrunk or hand-written input becomes
    /// consistent; `None` = cannot be repaired. Used by `run` mode only.
    fn canon(&mut self, input: &Val) -> Option<Val> {
        Some(input.clone())
    }
    /// one-off self checks of constants shared between model and source
    /// (e.g. the White_Space table); returns error descriptions
    fn selfcheck(&mut self) -> Vec<String> {
        vec![]
    }
}

/// replace this process by `gen` with the same arguments, starting at case `skip` (stdout is inherited)
fn reexec_gen(args: &[String], skip: usize) -> ! {
    use std::os::unix::process::CommandExt;
    let mut a: Vec<String> = vec![];
    let mut it = args.iter().skip(1);
    while let Some(x) = it.next() {
        if x == "--skip" {
            it.next();
        } else {
            a.push(x.clone());
        }
    }
    a.push("--skip".into());
    a.push(skip.to_string());
    let exe = std::env::current_exe().unwrap_or_else(|_| args[0].clone().into());
    let err = std::process::Command::new(exe).args(&a).exec();
    eprintln!("re-exec failed: {err}");
    std::process::exit(4)
}

/// replace this process by `run` over the remaining input lines
fn reexec_run(rest: &[String]) -> ! {
    use std::os::unix::process::CommandExt;
    let f = std::env::temp_dir().join(format!("verif-run-rest-{}-{}", std::process::id(), rest.len()));
    let _ = std::fs::write(&f, rest.join("\n") + "\n");
    let exe = std::env::current_exe().unwrap_or_else(|_| "".into());
    let err = std::process::Command::new(exe).arg("run").arg("--lines-file").arg(&f).exec();
    eprintln!("re-exec failed: {err}");
    std::process::exit(4)
}

fn arg<'a>(args: &'a [String], name: &str) -> Option<&'a str> {
    args.iter()
        .position(|a| a == name)
        .and_then(|p| args.get(p + 1))
        .map(|s| s.as_str())
}

/// `gen --seed S --n N --tier quick|thorough [--exhaustive]` prints
/// `input TAB impl-output TAB tags` per case; `run` reads inputs from stdin and
/// prints `impl-output TAB tags` (or `INVALID`); `selfcheck` prints problems.
pub fn main_loop(mut p: impl Prop) {
    // keep panic messages of caught panics out of the way
    std::panic::set_hook(Box::new(|_| {}));
    let args: Vec<String> = std::env::args().collect();
    let cmd = args.get(1).map(|s| s.as_str()).unwrap_or("");
    let tier = match arg(&args, "--tier") {
        Some("thorough") => Tier::Thorough,
        _ => Tier::Quick,
    };
    let stdout = std::io::stdout();
    let mut out = std::io::BufWriter::new(stdout.lock());
    match cmd {
        "gen" => {
            let seed: u64 = arg(&args, "--seed").and_then(|s| s.parse().ok()).unwrap_or(0);
            let n: usize = arg(&args, "--n").and_then(|s| s.parse().ok()).unwrap_or(100);
            let inputs: Vec<Val> = if args.iter().any(|a| a == "--exhaustive") {
                // shard k of m
                let k: usize = arg(&args, "--shard").and_then(|s| s.parse().ok()).unwrap_or(0);
                let m: usize = arg(&args, "--shards").and_then(|s| s.parse().ok()).unwrap_or(1).max(1);
                match p.exhaustive_shard(tier, k, m) {
                    Some(own) => own,
                    None => {
                        let all = p.exhaustive(tier);
                        all.into_iter().enumerate().filter(|(i, _)| i % m == k).map(|(_, v)| v).collect()
                    }
                }
            } else {
                let mut rng = Rng::new(seed);
                (0..n).map(|i| p.gen(&mut rng, tier, i, n)).collect()
            };
            // watchdog: a case that does not finish (a wedged implementation thread the
            // per-case guards did not catch) ends the process with what was printed so far
            let beat = std::sync::Arc::new(std::sync::Mutex::new(std::time::Instant::now()));
            let beat2 = beat.clone();
            let limit: u64 = std::env::var("VERIF_CASE_TIMEOUT_S").ok().and_then(|s| s.parse().ok()).unwrap_or(90) * patience();
            std::thread::spawn(move || loop {
                std::thread::sleep(std::time::Duration::from_millis(500));
                if beat2.lock().unwrap().elapsed().as_secs() > limit {
                    eprintln!("watchdog: a case exceeded {limit}s");
                    std::process::exit(3);
                }
            });
            let skip: usize = arg(&args, "--skip").and_then(|s| s.parse().ok()).unwrap_or(0);
            if args.iter().any(|a| a == "--only-input") {
                // print the input of case `skip` without running it (the runner re-runs the case a shard died in)
                if let Some(v) = inputs.get(skip) {
                    let _ = writeln!(out, "{}", v.to_sexp());
                }
                let _ = out.flush();
                return;
            }
            for (i, input) in inputs.into_iter().enumerate().skip(skip) {
                *beat.lock().unwrap() = std::time::Instant::now();
                let _ = out.flush();
                match p.run(&input) {
                    Some((o, tags)) => {
                        let hung = o == Val::hang();
                        let _ = writeln!(out, "{}\t{}\t{}", input.to_sexp(), o.to_sexp(), tags.join(","));
                        if hung {
                            // the case left threads of the implementation behind (still spinning, still calling the
                            // schedule points): nothing that runs in this process afterwards can be trusted.
                            // Continue with the next case in a fresh process image (the leaked threads die with this one).
                            let _ = out.flush();
                            reexec_gen(&args, i + 1);
                        }
                    }
                    None => {
                        let _ = writeln!(out, "{}\tINVALID\t", input.to_sexp());
                    }
                }
            }
        }
        "run" => {
            // all inputs are read up front: after a hang the rest is handed to a fresh process image (see `gen`)
            let lines: Vec<String> = match arg(&args, "--lines-file") {
                Some(f) => {
                    let txt = std::fs::read_to_string(f).unwrap_or_default();
                    let _ = std::fs::remove_file(f);
                    txt.lines().map(|l| l.to_string()).collect()
                }
                None => std::io::stdin().lock().lines().map_while(|l| l.ok()).collect(),
            };
            for (li, line) in lines.iter().enumerate() {
                let inp = line.split('\t').next().unwrap_or("");
                let canon = Val::parse(inp).and_then(|v| p.canon(&v));
                match canon.as_ref().and_then(|v| p.run(v)) {
                    Some((o, tags)) => {
                        let hung = o == Val::hang();
                        let _ = writeln!(
                            out,
                            "{}\t{}\t{}",
                            o.to_sexp(),
                            tags.join(","),
                            canon.as_ref().unwrap().to_sexp()
                        );
                        if hung && li + 1 < lines.len() {
                            let _ = out.flush();
                            reexec_run(&lines[li + 1..]);
                        }
                    }
                    None => {
                        let _ = writeln!(out, "INVALID\t");
                    }
                }
            }
        }
        "selfcheck" => {
            for e in p.selfcheck() {
                let _ = writeln!(out, "SELFCHECK-FAIL {e}");
            }
        }
        _ => {
            eprintln!("usage: gen --seed S --n N --tier T [--exhaustive --shard k --shards m] | run | selfcheck");
            std::process::exit(2);
        }
    }
    let _ = out.flush();
}

/// The White_Space table of the model, compared exhaustively with `char::is_whitespace`.
pub const WS_TABLE: &[u32] = &[
    9, 10, 11, 12, 13, 32, 133, 160, 5760, 8192, 8193, 8194, 8195, 8196, 8197, 8198, 8199, 8200,
    8201, 8202, 8232, 8233, 8239, 8287, 12288,
];

pub fn ws_table_selfcheck() -> Vec<String> {
    let mut errs = vec![];
    for c in 0..=0x10FFFFu32 {
        if let Some(ch) = char::from_u32(c) {
            if ch.is_whitespace() != WS_TABLE.contains(&c) {
                errs.push(format!("White_Space table differs at U+{c:04X}"));
            }
        }
    }
    errs
}

//! Shared by the C02 / C03 / C04 binaries (included with `#[path]`): merge-table and text
//! generators, construction of the REAL `BPETokenizer` from a table (via a merge
//! file written with `SerializeMsgPack::save`, or from hand-made file bytes), the file's
//! bytes and the real loader's reading of them (handed to the model, which decodes the
//! bytes itself), and a reference run of the heap loop that is used ONLY to compute tags
//! (number of merges / stale pops).
#![allow(dead_code)]
use std::cmp::Reverse;
use std::collections::{BinaryHeap, HashMap};
use text_utils::tokenization::{BPETokenizer, BPETokenizerConfig, MergeOps, SpecialConfig};
use text_utils::utils::SerializeMsgPack;
use vh::*;

pub type Table = Vec<Vec<u8>>;

/// characters the tables and texts are built from
pub const CHARS: &[&str] = &["a", "b", "c", "d", "ä", "é", "€", "😀", "ß", "x"];
/// whitespace separators: mostly the plain space
pub const SEPS: &[&str] = &[
    " ", " ", " ", " ", " ", "  ", "\t", "\n", "\r\n", "\u{a0}", "\u{3000}", "\u{2003}", " \u{85}", "\u{2028}", "\u{b}",
];

pub fn table_val(t: &Table) -> Val {
    Val::L(t.iter().map(|b| Val::bytes(b)).collect())
}

pub fn val_table(v: &Val) -> Option<Table> {
    let mut t = vec![];
    for e in v.as_l()? {
        let mut b = vec![];
        for x in e.as_l()? {
            b.push(u8::try_from(x.as_i()?).ok()?);
        }
        t.push(b);
    }
    // a merge file is a map: keys are distinct
    let mut seen = std::collections::HashSet::new();
    if !t.iter().all(|b| seen.insert(b.clone())) {
        return None;
    }
    Some(t)
}

/// make a (shrunk / hand-written) table value consistent: bytes clamped to 0..=255,
/// duplicate entries dropped (keys of a map are distinct)
pub fn canon_table(v: &Val) -> Option<Val> {
    let mut out: Vec<Vec<u8>> = vec![];
    for e in v.as_l()? {
        let b: Vec<u8> = e.as_l()?.iter().map(|x| x.as_i().unwrap_or(0).clamp(0, 255) as u8).collect();
        if !out.contains(&b) {
            out.push(b);
        }
    }
    Some(table_val(&out))
}

/// code points that are not scalar values are replaced by 'a'
pub fn canon_text(v: &Val) -> Option<Val> {
    Some(Val::L(
        v.as_l()?
            .iter()
            .map(|x| {
                let c = x.as_i().unwrap_or(97);
                Val::I(if u32::try_from(c).ok().and_then(char::from_u32).is_some() { c } else { 97 })
            })
            .collect(),
    ))
}

pub fn val_text(v: &Val) -> Option<String> {
    v.to_string_lossy()
}

/// Build the real tokenizer: table entry i gets merge id i.
pub fn build_tokenizer(
    dir: &str,
    table: &Table,
    max_vocab_size: Option<usize>,
    special: SpecialConfig,
    use_graphemes: bool,
) -> anyhow::Result<BPETokenizer> {
    build_tokenizer_file(dir, table, None, max_vocab_size, special, use_graphemes).0
}

/// The merge file as it is on disk when the real tokenizer is built, and what the real loader
/// (`MergeOps::load`, the call `BPETokenizer::new` makes) reads from it. Both go to the model, which
/// decodes the bytes itself (`MsgPack_Model.v`).
#[derive(Clone, Debug, PartialEq)]
pub struct MergeFile {
    pub bytes: Vec<u8>,
    /// `(id, key)` sorted; `None` = the loader returned `Err`
    pub loaded: Option<Vec<(u32, Vec<u8>)>>,
}

impl MergeFile {
    pub fn bytes_val(&self) -> Val {
        Val::bytes(&self.bytes)
    }
    /// `((id key) ...)` sorted by (id, key); `()` when the file did not load
    pub fn loaded_val(&self) -> Val {
        match &self.loaded {
            Some(l) => Val::list(l.iter(), |(i, k)| Val::L(vec![Val::I(*i as i64), Val::bytes(k)])),
            None => Val::L(vec![]),
        }
    }
    /// keys in id order when the ids are exactly 0..n-1
    pub fn well_formed(&self) -> Option<Table> {
        let l = self.loaded.as_ref()?;
        if l.iter().enumerate().all(|(i, (id, _))| *id as usize == i) {
            Some(l.iter().map(|(_, k)| k.clone()).collect())
        } else {
            None
        }
    }
}

/// Write the merge file — with the crate's own `save` of the table (entry i gets id i), or, when
/// `explicit` is given, exactly those bytes — read it back and load it with the crate's `load`.
pub fn write_merge_file(dir: &str, table: &Table, explicit: Option<&[u8]>) -> anyhow::Result<(std::path::PathBuf, MergeFile)> {
    static CNT: std::sync::atomic::AtomicUsize = std::sync::atomic::AtomicUsize::new(0);
    std::fs::create_dir_all(dir)?;
    let k = CNT.fetch_add(1, std::sync::atomic::Ordering::SeqCst);
    let path = std::path::PathBuf::from(format!("{dir}/{}-{k}.merges", std::process::id()));
    match explicit {
        None => {
            let ops: MergeOps = table.iter().enumerate().map(|(i, b)| (b.clone(), i as u32)).collect();
            ops.save(&path)?;
        }
        Some(b) => std::fs::write(&path, b)?,
    }
    let bytes = std::fs::read(&path)?;
    let loaded = MergeOps::load(&path).ok().map(|m| {
        let mut l: Vec<(u32, Vec<u8>)> = m.into_iter().map(|(k, i)| (i, k)).collect();
        l.sort();
        l
    });
    Ok((path, MergeFile { bytes, loaded }))
}

pub fn build_tokenizer_file(
    dir: &str,
    table: &Table,
    explicit: Option<&[u8]>,
    max_vocab_size: Option<usize>,
    special: SpecialConfig,
    use_graphemes: bool,
) -> (anyhow::Result<BPETokenizer>, MergeFile) {
    let (path, mf) = match write_merge_file(dir, table, explicit) {
        Ok(x) => x,
        Err(e) => return (Err(e), MergeFile { bytes: vec![], loaded: None }),
    };
    let r = BPETokenizer::new(
        BPETokenizerConfig { merge_file: path.clone(), max_vocab_size, use_graphemes },
        special,
    );
    let _ = std::fs::remove_file(&path);
    (r, mf)
}

// ---------------------------------------------------------------------------------------------
// hand-made merge files: the harness' own MessagePack writer (independent of rmp), used to feed the
// real loader streams the crate's `save` never writes: other integer widths, wide headers, bin keys,
// duplicate keys, trailing bytes, truncation, wrong types, ids >= 2^32

/// an unsigned integer in one of the encodings MessagePack has for it; `style` picks among those that
/// can hold `v` (0 = the minimal one `write_uint` chooses)
pub fn mp_uint(out: &mut Vec<u8>, v: u64, style: usize) {
    let mut forms: Vec<Vec<u8>> = vec![];
    // unsigned family, narrowest first
    if v < 128 {
        forms.push(vec![v as u8]);
    }
    if v < 256 {
        forms.push(vec![0xcc, v as u8]);
    }
    if v < 65536 {
        let mut f = vec![0xcd];
        f.extend((v as u16).to_be_bytes());
        forms.push(f);
    }
    if v < (1u64 << 32) {
        let mut f = vec![0xce];
        f.extend((v as u32).to_be_bytes());
        forms.push(f);
    }
    let mut f = vec![0xcf];
    f.extend(v.to_be_bytes());
    forms.push(f);
    // signed family (non-negative values)
    if v < 128 {
        forms.push(vec![0xd0, v as u8]);
    }
    if v < 32768 {
        let mut f = vec![0xd1];
        f.extend((v as i16).to_be_bytes());
        forms.push(f);
    }
    if v < (1u64 << 31) {
        let mut f = vec![0xd2];
        f.extend((v as i32).to_be_bytes());
        forms.push(f);
    }
    if v < (1u64 << 63) {
        let mut f = vec![0xd3];
        f.extend((v as i64).to_be_bytes());
        forms.push(f);
    }
    out.extend(&forms[style % forms.len()]);
}

/// a length header: `fix` = base of the fix form (0x80 map, 0x90 array), `m16` / `m32` the wide markers
pub fn mp_len(out: &mut Vec<u8>, n: usize, fix: u8, m16: u8, style: usize) {
    let mut forms: Vec<Vec<u8>> = vec![];
    if n < 16 {
        forms.push(vec![fix + n as u8]);
    }
    if n < 65536 {
        let mut f = vec![m16];
        f.extend((n as u16).to_be_bytes());
        forms.push(f);
    }
    let mut f = vec![m16 + 1];
    f.extend((n as u32).to_be_bytes());
    forms.push(f);
    out.extend(&forms[style % forms.len()]);
}

pub fn mp_key(out: &mut Vec<u8>, k: &[u8], hstyle: usize, estyle: &mut dyn FnMut() -> usize, bin: Option<usize>) {
    match bin {
        Some(b) => {
            // bin8 / bin16 / bin32
            let forms = [0xc4u8, 0xc5, 0xc6];
            let w = if k.len() < 256 { b % 3 } else if k.len() < 65536 { 1 + b % 2 } else { 2 };
            out.push(forms[w]);
            match w {
                0 => out.push(k.len() as u8),
                1 => out.extend((k.len() as u16).to_be_bytes()),
                _ => out.extend((k.len() as u32).to_be_bytes()),
            }
            out.extend(k);
        }
        None => {
            mp_len(out, k.len(), 0x90, 0xdc, hstyle);
            for b in k {
                mp_uint(out, *b as u64, estyle());
            }
        }
    }
}

/// a value of the wrong type where an integer / a key / the map is expected
fn mp_wrong(rng: &mut Rng) -> Vec<u8> {
    match rng.below(14) {
        0 => vec![0xc0],                               // nil
        1 => vec![0xc2 + rng.below(2) as u8],          // false / true
        2 => vec![0xca, 0x3f, 0x80, 0, 0],             // f32 1.0
        3 => vec![0xcb, 0x3f, 0xf0, 0, 0, 0, 0, 0, 0], // f64 1.0
        4 => vec![0xe0 + rng.below(32) as u8],         // negative fixint
        5 => vec![0xd0, 0x80 + rng.below(128) as u8],  // int8 < 0
        6 => vec![0xd1, 0xff, 0xfe],                   // int16 -2
        7 => vec![0xa1, b'a'],                         // fixstr "a"
        8 => vec![0xd9, 2, b'a', b'b'],                // str8 "ab"
        9 => vec![0xc1],                               // reserved
        10 => vec![0xd4, 1, 7],                        // fixext1
        11 => vec![0x81, 1, 1],                        // a map {1: 1}
        12 => vec![0xd3, 0xff, 0xff, 0xff, 0xff, 0xff, 0xff, 0xff, 0xff], // int64 -1
        _ => vec![0xcf, 0, 0, 0, 1, 0, 0, 0, rng.below(3) as u8], // uint64 >= 2^32
    }
}

/// one byte of every class of marker the reader distinguishes, and payload bytes that matter
pub const MARKERS: &[u8] = &[
    0x00, 0x01, 0x02, 0x61, 0x7f, 0x80, 0x81, 0x82, 0x90, 0x91, 0x92, 0xa1, 0xc0, 0xc2, 0xc4, 0xc5, 0xc6, 0xca, 0xcc, 0xcd, 0xce,
    0xcf, 0xd0, 0xd1, 0xd2, 0xd3, 0xd9, 0xdc, 0xdd, 0xde, 0xdf, 0xe0, 0xff,
];

/// Bytes for a merge file derived from `table` (entry i has id i) and the kind of stream.
/// Whether the real loader takes them is for the loader (and the model) to say.
pub fn gen_merge_file(rng: &mut Rng, table: &Table) -> (Vec<u8>, &'static str) {
    let n = table.len();
    let mut entries: Vec<(Vec<u8>, u64)> = table.iter().enumerate().map(|(i, k)| (k.clone(), i as u64)).collect();
    if rng.chance(3, 4) {
        rng.shuffle(&mut entries);
    }
    let kind = match rng.below(22) {
        20..=21 => {
            // short strings over the markers the reader distinguishes (and a few payload bytes)
            let l = rng.range(1, 10);
            return ((0..l).map(|_| *rng.pick(MARKERS)).collect(), "markers");
        }
        0 => "canonical",
        1..=2 => "widths",
        3 => "headers",
        4..=5 => "bin",
        6..=7 => "dupkeys",
        8..=9 => "trailing",
        10 => "count-short",
        11 => if rng.chance(1, 2) { "count-long" } else { "ids" },
        12..=13 => "truncated",
        14..=16 => "wrong-type",
        17 => "ids",
        18 => "mixed",
        _ => "empty-or-junk",
    };
    if kind == "empty-or-junk" {
        let l = rng.below(4);
        return ((0..l).map(|_| rng.below(256) as u8).collect(), kind);
    }
    let widths = matches!(kind, "widths" | "mixed");
    let headers = matches!(kind, "headers" | "mixed");
    let bin = matches!(kind, "bin") || (kind == "mixed" && rng.chance(1, 2));
    if kind == "dupkeys" && n > 0 {
        // earlier entries with the same key and another id: the later one wins
        for _ in 0..rng.range(1, 3) {
            let (k, _) = entries[rng.below(entries.len())].clone();
            let at = rng.below(entries.iter().position(|e| e.0 == k).unwrap() + 1);
            entries.insert(at, (k, rng.below(n + 2) as u64));
        }
        if rng.chance(1, 4) {
            // ... or a later duplicate that does change the map
            let (k, _) = entries[rng.below(entries.len())].clone();
            entries.push((k, rng.below(n + 1) as u64));
        }
    }
    if kind == "ids" && n > 0 {
        let i = rng.below(entries.len());
        entries[i].1 = match rng.below(8) {
            0 => u32::MAX as u64,
            1 => n as u64,
            2 => entries[(i + 1) % entries.len()].1,
            3 => 65536 + rng.below(3) as u64,
            4 => (1u64 << 31) + rng.below(2) as u64,
            // beyond u32: a loader that reads wider integers and truncates would take these
            5 => (1u64 << 32) + rng.below(n + 1) as u64,
            6 => (1u64 << 40) + entries[i].1,
            _ => u64::MAX - rng.below(2) as u64,
        };
    }
    let count = match kind {
        "count-short" => entries.len().saturating_sub(rng.range(1, 2)),
        "count-long" => entries.len() + rng.range(1, 3),
        _ => entries.len(),
    };
    let wrong_at = if kind == "wrong-type" { Some((rng.below(entries.len().max(1)), rng.below(4))) } else { None };
    let mut out = vec![];
    if let Some((_, 3)) = wrong_at {
        // the top level is not a map: an array header, or some other value
        if rng.chance(1, 2) {
            mp_len(&mut out, count, 0x90, 0xdc, 0);
        } else {
            return (mp_wrong(rng), kind);
        }
    } else {
        mp_len(&mut out, count, 0x80, 0xde, if headers { rng.below(3) } else { 0 });
    }
    for (i, (k, id)) in entries.iter().enumerate() {
        let wrong = wrong_at.filter(|w| w.0 == i).map(|w| w.1);
        if wrong == Some(0) {
            out.extend(mp_wrong(rng)); // instead of the key
        } else if wrong == Some(1) && !k.is_empty() {
            // a wrong element inside the key (or a byte value >= 256)
            mp_len(&mut out, k.len(), 0x90, 0xdc, 0);
            let at = rng.below(k.len());
            for (j, b) in k.iter().enumerate() {
                if j == at {
                    if rng.chance(1, 3) {
                        out.extend([0xcd, 1, *b]);
                    } else {
                        out.extend(mp_wrong(rng));
                    }
                } else {
                    mp_uint(&mut out, *b as u64, 0);
                }
            }
        } else {
            let hs = if headers { rng.below(3) } else { 0 };
            let b = if bin && rng.chance(2, 3) { Some(rng.below(3)) } else { None };
            let mut es = || if widths { rng.below(9) } else { 0 };
            mp_key(&mut out, k, hs, &mut es, b);
        }
        if wrong == Some(2) {
            out.extend(mp_wrong(rng)); // instead of the id
        } else {
            mp_uint(&mut out, *id, if widths { rng.below(9) } else { 0 });
        }
    }
    match kind {
        "trailing" => {
            for _ in 0..rng.range(1, 4) {
                out.push(rng.below(256) as u8);
            }
        }
        "truncated" => {
            let cut = rng.below(out.len());
            out.truncate(cut);
        }
        _ => {}
    }
    (out, kind)
}

pub fn plain_special() -> SpecialConfig {
    SpecialConfig { pad: "<pad>".into(), tokens: vec!["<pad>".into()], prefix: vec![], suffix: vec![] }
}

/// a random sub-alphabet of 3..=7 characters; the first `k` are ASCII-heavy so that words collide
pub fn gen_alphabet(rng: &mut Rng) -> Vec<&'static str> {
    let n = rng.range(3, 7);
    let mut a: Vec<&'static str> = vec![];
    // always two or three plain letters so that pairs repeat
    let mut pool: Vec<&'static str> = CHARS.to_vec();
    rng.shuffle(&mut pool[3..]);
    if rng.chance(1, 3) {
        rng.shuffle(&mut pool);
    }
    for c in pool {
        if a.len() < n {
            a.push(c);
        }
    }
    a
}

pub fn gen_word(rng: &mut Rng, alpha: &[&str], maxlen: usize) -> String {
    let n = rng.range(1, maxlen);
    // a narrow sub-alphabet in a third of the words: aa, aaa, abab ...
    let narrow = rng.chance(1, 3);
    let k = if narrow { rng.range(1, 2.min(alpha.len())) } else { alpha.len() };
    (0..n).map(|_| alpha[rng.below(k)]).collect()
}

fn occurs(hay: &[Vec<u8>], x: &[u8], y: &[u8]) -> bool {
    hay.windows(2).any(|w| w[0] == x && w[1] == y)
}

/// "Trained-like" table: merges are chosen among pairs that are adjacent in a small
/// corpus segmented by the merges so far (so every entry is reachable); `deep`
/// prefers pairs that involve an already merged token (depth >= 2).
fn table_trained(rng: &mut Rng, alpha: &[&str], n: usize, deep: bool) -> Table {
    let nw = rng.range(3, 8);
    let mut corpus: Vec<Vec<Vec<u8>>> = (0..nw)
        .map(|_| {
            let mut w = String::new();
            if rng.chance(2, 3) {
                w.push(' ');
            }
            w.push_str(&gen_word(rng, alpha, 7));
            w.bytes().map(|b| vec![b]).collect()
        })
        .collect();
    let mut table: Table = vec![];
    for _ in 0..n {
        let mut pairs: Vec<(Vec<u8>, Vec<u8>)> = vec![];
        for w in &corpus {
            for p in w.windows(2) {
                let m = [p[0].as_slice(), p[1].as_slice()].concat();
                if !table.contains(&m) && !pairs.iter().any(|q| q.0 == p[0] && q.1 == p[1]) {
                    pairs.push((p[0].clone(), p[1].clone()));
                }
            }
        }
        if pairs.is_empty() {
            break;
        }
        let deep_pairs: Vec<_> = pairs.iter().filter(|p| p.0.len() > 1 || p.1.len() > 1).cloned().collect();
        let (x, y) = if deep && !deep_pairs.is_empty() && rng.chance(3, 4) {
            rng.pick(&deep_pairs).clone()
        } else {
            rng.pick(&pairs).clone()
        };
        let m = [x.as_slice(), y.as_slice()].concat();
        // another pair with the same concatenation may already be in the table
        if table.contains(&m) {
            continue;
        }
        table.push(m.clone());
        for w in corpus.iter_mut() {
            let mut i = 0;
            while i + 1 < w.len() {
                if w[i] == x && w[i + 1] == y {
                    w[i] = m.clone();
                    w.remove(i + 1);
                }
                i += 1;
            }
        }
        let _ = occurs;
    }
    table
}

/// Well-formed but arbitrary: every entry is the concatenation of two earlier tokens
/// (single bytes of the alphabet or earlier entries) in random order, so merges
/// overlap and compete (ab / bc, ab < abc < cd, aa / aaa / aaaa ...).
fn table_concat(rng: &mut Rng, alpha: &[&str], n: usize, deep: bool) -> Table {
    let mut singles: Vec<Vec<u8>> = vec![];
    for c in alpha.iter().chain([" "].iter()) {
        for b in c.bytes() {
            if !singles.contains(&vec![b]) {
                singles.push(vec![b]);
            }
        }
    }
    let mut table: Table = vec![];
    let mut tries = 0;
    while table.len() < n && tries < 10 * n + 10 {
        tries += 1;
        let pick = |rng: &mut Rng, table: &Table| -> Vec<u8> {
            if !table.is_empty() && rng.chance(if deep { 3 } else { 1 }, 5) {
                rng.pick(table).clone()
            } else {
                // few distinct letters so that entries overlap
                singles[rng.below(singles.len().min(4))].clone()
            }
        };
        let x = pick(rng, &table);
        let y = pick(rng, &table);
        let m = [x.as_slice(), y.as_slice()].concat();
        if m.len() <= 8 && !table.contains(&m) {
            table.push(m);
        }
    }
    table
}

/// not well-formed: random byte strings over the alphabet's bytes (entries that can never be produced
/// are harmless; entries of length 0/1 are never looked up)
fn table_arbitrary(rng: &mut Rng, alpha: &[&str], n: usize) -> Table {
    let bytes: Vec<u8> = alpha.iter().flat_map(|c| c.bytes()).chain([b' ']).collect();
    let mut table: Table = vec![];
    for _ in 0..n {
        let l = if rng.chance(1, 10) { rng.below(2) } else { rng.range(2, 4) };
        let m: Vec<u8> = (0..l).map(|_| bytes[rng.below(bytes.len().min(5))]).collect();
        if !table.contains(&m) {
            table.push(m);
        }
    }
    table
}

pub fn adversarial_tables() -> Vec<Table> {
    let t = |l: &[&str]| -> Table { l.iter().map(|s| s.as_bytes().to_vec()).collect() };
    vec![
        t(&["ab", "abc"]),
        t(&["ab", "cd"]),
        t(&["ab", "bc"]),
        t(&["bc", "ab"]),
        t(&["ab", "abc", "cd"]),
        t(&["ab", "cd", "abc"]),
        t(&["ab", "cd", "abcd"]),
        t(&["aa", "aaa", "aaaa"]),
        t(&["aa", "aaaa", "aaa"]),
        t(&["aa", "aaaa"]),
        t(&["ab", "ba", "aba", "bab"]),
        t(&["bc", "abc", "ab"]),
        t(&["ab", "cab", "abc"]),
        t(&[" a", " ab", "ab", "bc", " abc"]),
        t(&["bc", "ab", "cd", "abcd", "bcd"]),
        t(&["ab", "bb", "abb", "bbb", "abbb", "bbbb"]),
        t(&["ä", "ää", "aä", "\u{e4}a"]),
        vec![vec![0xc3, 0xa4], vec![0xa4, 0xc3], vec![0xc3, 0xa4, 0xc3, 0xa4], vec![0xc3, 0xa4, 0xc3]],
        vec![vec![0xe2, 0x82], vec![0xe2, 0x82, 0xac], vec![0x82, 0xac], vec![0xac, 0xe2]],
        t(&[]),
    ]
}

/// (table, alphabet)
pub fn gen_table(rng: &mut Rng) -> (Table, Vec<&'static str>) {
    let mut alpha = gen_alphabet(rng);
    let k = rng.below(100);
    let n = match rng.below(10) {
        0 => rng.below(3),
        1..=6 => rng.range(2, 8),
        _ => rng.range(6, 16),
    };
    let deep = rng.chance(1, 2);
    let table = if k < 40 {
        table_trained(rng, &alpha, n, deep)
    } else if k < 75 {
        table_concat(rng, &alpha, n, deep)
    } else if k < 92 {
        let t = rng.pick(&adversarial_tables()).clone();
        alpha = vec!["a", "b", "c", "d", "ä", "€"];
        alpha.truncate(rng.range(2, 6));
        t
    } else {
        table_arbitrary(rng, &alpha, n)
    };
    (table, alpha)
}

/// texts over the alphabet: words, separators, optional leading / trailing whitespace
pub fn gen_text(rng: &mut Rng, alpha: &[&str], table: &Table) -> String {
    let mut s = String::new();
    let k = rng.below(100);
    if k < 2 {
        return s;
    }
    if k < 5 {
        // whitespace only
        for _ in 0..rng.range(1, 3) {
            s.push_str(*rng.pick(SEPS));
        }
        return s;
    }
    if rng.chance(1, 5) {
        s.push_str(*rng.pick(SEPS));
    }
    let nw = if k < 45 { 1 } else { rng.range(1, 4) };
    for i in 0..nw {
        if i > 0 {
            s.push_str(*rng.pick(SEPS));
            if rng.chance(1, 8) {
                s.push_str(*rng.pick(SEPS));
            }
        }
        // a word: random letters, or a concatenation of table entries (when they are UTF-8), or a mix
        let mode = rng.below(10);
        if mode < 5 || table.is_empty() {
            s.push_str(&gen_word(rng, alpha, 9));
        } else if mode < 7 {
            // the word IS one table entry (a shortcut that emits the entry's id directly is wrong when the
            // canonical merge order never reaches that entry)
            let e = rng.pick(table);
            match std::str::from_utf8(e) {
                Ok(t) if !t.is_empty() && !t.chars().any(|c| c.is_whitespace()) => s.push_str(t),
                Ok(t) if !t.trim_start().is_empty() && !t.trim_start().chars().any(|c| c.is_whitespace()) => s.push_str(t.trim_start()),
                _ => s.push_str(&gen_word(rng, alpha, 3)),
            }
        } else {
            for _ in 0..rng.range(1, 3) {
                let e = rng.pick(table);
                match std::str::from_utf8(e) {
                    Ok(t) if !t.chars().any(|c| c.is_whitespace()) => s.push_str(t),
                    _ => s.push_str(&gen_word(rng, alpha, 3)),
                }
                if rng.chance(1, 3) {
                    s.push_str(&gen_word(rng, alpha, 2));
                }
            }
        }
    }
    if rng.chance(1, 4) {
        s.push_str(*rng.pick(SEPS));
    }
    s
}

/// `find_iter` of `\s+\S+|^\S+` re-done on chars (tags only)
pub fn split_words(s: &str) -> Vec<String> {
    let mut words = vec![];
    let mut cur = String::new();
    let mut seen = false;
    for c in s.chars() {
        if c.is_whitespace() {
            if seen {
                words.push(std::mem::take(&mut cur));
                seen = false;
            }
            cur.push(c);
        } else {
            cur.push(c);
            seen = true;
        }
    }
    if seen {
        words.push(cur);
    }
    words
}

/// Reference run of the repaired heap loop on one word, used for TAGS ONLY:
/// returns (merges applied, stale entries popped).
pub fn ref_stats(table: &HashMap<Vec<u8>, u32>, word: &[u8]) -> (usize, usize) {
    let mut bytes: Vec<Vec<u8>> = word.iter().map(|b| vec![*b]).collect();
    let mut ids: Vec<Option<u32>> = word.iter().map(|b| Some(*b as u32)).collect();
    let mut heap = BinaryHeap::new();
    for i in 0..bytes.len().saturating_sub(1) {
        let m = [bytes[i].as_slice(), bytes[i + 1].as_slice()].concat();
        if let Some(&id) = table.get(&m) {
            heap.push((Reverse(id), Reverse(i), i + 1, ids[i], ids[i + 1], m));
        }
    }
    let (mut merges, mut stale) = (0, 0);
    while let Some((Reverse(id), Reverse(fi), si, fid, sid, m)) = heap.pop() {
        if ids[fi] != fid || ids[si] != sid {
            stale += 1;
            continue;
        }
        merges += 1;
        bytes[fi] = m.clone();
        bytes[si].clear();
        ids[fi] = Some(256 + id);
        ids[si] = None;
        if let Some(p) = (0..fi).rev().find(|&p| !bytes[p].is_empty()) {
            let mm = [bytes[p].as_slice(), m.as_slice()].concat();
            if let Some(&id2) = table.get(&mm) {
                heap.push((Reverse(id2), Reverse(p), fi, ids[p], ids[fi], mm));
            }
        }
        if let Some(q) = (si + 1..bytes.len()).find(|&q| !bytes[q].is_empty()) {
            let mm = [m.as_slice(), bytes[q].as_slice()].concat();
            if let Some(&id2) = table.get(&mm) {
                heap.push((Reverse(id2), Reverse(fi), q, ids[fi], ids[q], mm));
            }
        }
    }
    (merges, stale)
}

pub fn text_stats(table: &Table, s: &str) -> (usize, usize, usize) {
    let map: HashMap<Vec<u8>, u32> = table.iter().enumerate().map(|(i, b)| (b.clone(), i as u32)).collect();
    let words = split_words(s);
    let (mut m, mut st) = (0, 0);
    for w in &words {
        let (a, b) = ref_stats(&map, w.as_bytes());
        m += a;
        st += b;
    }
    (words.len(), m, st)
}

/// `\s` of the word regex against the model's White_Space table, observed through the real
/// `count_words_whitespace` (which uses the same pattern): one long text with one probe per scalar.
pub fn regex_ws_selfcheck() -> Vec<String> {
    let mut errs = vec![];
    let mut s = String::new();
    let mut probes = vec![];
    for c in 0..=0x10FFFFu32 {
        if let Some(ch) = char::from_u32(c) {
            // " P<c>x<ch>y": if <ch> is \s the word " P<c>x" is cut off before it
            let key = format!(" P{c}x");
            s.push_str(&key);
            s.push(ch);
            s.push('y');
            probes.push((c, key));
        }
    }
    let words = text_utils::text::count_words_whitespace(&s, true);
    for (c, key) in probes {
        let is_ws = words.contains_key(key.as_str());
        if is_ws != WS_TABLE.contains(&c) {
            errs.push(format!("regex \\s differs from the White_Space table at U+{c:04X}"));
        }
    }
    errs
}

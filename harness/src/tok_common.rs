//! Shared by c01.rs / c04.rs / c17.rs (included with `#[path]`): tokenizer
//! configurations as `Val`, generators for special-token configs and texts, the
//! reference split used to obtain the per-segment cluster oracle from the real
//! `CharString`.
#![allow(dead_code)]
use text_utils::tokenization::{
    ByteGroups, ByteTokenizer, ByteTokenizerConfig, CharTokenizer, CharTokenizerConfig,
    GroupAggregation, SpecialConfig, Tokenize,
};
use vh::*;

#[derive(Clone, Debug)]
pub struct TokCfg {
    pub is_char: bool,
    pub g: bool,
    pub code_point_groups: bool,
    pub padto: Option<usize>,
    pub tokens: Vec<String>,
    pub pad: String,
    pub prefix: Vec<String>,
    pub suffix: Vec<String>,
    pub unk: String,
}

/// the regular alphabet of the real character tokenizer, in id order (read from `get_vocab`)
pub fn alphabet() -> Vec<char> {
    let t = CharTokenizer::new(
        CharTokenizerConfig { use_graphemes: false, unk_token: "<unk>".to_string() },
        SpecialConfig::default(),
    )
    .expect("default char tokenizer");
    let vocab = t.get_vocab().expect("vocab");
    // default special tokens: <unk> <bos> <eos> <pad> (+ unk again, not new)
    let n = t.vocab_size() - 4;
    vocab[..n]
        .iter()
        .map(|b| {
            let s = std::str::from_utf8(b).expect("utf8");
            let mut it = s.chars();
            let c = it.next().expect("one char");
            assert!(it.next().is_none());
            c
        })
        .collect()
}

fn strs_val(l: &[String]) -> Val {
    Val::list(l.iter(), |s| Val::str(s))
}

fn val_strs(v: &Val) -> Option<Vec<String>> {
    v.as_l()?.iter().map(|x| x.to_string_lossy()).collect()
}

impl TokCfg {
    /// the ten leading fields of an input: kind g groups padto tokens pad prefix suffix unk alphabet
    pub fn to_vals(&self, alpha: &[char]) -> Vec<Val> {
        vec![
            Val::b(self.is_char),
            Val::b(self.g),
            Val::b(self.code_point_groups),
            Val::opt(self.padto, Val::u),
            strs_val(&self.tokens),
            Val::str(&self.pad),
            strs_val(&self.prefix),
            strs_val(&self.suffix),
            Val::str(&self.unk),
            if self.is_char {
                Val::L(alpha.iter().map(|c| Val::I(*c as i64)).collect())
            } else {
                Val::L(vec![])
            },
        ]
    }

    pub fn from_vals(l: &[Val]) -> Option<TokCfg> {
        if l.len() < 10 {
            return None;
        }
        let padto = match l[3].as_l()? {
            [] => None,
            [x] => Some(x.as_usize()?),
            _ => return None,
        };
        // the constructor asserts a power of two; anything else is outside the domain
        if let Some(p) = padto {
            if !p.is_power_of_two() || p > 1024 {
                return None;
            }
        }
        let c = TokCfg {
            is_char: l[0].as_bool()?,
            g: l[1].as_bool()?,
            code_point_groups: l[2].as_bool()?,
            padto,
            tokens: val_strs(&l[4])?,
            pad: l[5].to_string_lossy()?,
            prefix: val_strs(&l[6])?,
            suffix: val_strs(&l[7])?,
            unk: l[8].to_string_lossy()?,
        };
        // empty special tokens are outside the domain (DESIGN section 6)
        if c.tokens.iter().any(|t| t.is_empty()) || (c.is_char && c.unk.is_empty()) {
            return None;
        }
        if c.tokens.len() > 40 {
            return None;
        }
        Some(c)
    }

    pub fn special(&self) -> SpecialConfig {
        SpecialConfig {
            pad: self.pad.clone(),
            tokens: self.tokens.clone(),
            prefix: self.prefix.clone(),
            suffix: self.suffix.clone(),
        }
    }

    pub fn byte_cfg(&self, agg: GroupAggregation) -> ByteTokenizerConfig {
        ByteTokenizerConfig {
            use_graphemes: self.g,
            pad_to_multiple_of: self.padto,
            groups: if self.code_point_groups { ByteGroups::CodePoints } else { ByteGroups::Bytes },
            aggregation: agg,
        }
    }

    pub fn build(&self) -> anyhow::Result<Box<dyn Tokenize>> {
        Ok(if self.is_char {
            Box::new(CharTokenizer::new(
                CharTokenizerConfig { use_graphemes: self.g, unk_token: self.unk.clone() },
                self.special(),
            )?)
        } else {
            Box::new(ByteTokenizer::new(self.byte_cfg(GroupAggregation::Mean), self.special())?)
        })
    }

    /// special tokens in id order as the constructor sees them, *without* the
    /// `<extra_token_i>` padding of the byte tokenizer (first occurrences only)
    pub fn listed_tokens(&self) -> Vec<String> {
        let mut all = self.tokens.clone();
        if self.is_char {
            all.push(self.unk.clone());
        }
        let mut out: Vec<String> = vec![];
        for t in all {
            if !out.contains(&t) {
                out.push(t);
            }
        }
        out
    }

    /// all special tokens the built tokenizer knows, in id order (with the byte tokenizer's padding)
    pub fn all_tokens(&self) -> Vec<String> {
        let mut out = self.listed_tokens();
        if !self.is_char {
            if let Some(p) = self.padto {
                let n = 256 + out.len();
                let k = n.div_ceil(p) * p - n;
                for i in 0..k {
                    let t = format!("<extra_token_{}>", i);
                    if !out.contains(&t) {
                        out.push(t);
                    }
                }
            }
        }
        out
    }

    pub fn prefix_free(&self) -> bool {
        let t = self.all_tokens();
        !t.iter().any(|a| t.iter().any(|b| a != b && b.starts_with(a.as_str())))
    }
}

pub const TOKEN_POOL: &[&str] = &[
    "<a>", "<sep>", "[X]", "<<", "§", "é>", "<mask>", "</s>", "ab", "😀", "<extra_token_0>", "<extra_token_3>",
];
/// tokens that overlap with the defaults or the pool (one is a prefix of another)
pub const OVERLAP_POOL: &[&str] = &["<a><b>", "<pad>>", "<", "<p", "a", "<sep", "[X]]", "<<<"];
/// regex metacharacters: the scanner must treat tokens literally
pub const META_POOL: &[&str] = &["a.c", "(x", "\\d", "[a-z]", "a|b", "^", "$", ".*", "x+", "{2}", "\\"];

pub fn gen_cfg(rng: &mut Rng, is_char: bool) -> TokCfg {
    let mut tokens: Vec<String> = if rng.chance(4, 5) {
        vec!["<unk>".into(), "<bos>".into(), "<eos>".into(), "<pad>".into()]
    } else {
        vec!["<pad>".into()]
    };
    let n_extra = rng.below(4);
    let overlap = rng.chance(1, 8);
    let meta = rng.chance(1, 10);
    for _ in 0..n_extra {
        let pool: &[&str] = if overlap && rng.chance(1, 2) {
            OVERLAP_POOL
        } else if meta && rng.chance(1, 2) {
            META_POOL
        } else {
            TOKEN_POOL
        };
        tokens.push(rng.pick(pool).to_string());
    }
    if rng.chance(1, 8) && !tokens.is_empty() {
        // duplicate
        let d = rng.pick(&tokens).clone();
        let at = rng.below(tokens.len() + 1);
        tokens.insert(at, d);
    }
    if rng.chance(1, 4) {
        rng.shuffle(&mut tokens);
    }
    let pad = match rng.below(20) {
        0 => "<nopad>".to_string(), // constructor error
        1 | 2 => rng.pick(&tokens).clone(),
        _ => "<pad>".to_string(),
    };
    let pick_list = |rng: &mut Rng, tokens: &[String]| -> Vec<String> {
        let n = if rng.chance(1, 2) { 0 } else { rng.range(1, 3) };
        (0..n)
            .map(|_| {
                if rng.chance(1, 40) {
                    "<nope>".to_string() // constructor error
                } else {
                    rng.pick(tokens).clone()
                }
            })
            .collect()
    };
    let prefix = pick_list(rng, &tokens);
    let suffix = pick_list(rng, &tokens);
    let unk = match rng.below(10) {
        0 => "<u>".to_string(),
        1 => rng.pick(&tokens).clone(),
        _ => "<unk>".to_string(),
    };
    TokCfg {
        is_char,
        g: rng.chance(1, 2),
        code_point_groups: rng.chance(1, 2),
        padto: if is_char {
            None
        } else {
            match rng.below(8) {
                0 => Some(1),
                1 => Some(8),
                2 => Some(64),
                3 => Some(128),
                4 => Some(2),
                _ => None,
            }
        },
        tokens,
        pad,
        prefix,
        suffix,
        unk,
    }
}

pub const EXTRA_UNITS: &[&str] = &["\r\n", "👩\u{200d}💻", "🇩🇪", " ", " ", "<", ">", "\u{0}", "\u{7f}", "\u{80}", "\u{7ff}", "\u{800}", "\u{ffff}", "\u{10000}", "\u{10ffff}", "\u{d7ff}", "\u{e000}"];

pub const ASCII_PROFILE: &[&str] = &["a", "b", "x", "A", "0", ".", " ", " ", "\r\n", "\r\n", "\n", "\r", "\t", "<", ">", "\u{0}", "\u{7f}"];

/// text of 0..=max units: ASCII, multi-byte, combining, CRLF, ZWJ, special spellings, near misses
pub fn gen_text(rng: &mut Rng, cfg: &TokCfg, max_units: usize, alpha: &[char]) -> String {
    let toks = cfg.all_tokens();
    let n = match rng.below(12) {
        0 => 0,
        1 => 1,
        _ => rng.below(max_units + 1),
    };
    // a character-tokenizer text is over the alphabet in half of the cases
    let only_alpha = cfg.is_char && rng.chance(1, 2);
    // one text in six is pure ASCII including CR, LF, CRLF, TAB and control bytes (and special spellings, which
    // are ASCII too): the shape on which an `is_ascii()` shortcut would be taken; CR LF is one grapheme cluster
    let ascii_only = !only_alpha && rng.chance(1, 6);
    let mut s = String::new();
    for _ in 0..n {
        let k = rng.below(20);
        if ascii_only && !(k < 4 && !toks.is_empty()) {
            s.push_str(*rng.pick(ASCII_PROFILE));
            continue;
        }
        if k < 4 && !toks.is_empty() {
            // special spelling or a near miss of it
            let t = rng.pick(&toks[..toks.len().min(12)]).clone();
            let cs: Vec<char> = t.chars().collect();
            match rng.below(8) {
                0 => s.extend(cs[..cs.len() - 1].iter()),
                1 => s.extend(cs[1..].iter()),
                2 => {
                    s.push('<');
                    s.push_str(&t);
                    s.push('>');
                }
                3 => {
                    s.push_str(&t);
                    s.push_str(&t);
                }
                _ => s.push_str(&t),
            }
        } else if only_alpha || k < 10 {
            if cfg.is_char && !alpha.is_empty() {
                s.push(*rng.pick(alpha));
            } else {
                s.push_str(*rng.pick(units::ASCII));
            }
        } else if k < 14 {
            s.push_str(*rng.pick(units::MULTI));
        } else if k < 16 {
            s.push_str(*rng.pick(units::COMBINING));
        } else if k < 17 {
            s.push_str(*rng.pick(units::ZW));
        } else if k < 18 {
            s.push_str(*rng.pick(units::SEAM));
        } else {
            s.push_str(*rng.pick(EXTRA_UNITS));
        }
    }
    s
}

#[derive(Clone, Debug, PartialEq)]
pub enum Seg {
    Reg(String),
    Spec(String),
}

/// Reference split: leftmost match, first token in id order among those matching at a
/// position. (For prefix-free sets at most one token matches at a position, so this is
/// what any alternation order gives.) Used only to obtain the cluster oracle; the model
/// re-checks the segments against its own scan.
pub fn ref_split(toks: &[String], s: &str, ign: bool) -> Vec<Seg> {
    if ign {
        return vec![Seg::Reg(s.to_string())];
    }
    let mut out = vec![];
    let mut cur = String::new();
    let mut rest = s;
    while let Some(c) = rest.chars().next() {
        if let Some(t) = toks.iter().find(|t| rest.starts_with(t.as_str())) {
            if !cur.is_empty() {
                out.push(Seg::Reg(std::mem::take(&mut cur)));
            }
            out.push(Seg::Spec(t.clone()));
            rest = &rest[t.len()..];
        } else {
            cur.push(c);
            rest = &rest[c.len_utf8()..];
        }
    }
    if !cur.is_empty() {
        out.push(Seg::Reg(cur));
    }
    out
}

/// per regular segment the clusters of the real `CharString`
pub fn oracle(cfg: &TokCfg, s: &str, ign: bool) -> Val {
    let toks = cfg.all_tokens();
    Val::L(
        ref_split(&toks, s, ign)
            .iter()
            .filter_map(|g| match g {
                Seg::Reg(r) => Some(Val::clusters(r, cfg.g)),
                Seg::Spec(_) => None,
            })
            .collect(),
    )
}

pub fn ids_val(ids: &[u32]) -> Val {
    Val::L(ids.iter().map(|i| Val::I(*i as i64)).collect())
}

pub fn val_ids(v: &Val) -> Option<Vec<u32>> {
    v.as_l()?.iter().map(|x| x.as_i().and_then(|i| u32::try_from(i).ok())).collect()
}

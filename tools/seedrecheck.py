#!/usr/bin/env python3
"""Re-run the quick check of a kept seeded change against the current /verif and /repo HEAD.

usage: tools/seedrecheck.py <ID>-<k> [more ...]        e.g. tools/seedrecheck.py C05-4 C12-3
does   fresh scratch worktree of /repo HEAD; git apply seeded/<ID>-<k>/patch.diff (a patch that no longer applies is
       recorded as such); VERIF_REPO=<worktree> ./check <ID> --tier quick; appends the outcome to
       seeded/<ID>-<k>/meta.json under "rechecks" (never overwrites the original confirmation);
       removes the worktree and the private harness build.
"""
import json, os, re, shutil, subprocess, sys, time

ROOT = os.path.dirname(os.path.dirname(os.path.abspath(__file__)))


def sh(cmd, cwd=None, timeout=5400, env=None):
    p = subprocess.run(cmd, shell=True, cwd=cwd, env=env or os.environ, stdout=subprocess.PIPE, stderr=subprocess.STDOUT, text=True, errors="replace", timeout=timeout)
    return p.returncode, p.stdout


for sid in sys.argv[1:]:
    pid = sid.split("-")[0]
    d = f"{ROOT}/seeded/{sid}"
    meta = json.load(open(f"{d}/meta.json"))
    wt = f"/tmp/sr-{sid}"
    sh(f"git -C /repo worktree remove --force {wt}")
    shutil.rmtree(wt, ignore_errors=True)
    rc, out = sh(f"git -C /repo worktree add -f {wt} HEAD")
    assert rc == 0, out
    rec = {"repo_head": sh("git -C /repo rev-parse --short HEAD")[1].strip(),
           "verif_head": sh(f"git -C {ROOT} rev-parse --short HEAD")[1].strip(),
           "when": time.strftime("%Y-%m-%d %H:%M")}
    try:
        rc, out = sh(f"git apply {d}/patch.diff", cwd=wt)
        if rc != 0:
            # only the context moved (a later fix: commit changed a neighbouring line)? a three-way merge settles that
            rc3, out3 = sh(f"git apply --3way {d}/patch.diff", cwd=wt)
            if rc3 == 0 and "with conflicts" not in out3 and not sh("git diff --name-only --diff-filter=U", cwd=wt)[1].strip():
                rc = 0
                rec["applied_3way"] = True
                sh("git reset -q", cwd=wt)
            else:
                sh("git checkout -q -- . ; git reset -q --hard", cwd=wt)
        if rc != 0:
            # a later fix: commit touched the same lines: fall back to the /repo commit the change was confirmed at
            # (the checks are run in their current state against that older tree + the change)
            base = (meta.get("confirmation") or {}).get("checked_at_repo_head")
            if base:
                sh(f"git -C /repo worktree remove --force {wt}")
                shutil.rmtree(wt, ignore_errors=True)
                rc0, out0 = sh(f"git -C /repo worktree add -f {wt} {base}")
                if rc0 == 0:
                    # is the unchanged base itself still accepted by the current check? (a later fix: commit may be exactly what
                    # the check now demands; then a VIOLATION on base + change says nothing about the change)
                    rcb, outb = sh(f"VERIF_REPO={wt} ./check {pid} --tier quick", cwd=ROOT)
                    rec["base_accepted"] = rcb == 0
                    rc, out = sh(f"git apply {d}/patch.diff", cwd=wt)
                    if rc == 0:
                        rec["applied_on_base"] = base
                    if rcb != 0:
                        rc = 1
                        rec["note"] = f"the current check rejects the unchanged base {base} (a defect repaired later): not re-run"

        rec["patch_applies"] = rc == 0
        if rc == 0:
            t0 = time.time()
            rc, out = sh(f"VERIF_REPO={wt} ./check {pid} --tier quick", cwd=ROOT)
            rec["rc"] = rc
            rec["lines"] = [l[:400] for l in out.splitlines() if l.startswith("VIOLATION") or l.startswith(f"[{pid}] tier=")]
            if not rec["lines"]:
                rec["tail"] = out[-400:]
            rec["caught"] = rc == 1 and any(l.startswith("VIOLATION") for l in rec["lines"])
            # the checks of other properties the change was first confirmed with (e.g. a train_bpe change seeded for C02
            # is a C19 violation; a panic-handling change seeded for C05 a C09 violation)
            for other in [c for c in ((meta.get("confirmation") or {}).get("checks") or {}) if c != pid]:
                if rec["caught"]:
                    break
                rc2, out2 = sh(f"VERIF_REPO={wt} ./check {other} --tier quick", cwd=ROOT)
                l2 = [l[:400] for l in out2.splitlines() if l.startswith("VIOLATION") or l.startswith(f"[{other}] tier=")]
                rec["lines"] += l2
                rec["caught"] = rc2 == 1 and any(l.startswith("VIOLATION") for l in l2)
                if rec["caught"]:
                    out = out2
            rec["wall_s"] = round(time.time() - t0)
            m = re.search(r"replay=(\S+)", out)
            if m and os.path.exists(m.group(1)):
                rp = json.load(open(m.group(1)))
                rec["replay_kind"] = rp.get("kind")
                rec["replay_input"] = (rp.get("input") or "")[:400]
        else:
            rec["apply_err"] = out[-400:]
    finally:
        sh(f"git -C /repo worktree remove --force {wt}")
        alt = f"{ROOT}/work/alt-" + re.sub(r"[^A-Za-z0-9]+", "_", wt).strip("_")
        shutil.rmtree(alt, ignore_errors=True)
        shutil.rmtree(wt, ignore_errors=True)
    meta.setdefault("rechecks", []).append(rec)
    json.dump(meta, open(f"{d}/meta.json", "w"), indent=1)
    print(sid, json.dumps(rec)[:600], flush=True)

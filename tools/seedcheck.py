#!/usr/bin/env python3
"""Confirm a seeded change produced by an independent sub-agent and run the /verif checks against it.

usage: tools/seedcheck.py <ID> <k> [extra check ids...]
reads  /tmp/seed-<ID>/<k>/{patch.diff,demo.rs,meta.json}
does   fresh scratch worktree of /repo HEAD; demo without patch (must pass); apply patch; build; crate unit
       tests (must pass); demo with patch (must fail); VERIF_REPO=<worktree> ./check <ID> (and extra ids);
writes /verif/seeded/<ID>-<k>/{patch.diff,demo.rs,meta.json}; removes the worktree and its build output.
"""
import json, os, re, shutil, subprocess, sys, time

pid, k = sys.argv[1], sys.argv[2]
extra = sys.argv[3:]
src = f"/tmp/seed-{pid}/{k}"
wt = f"/tmp/sv-{pid}-{k}"
env = dict(os.environ, CARGO_NET_OFFLINE="true", CARGO_TARGET_DIR=f"{wt}/target")


def sh(cmd, cwd=None, timeout=3600, env=env):
    p = subprocess.run(cmd, shell=True, cwd=cwd, env=env, stdout=subprocess.PIPE, stderr=subprocess.STDOUT, text=True, errors="replace", timeout=timeout)
    return p.returncode, p.stdout


meta = json.load(open(f"{src}/meta.json"))
sh(f"git -C /repo worktree remove --force {wt}")
rc, out = sh(f"git -C /repo worktree add -f {wt} HEAD")
assert rc == 0, out
res = {"checked_at_repo_head": sh("git -C /repo rev-parse --short HEAD")[1].strip()}
try:
    os.makedirs(f"{wt}/tests", exist_ok=True)
    demo_name = f"demo_{pid}_{k}"
    shutil.copy(f"{src}/demo.rs", f"{wt}/tests/{demo_name}.rs")
    feat = "--features verif" if "verif" in meta.get("demo_cmd", "") else ""
    demo_cmd = f"cargo test --offline {feat} --test {demo_name}"
    rc, out = sh(demo_cmd, cwd=wt)
    res["demo_passes_without_patch"] = rc == 0
    res["demo_without_tail"] = out[-600:]
    rc, out = sh(f"git apply {src}/patch.diff", cwd=wt)
    res["patch_applies"] = rc == 0
    if rc != 0:
        res["apply_err"] = out[-600:]
    rc, out = sh("cargo test --offline --lib", cwd=wt)
    m = re.search(r"test result: (\w+)\. (\d+) passed; (\d+) failed", out)
    res["unit_tests_pass"] = rc == 0
    res["unit_tests"] = m.group(0) if m else out[-300:]
    sh("git checkout -- resources", cwd=wt)
    rc, out = sh(demo_cmd, cwd=wt)
    res["demo_fails_with_patch"] = rc != 0
    res["demo_with_tail"] = out[-600:]
    os.remove(f"{wt}/tests/{demo_name}.rs")
    # our checks against the changed tree
    res["checks"] = {}
    for cid in [pid] + extra:
        t0 = time.time()
        rc, out = sh(f"VERIF_REPO={wt} ./check {cid} --tier quick", cwd="/verif", env=dict(os.environ), timeout=5400)
        lines = [l for l in out.splitlines() if l.startswith("VIOLATION") or l.startswith(f"[{cid}]")]
        rp = None
        m = re.search(r"replay=(\S+)", out)
        if m and os.path.exists(m.group(1)):
            rp = json.load(open(m.group(1)))
        res["checks"][cid] = {"rc": rc, "lines": lines, "wall_s": round(time.time() - t0), "replay_kind": rp.get("kind") if rp else None,
                              "replay_input": (rp.get("input") or "")[:400] if rp else None}
        # keep the (shrunk) input that exposed the change as a regression case that always runs first
        if rp and rp.get("input") and len(rp["input"]) < 20000:
            os.makedirs(f"/verif/corpus/{cid}", exist_ok=True)
            with open(f"/verif/corpus/{cid}/seeded.case", "a") as f:
                f.write(f"# exposed the seeded change {pid}-{k} ({rp.get('kind')})\n{rp['input']}\n")
finally:
    sh(f"git -C /repo worktree remove --force {wt}")
    alt = "/verif/work/alt-" + re.sub(r"[^A-Za-z0-9]+", "_", wt).strip("_")
    shutil.rmtree(alt, ignore_errors=True)
    shutil.rmtree(wt, ignore_errors=True)

confirmed = all(res.get(x) for x in ("demo_passes_without_patch", "patch_applies", "unit_tests_pass", "demo_fails_with_patch"))
res["confirmed"] = confirmed
caught = any(c["rc"] == 1 and any(l.startswith("VIOLATION") for l in c["lines"]) for c in res.get("checks", {}).values())
res["caught_by_quick_check"] = caught
dst = f"/verif/seeded/{pid}-{k}"
os.makedirs(dst, exist_ok=True)
shutil.copy(f"{src}/patch.diff", f"{dst}/patch.diff")
shutil.copy(f"{src}/demo.rs", f"{dst}/demo.rs")
json.dump({"property": pid, "from_subagent": meta, "confirmation": res,
           "what_was_run": [demo_cmd + " (before and after git apply patch.diff)", "cargo test --offline --lib", f"VERIF_REPO=<scratch worktree> ./check {pid} --tier quick"]},
          open(f"{dst}/meta.json", "w"), indent=1)
print(json.dumps({"id": f"{pid}-{k}", "confirmed": confirmed, "caught": caught, "checks": {c: v["lines"] for c, v in res.get("checks", {}).items()}}, indent=1))

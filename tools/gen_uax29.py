#!/usr/bin/env python3
"""Translate the grapheme tables of the locked `unicode-segmentation` crate into Gallina (and Rust).

    tools/gen_uax29.py            regenerate coq/theories/UAX29_Table.v, harness/src/uax29_ranges.rs and
                                  corpus/C11/uax29_boundaries.case
    tools/gen_uax29.py --check    exit 1 if the committed files differ from what the registry source gives,
                                  exit 0 (with a note) if the registry source of the locked version is absent

Reads the version of `unicode-segmentation` from $VERIF_REPO/Cargo.lock (default /repo/Cargo.lock), finds
`src/tables.rs` of exactly that version under ~/.cargo/registry/src/*/, and extracts what `src/grapheme.rs` uses:

  * `grapheme::grapheme_cat_table`  (lo, hi, GraphemeCat) — Extended_Pictographic and InCB=Consonant are
    categories of this table in this crate version;
  * `derived_property::InCB_Extend_table`  (lo, hi);
  * the code points matched by `is_incb_linker`;
  * `UNICODE_VERSION`, the variant list of `enum GraphemeCat`.

The output is deterministic (no timestamps); it records the crate version and the sha256 of tables.rs.
Stdlib only.
"""
import glob
import hashlib
import os
import re
import sys

ROOT = os.path.dirname(os.path.dirname(os.path.abspath(__file__)))
OUT_V = os.path.join(ROOT, "coq", "theories", "UAX29_Table.v")
OUT_RS = os.path.join(ROOT, "harness", "src", "uax29_ranges.rs")
OUT_CORPUS = os.path.join(ROOT, "corpus", "C11", "uax29_boundaries.case")
CRATE = "unicode-segmentation"


def locked_version():
    repo = os.environ.get("VERIF_REPO", "/repo").rstrip("/")
    lockp = os.path.join(repo, "Cargo.lock")
    if not os.path.exists(lockp):  # a scratch worktree has no lock file of its own (Cargo.lock is git-ignored in /repo)
        lockp = "/repo/Cargo.lock"
    lock = open(lockp).read()
    m = re.search(r'\[\[package\]\]\s*name = "%s"\s*version = "([^"]+)"' % re.escape(CRATE), lock)
    if not m:
        sys.exit(f"gen_uax29: {CRATE} not found in {repo}/Cargo.lock")
    return m.group(1)


def find_tables(version):
    home = os.environ.get("CARGO_HOME", os.path.expanduser("~/.cargo"))
    cands = sorted(glob.glob(os.path.join(home, "registry", "src", "*", f"{CRATE}-{version}", "src", "tables.rs")))
    return cands[0] if cands else None


CH = r"'(?:\\u\{([0-9a-fA-F]+)\}|\\(.)|([^'\\]))'"


def ch_val(m, k):
    """value of the char literal whose three groups start at group index k"""
    h, esc, plain = m.group(k), m.group(k + 1), m.group(k + 2)
    if h is not None:
        return int(h, 16)
    if esc is not None:
        return {"n": 10, "r": 13, "t": 9, "0": 0, "\\": 92, "'": 39}[esc]
    return ord(plain)


def body_of(src, header_re):
    """text between the '[' that follows header_re and the matching '];'"""
    m = re.search(header_re, src)
    if not m:
        sys.exit(f"gen_uax29: pattern {header_re!r} not found in tables.rs")
    start = m.end()
    end = src.index("];", start)
    return src[start:end]


def parse(src):
    d = {}
    m = re.search(r"pub const UNICODE_VERSION: \(u64, u64, u64\) = \((\d+), (\d+), (\d+)\);", src)
    d["unicode"] = tuple(int(x) for x in m.groups())
    # enum GraphemeCat
    m = re.search(r"pub enum GraphemeCat \{(.*?)\}", src, flags=re.S)
    d["cats"] = [x.strip() for x in m.group(1).split(",") if x.strip()]
    # the module `grapheme`
    gstart = src.index("pub mod grapheme {")
    gsrc = src[gstart:]
    body = body_of(gsrc, r"const grapheme_cat_table: &\[\(char, char, GraphemeCat\)\] = &\[")
    tab = []
    for m in re.finditer(r"\(\s*" + CH + r"\s*,\s*" + CH + r"\s*,\s*(GC_[A-Za-z_]+)\s*\)", body):
        tab.append((ch_val(m, 1), ch_val(m, 4), m.group(7)))
    d["table"] = tab
    body = body_of(gsrc, r"const grapheme_cat_lookup: &\[u16\] = &\[")
    d["lookup"] = [int(x) for x in re.findall(r"\d+", body)]
    m = re.search(r"let lookup_interval = (0x[0-9a-fA-F]+|\d+);", gsrc)
    d["lookup_interval"] = int(m.group(1), 0)
    # InCB_Extend
    body = body_of(src, r"const InCB_Extend_table: &\[\(char, char\)\] = &\[")
    ext = []
    for m in re.finditer(r"\(\s*" + CH + r"\s*,\s*" + CH + r"\s*\)", body):
        ext.append((ch_val(m, 1), ch_val(m, 4)))
    d["incb_extend"] = ext
    # is_incb_linker
    m = re.search(r"pub fn is_incb_linker\(c: char\) -> bool \{\s*matches!\(c,(.*?)\)\s*\}", src, flags=re.S)
    d["incb_linker"] = [ch_val(x, 1) for x in re.finditer(CH, m.group(1))]
    return d


def validate(d):
    """sanity of the translation itself (not of Unicode): counts, order, categories known"""
    errs = []
    t = d["table"]
    if not t or not d["incb_extend"] or not d["incb_linker"]:
        errs.append("an extracted table is empty")
    for (lo, hi, c) in t:
        if c not in d["cats"]:
            errs.append(f"unknown category {c}")
        if lo > hi:
            errs.append(f"range {lo:X}..{hi:X} reversed")
    for a, b in zip(t, t[1:]):
        if not a[1] < b[0]:
            errs.append(f"grapheme_cat_table not strictly increasing at {b[0]:X}")
    for a, b in zip(d["incb_extend"], d["incb_extend"][1:]):
        if not a[1] < b[0]:
            errs.append(f"InCB_Extend_table not strictly increasing at {b[0]:X}")
    # the acceleration table of the crate must describe the same function as a plain search
    li, lk = d["lookup_interval"], d["lookup"]
    last = lk[-1]
    for idx in range(0x110000 // li):
        if idx + 1 < len(lk):
            r0, r1 = lk[idx], lk[idx + 1] + 1
        else:
            r0, r1 = last, len(t)
        lo, hi = idx * li, idx * li + li - 1
        for k, (a, b, _) in enumerate(t):
            if b >= lo and a <= hi and not (r0 <= k < r1):
                errs.append(f"grapheme_cat_lookup slice for block {idx:#x} misses table entry {k}")
    if errs:
        sys.exit("gen_uax29: " + "; ".join(errs[:10]))


def gallina(d, version, digest):
    o = []
    w = o.append
    w("(** GENERATED by tools/gen_uax29.py — do not edit; `tools/gen_uax29.py --check` compares this file")
    w("    with what the registry source gives.")
    w(f"    source : {CRATE}-{version}/src/tables.rs")
    w(f"    sha256 : {digest}")
    w("    Unicode %d.%d.%d.  What src/grapheme.rs reads from tables.rs:" % d["unicode"])
    w(f"    [grapheme_cat_table] ({len(d['table'])} ranges; Extended_Pictographic and InCB=Consonant are")
    w(f"    categories of this table), [incb_extend_table] ({len(d['incb_extend'])} ranges,")
    w(f"    derived_property::InCB_Extend_table), [incb_linker_table] ({len(d['incb_linker'])} code points, is_incb_linker).")
    w("    Code points are [N] literals. *)")
    w("From Coq Require Import NArith List.")
    w("Import ListNotations.")
    w("")
    w("(** [enum GraphemeCat], same variants in the same order *)")
    w("Inductive cat : Set :=")
    w("  " + "\n  ".join("| " + c for c in d["cats"]) + ".")
    w("")
    w("(** Indic_Conjunct_Break values that are not grapheme categories *)")
    w("Inductive incb : Set := InCB_Linker | InCB_Extend.")
    w("")
    w("Definition unicode_version : N * N * N := (%d, %d, %d)%%N." % d["unicode"])
    w(f"Definition crate_version : list N := [{'; '.join(version.replace('.', ' ').split())}]%N.")
    w("")

    def emit(name, ty, rows):
        w(f"Definition {name} : list ({ty}) := [")
        line = "  "
        for k, r in enumerate(rows):
            item = r + ("; " if k + 1 < len(rows) else "")
            if len(line) + len(item) > 100:
                w(line.rstrip())
                line = "  "
            line += item
        w(line.rstrip())
        w("]%N.")
        w("")

    emit("grapheme_cat_table", "N * N * cat", [f"({lo}, {hi}, {c})" for lo, hi, c in d["table"]])
    emit("incb_extend_table", "N * N * incb", [f"({lo}, {hi}, InCB_Extend)" for lo, hi in d["incb_extend"]])
    emit("incb_linker_table", "N * N * incb", [f"({c}, {c}, InCB_Linker)" for c in d["incb_linker"]])
    return "\n".join(o)


def rust(d, version, digest):
    o = []
    w = o.append
    w("// GENERATED by tools/gen_uax29.py — do not edit (`tools/gen_uax29.py --check`).")
    w(f"// source: {CRATE}-{version}/src/tables.rs sha256 {digest}")
    w("// Used by the harness only to DRAW inputs (code points of every category); the segmentation")
    w("// under test always comes from the real crate.")
    w("#![allow(dead_code)]")
    w("pub const UNICODE_VERSION: (u32, u32, u32) = (%d, %d, %d);" % d["unicode"])
    w("pub const CATS: &[&str] = &[" + ", ".join(f'"{c}"' for c in d["cats"]) + "];")

    def emit(name, ty, rows):
        w(f"pub const {name}: &[{ty}] = &[")
        line = "    "
        for r in rows:
            item = r + ", "
            if len(line) + len(item) > 100:
                w(line.rstrip())
                line = "    "
            line += item
        w(line.rstrip())
        w("];")

    idx = {c: k for k, c in enumerate(d["cats"])}
    emit("GRAPHEME_CAT_TABLE", "(u32, u32, u8)", [f"({lo:#x}, {hi:#x}, {idx[c]})" for lo, hi, c in d["table"]])
    emit("INCB_EXTEND_TABLE", "(u32, u32)", [f"({lo:#x}, {hi:#x})" for lo, hi in d["incb_extend"]])
    emit("INCB_LINKER", "u32", [f"{c:#x}" for c in d["incb_linker"]])
    return "\n".join(o) + "\n"


# the probe strings of harness/src/bin/c11.rs (fn probe_text) — keep the two in step
PROBES = [([0x1100], [0x11A8]), ([0x1161], [0x1161]), ([13], [10]), ([0x1F600], [0x200D, 0x1F600]),
          ([0x1F600], [0x1F600]), ([0x1F1E6], [0x1F1E6]), ([0x915], [0x915]), ([0x915, 0x94D], [0x915]),
          ([32], [])]


def probe_text(c):
    out = []
    for pre, post in PROBES:
        out += pre + [c] + post + [0x2028]
    return out + [c, c]


def corpus(d, version):
    """C11 inputs (grapheme mode; the harness re-derives the cluster lists): the probe strings around
    every code point at or next to an end of a range of the three tables — run first on every check"""
    pts = {0, 0x7E, 0x7F, 0x80, 0xD7FF, 0xE000, 0xFFFF, 0x10000, 0x10FFFF}
    for lo, hi, _ in d["table"]:
        pts.update((lo - 1, lo, hi, hi + 1))
    for lo, hi in d["incb_extend"]:
        pts.update((lo - 1, lo, hi, hi + 1))
    for c in d["incb_linker"]:
        pts.update((c - 1, c, c + 1))
    pts = sorted(c for c in pts if 0 <= c <= 0x10FFFF and not 0xD800 <= c <= 0xDFFF)
    o = [f"# GENERATED by tools/gen_uax29.py from {CRATE}-{version}/src/tables.rs — do not edit.",
         f"# {len(pts)} code points at or next to the ends of the ranges of grapheme_cat_table,",
         "# InCB_Extend_table and is_incb_linker; one input per code point: the probe strings of",
         "# c11.rs:probe_text around it, as one cluster (the harness' canon re-segments the text)."]
    for c in pts:
        o.append("(1 ((" + " ".join(str(x) for x in probe_text(c)) + ")) ())")
    return "\n".join(o) + "\n"


def main():
    check = "--check" in sys.argv[1:]
    version = locked_version()
    path = find_tables(version)
    if path is None:
        msg = f"gen_uax29: registry source of {CRATE}-{version} not found under ~/.cargo/registry/src"
        if check:
            print(msg + " — nothing to compare, committed tables kept")
            sys.exit(0)
        sys.exit(msg)
    raw = open(path, "rb").read()
    digest = hashlib.sha256(raw).hexdigest()
    d = parse(raw.decode("utf-8"))
    validate(d)
    outs = [(OUT_V, gallina(d, version, digest) + "\n"), (OUT_RS, rust(d, version, digest)),
            (OUT_CORPUS, corpus(d, version))]
    if check:
        bad = []
        for p, text in outs:
            if not os.path.exists(p) or open(p).read() != text:
                bad.append(os.path.relpath(p, ROOT))
        if bad:
            print(f"gen_uax29: {', '.join(bad)} differ(s) from the translation of {path} "
                  f"({CRATE} {version}); run tools/gen_uax29.py and rebuild")
            sys.exit(1)
        print(f"gen_uax29: committed tables match {CRATE}-{version} (Unicode %d.%d.%d, %d ranges)"
              % (d["unicode"] + (len(d["table"]),)))
        sys.exit(0)
    for p, text in outs:
        if not os.path.exists(p) or open(p).read() != text:
            open(p, "w").write(text)
            print("wrote", os.path.relpath(p, ROOT))
        else:
            print("unchanged", os.path.relpath(p, ROOT))


if __name__ == "__main__":
    main()

#!/bin/bash
# every quick check under several seeds (no alarm may depend on the seed); run from a snapshot: evidence is overwritten
./check --setup > setup.log 2>&1
for s in ${SEEDS:-2 3 4}; do
  for i in 01 02 03 04 05 06 07 08 09 10 11 12 13 14 15 16 17 18 19 20; do
    echo "=== C$i seed $s $(date +%H:%M:%S)"
    timeout 3000 ./check C$i --tier quick --seed $s 2>&1 | grep -E "^\[C|VIOLATION|PROBLEM" | cut -c1-260
  done
done
echo "=== done $(date +%H:%M:%S)"

#!/usr/bin/env python3
"""Development aid (not a registered check): which lines of /repo's sources do the quick-tier generators of a
property execute?  Needs the nightly toolchain's llvm-tools (present in this sandbox).

usage: tools/coverage.py build            # instrumented build of all harness binaries into /root/cov/target
       tools/coverage.py Cxx [file ...]   # run corpus + quick generator of Cxx, print unexecuted lines of the files
Output is advisory: it shows where the correspondence never looks, so generators can be pointed there.
"""
import glob, json, os, re, subprocess, sys
ROOT = os.path.dirname(os.path.dirname(os.path.abspath(__file__)))
COV = "/root/cov"
T = "/root/.rustup/toolchains/nightly-x86_64-unknown-linux-gnu/lib/rustlib/x86_64-unknown-linux-gnu/bin"
env = dict(os.environ, CARGO_NET_OFFLINE="true", CARGO_TARGET_DIR=COV + "/target", RUSTFLAGS="-C instrument-coverage",
           LLVM_PROFILE_FILE=COV + "/build-%p.profraw")  # build scripts are instrumented too: keep their output out of /repo
if sys.argv[1] == "build":
    sys.exit(subprocess.call(["cargo", "+nightly", "build", "--offline", "--bins", "-j8"], cwd=ROOT + "/harness", env=env))
pid = sys.argv[1]
cfg = json.load(open(f"{ROOT}/props/{pid}.json"))
exe = f"{COV}/target/debug/{pid.lower()}"
pdir = f"{COV}/prof-{pid}"
subprocess.call(["rm", "-rf", pdir]); os.makedirs(pdir)
e2 = dict(os.environ, LLVM_PROFILE_FILE=f"{pdir}/%p-%m.profraw")
inputs = []
for f in sorted(glob.glob(f"{ROOT}/corpus/{pid}/*.case")):
    inputs += [l.strip().split("\t")[0] for l in open(f) if l.strip() and not l.startswith("#")]
subprocess.run([exe, "selfcheck"], env=e2, stdout=subprocess.DEVNULL, stderr=subprocess.DEVNULL)
if inputs:
    subprocess.run([exe, "run"], input="\n".join(inputs) + "\n", text=True, env=e2, stdout=subprocess.DEVNULL, stderr=subprocess.DEVNULL)
n = cfg["n_quick"]
procs = []
for k in range(8):
    seed = (1 * 1000003 + k * 7919 + 1)
    procs.append(subprocess.Popen([exe, "gen", "--seed", str(seed), "--n", str(n // 8 + 1), "--tier", "quick"], env=e2, stdout=subprocess.DEVNULL, stderr=subprocess.DEVNULL))
for p in procs:
    p.wait()
subprocess.check_call([T + "/llvm-profdata", "merge", "-sparse"] + glob.glob(pdir + "/*.profraw") + ["-o", pdir + "/m.profdata"])
props = {json.loads(l)["id"]: json.loads(l) for l in open(ROOT + "/properties.jsonl")}
files = sys.argv[2:] or props[pid]["anchors"]["files"]
for f in files:
    out = subprocess.run([T + "/llvm-cov", "show", exe, "-instr-profile=" + pdir + "/m.profdata", "/repo/" + f], stdout=subprocess.PIPE, stderr=subprocess.DEVNULL, text=True).stdout
    print(f"==== {pid} {f}: unexecuted lines (excluding PyO3 glue by heuristic)")
    skip = False
    for line in out.splitlines():
        m = re.match(r"\s*(\d+)\|\s*([0-9.kMG]*)\|(.*)", line)
        if not m:
            continue
        ln, cnt, src = int(m.group(1)), m.group(2), m.group(3)
        if cnt == "0":
            print(f"{ln:5d}: {src}")
